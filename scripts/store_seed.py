#!/usr/bin/env python3
"""store_seed.py <seed-id> <property> <src dir> <pkg> "<needs>" "<caught by>" "<verification summary>"
Copies patch.diff / demo_test.go / notes.md into /verif/seeded/<seed-id>/ and writes meta.json."""
import json, os, shutil, subprocess, sys
sid, prop, src, pkg, needs, caught, ran = sys.argv[1:8]
dst = f"/verif/seeded/{sid}"
os.makedirs(dst, exist_ok=True)
for f in ("patch.diff", "demo_test.go", "notes.md"):
    if os.path.exists(os.path.join(src, f)):
        shutil.copy(os.path.join(src, f), os.path.join(dst, f))
base = subprocess.check_output(["git", "-C", "/repo", "rev-parse", "--short", "HEAD"]).decode().strip()
meta = {
    "id": sid, "breaks_property": prop, "package_dir": pkg,
    "needs_to_manifest": needs,
    "written_by": "independent sub-agent given only the property text and a scratch worktree (no access to /verif)",
    "confirmed": ran,
    "repo_head_when_confirmed": base,
    "caught_by": caught,
    "how_to_try": f"scripts/try_seed.sh seeded/{sid}/patch.diff {prop}",
}
json.dump(meta, open(os.path.join(dst, "meta.json"), "w"), indent=1)
print("stored", dst)

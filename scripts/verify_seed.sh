#!/bin/bash
# Usage: [ALSO_SUITE="<dir> ..."] verify_seed.sh <seed dir with patch.diff + demo_test.go> <package dir relative to repo root, "." for root> [go test flags for the demo, e.g. -race]
# Confirms in a scratch worktree: the demo passes on the clean tree and fails with the patch; every test of the
# module that is in the pinned baseline (BASELINE.json stable_pass) still passes with the patch (failed tests are
# re-run once alone to discount timing flakes of the sleep-based examples).
set -u
SEED=$(readlink -f "$1"); PKG=${2:-.}; shift 2 || true; FLAGS="$*"
WT=$(mktemp -d /tmp/seedverify-XXXXXX)
git -C /repo worktree add -q --detach "$WT/wt" HEAD || exit 2
cleanup() { git -C /repo worktree remove --force "$WT/wt" >/dev/null 2>&1; rm -rf "$WT"; }
trap cleanup EXIT
cd "$WT/wt/$PKG" || exit 2
cp "$SEED/demo_test.go" ./zz_seed_demo_test.go
TESTS=$(grep -oE '^func (Test[A-Za-z0-9_]+)' zz_seed_demo_test.go | awk '{print $2}' | paste -sd'|')
go test -vet=off -count=1 $FLAGS -run "^($TESTS)\$" . > "$WT/clean.log" 2>&1; CLEAN=$?
( cd "$WT/wt" && git apply "$SEED/patch.diff" ) || { echo "RESULT patch does not apply"; exit 2; }
go test -vet=off -count=1 $FLAGS -run "^($TESTS)\$" . > "$WT/patched.log" 2>&1; PATCHED=$?
rm -f zz_seed_demo_test.go
go test -vet=off -count=1 -json ./... > "$WT/suite.json" 2>/dev/null
# ALSO_SUITE: further module directories (relative to the repository root) whose pinned tests must still pass
for extra in ${ALSO_SUITE:-}; do
  ( cd "$WT/wt/$extra" && go test -vet=off -count=1 -json ./... >> "$WT/suite.json" 2>/dev/null )
done
python3 - "$WT/suite.json" <<'PY' > "$WT/failed.txt"
import json,sys
base=set(json.load(open('/root/.vp/BASELINE.json'))['stable_pass'])
res={}
for l in open(sys.argv[1]):
    try: e=json.loads(l)
    except Exception: continue
    if e.get('Test') and e.get('Action') in('pass','fail'):
        res[e['Package']+'::'+e['Test']]=e['Action']
pk={k.split('::')[0] for k in res}
for b in sorted(base):
    if b.split('::')[0] in pk and res.get(b)!='pass' and '/' not in b.split('::')[1]:
        print(b)
PY
STILL=""
for pt in $(cat "$WT/failed.txt"); do
  pkgpath=${pt%%::*}; t=${pt##*::}
  ( cd "$WT/wt" && go test -vet=off -count=1 -run "^$t\$" "$pkgpath" >/dev/null 2>&1 ) || STILL="$STILL $t"
done
echo "clean demo: $(tail -1 $WT/clean.log)"
echo "patched demo: $(grep -E '^(--- FAIL|FAIL|ok|panic)' $WT/patched.log | head -3 | tr '\n' ' ')"
echo "baseline tests failing with the patch (after one retry):${STILL:- none} (first pass: $(wc -l < $WT/failed.txt) failed)"
OK=no; [ $CLEAN -eq 0 ] && [ $PATCHED -ne 0 ] && [ -z "$STILL" ] && OK=yes
echo "RESULT clean_demo_exit=$CLEAN patched_demo_exit=$PATCHED suite_regressions=${STILL:-none} confirmed=$OK"

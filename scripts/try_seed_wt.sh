#!/bin/bash
# Usage: try_seed_wt.sh <patch.diff> <property id> [more ids]
# Same as try_seed.sh but leaves /repo alone: the patch is applied to a scratch worktree of /repo's HEAD and the
# same checker binary is pointed at it (-repo), with a scratch output directory that shares KNOWN_FINDINGS.txt.
# Safe to run several at once.
set -u
PATCH=$(readlink -f "$1"); shift
export GOFLAGS=-mod=mod GOPROXY=off GOSUMDB=off GOTOOLCHAIN=local; unset GOWORK
WT=$(mktemp -d /tmp/seedtry-XXXXXX)
git -C /repo worktree add -q --detach "$WT/wt" HEAD || exit 2
cleanup() { git -C /repo worktree remove --force "$WT/wt" >/dev/null 2>&1; rm -rf "$WT"; }
trap cleanup EXIT
git -C "$WT/wt" apply "$PATCH" || { echo "patch does not apply"; exit 2; }
mkdir -p "$WT/v"; cp /verif/KNOWN_FINDINGS.txt "$WT/v/"
[ -x /verif/bin/rocheck ] || ( cd /verif/rocheck && go build -o ../bin/rocheck ./cmd/rocheck )
for id in "$@"; do
  OUT=$(/verif/bin/rocheck -prop "$id" -tier quick -repo "$WT/wt" -verif "$WT/v" 2>&1); RC=$?
  echo "--- $id exit=$RC"
  echo "$OUT" | grep -E "^  (violation|undecided|broken)|VIOLATION" | sed "s#$WT/wt/##g" | cut -c1-330 | head -8
done

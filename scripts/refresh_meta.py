#!/usr/bin/env python3
"""refresh_meta.py <seed-id>...   (or --all)

Re-tries stored seeded changes with the current checker (scratch worktree, /repo untouched) and rewrites the
"checks"/"caught" fields of their meta.json; everything else in meta.json is kept."""
import json, os, re, subprocess, sys
from concurrent.futures import ThreadPoolExecutor

ids = sys.argv[1:]
if ids == ["--all"]:
    ids = sorted(d for d in os.listdir("/verif/seeded") if re.match(r"^C\d+-\d+$", d))

def one(sid):
    d = f"/verif/seeded/{sid}"
    meta = json.load(open(f"{d}/meta.json"))
    prop = meta["breaks_property"]
    props = list(meta.get("checks", {}).keys()) or [prop]
    if prop not in props:
        props.insert(0, prop)
    caught = {}
    for p in props:
        t = subprocess.run(["/verif/scripts/try_seed_wt.sh", f"{d}/patch.diff", p], capture_output=True, text=True).stdout
        if "does not apply" in t:
            return f"{sid} does-not-apply"
        rc = re.search(r"exit=(\d+)", t)
        lines = [l.strip()[:300] for l in t.splitlines() if re.match(r"\s+(violation|undecided|broken)", l)]
        caught[p] = {"check_exit": int(rc.group(1)) if rc else None, "reports": lines[:6]}
    meta["checks"] = caught
    meta["caught"] = caught[prop]["check_exit"] == 1
    json.dump(meta, open(f"{d}/meta.json", "w"), indent=1)
    return f"{sid} {'reported' if meta['caught'] else 'MISSED'}"

with ThreadPoolExecutor(4) as ex:
    for r in ex.map(one, ids):
        print(r)

#!/usr/bin/env python3
"""Generates /verif/MANIFEST.json from the table below (kept next to the checker)."""
import json, subprocess, sys, os

ROOT = os.path.dirname(os.path.dirname(os.path.abspath(__file__)))

# property id -> (technique, level text, level note, design ref)
CHECKS = {
 "C18": ("static structural clauses on the plugin packages: STABLE-MEANS-STABLE (who-may-call unstable sorts), NO-INPUT-MUTATION (taint of received slices through slicing/conversions/sub-slice-returning stdlib calls to writes and appends), NO-POST-DELIVERY-MUTATION (reused emit buffers), FLAVOUR-AGREEMENT (per-byte unicode classification), FLUSH-BEFORE-TERMINAL (sinks over buffered writers), plus the core-contract rules (ERR-RESULT-USED, RELEASE, CTX-PROVENANCE, STATE-LEVEL, ERR-PROPAGATION, USER-FN-CONTEXT) re-run with plugin scope",
         "Narrow claim. Equality of each emitted value with the wrapped library function on all inputs, round trips and sortedness are value-level and NOT decided. Decided on the 12 plugin packages the property names: stable means stable, no write through a received slice or its derivatives, no emission of a reused buffer, no per-byte classification in the byte flavour, error results become Error notifications, and the core contract clauses (release, context, per-subscription state). Found and fixed SortStableFunc, NewIOReader and bytes.Ellipsis; bytes.Words' byte/rune mismatch is test-pinned and recorded.",
         "Trusted: documented aliasing behaviour of the listed standard-library functions; console writes (os.Stdout/Stderr) are not lifted functions.",
         "DESIGN.md section 4, C18"),
 "C19": ("static analysis of ee/plugins/prometheus: FORWARDER (each instrumentation operator is the identity on notifications and contexts), COUNT-ONCE (placement and multiplicity of metric updates), LICENCE-BOTH-ARMS (licence evaluated in the subscribe closure, arms built from the same operators, guarded early returns), PIPE-ARMS (generated PipeK: plain arm vs interleaved observers with matching name/position/index), RELEASE, NO-DOWNGRADE, STATE-LEVEL, CTX-PROVENANCE with plugin scope; FORWARDER requires every reaching definition of the forwarded context to derive from the received one",
         "Static discipline check: transparency follows from every instrumentation operator forwarding each notification exactly once, unconditionally, with its own payload and a context derived from the received one (or handing the destination upstream), given C01-C03/C09 for the core; counter exactness follows from each metric update sitting unconditionally in the slot its operator names, once per event; all 24 generated PipeK are checked arm against arm (the type checker cannot see an arg3/arg4 slip). Numeric equality with a trace is the argued consequence, not measured. The OpenTelemetry plugin cannot be type-checked offline and is out of reach.",
         "Trusted: core properties; prometheus client semantics.",
         "DESIGN.md section 4, C19"),
 "C20": ("static structural clauses: FILTER-SHAPE (the ulule limiter is a synchronous per-item filter: one store query with the item's key and context, at most one unmodified forward guarded by !Reached and err == nil, nothing buffered, terminals propagated), NATIVE-COMPOSITION (parameter plumbing of the native limiter), ERR-RESULT-USED / ERR-PROPAGATION / RELEASE / CTX-PROVENANCE with plugin scope, and STATE-LEVEL / SUBJECT-BROADCAST-LOCKED / SUBJECT-DELIVERS re-run with package ro armed (the native limiter composes core operators)",
         "Narrow claim. The quota per time window is NOT decided (clock, store, and run-time behaviour of GroupBy/WindowWhen/MergeAll). Decided: the structural reasons for per-key order, no duplication and propagation of terminals in the ulule limiter, the conversion of store errors into Error notifications, and that the native limiter's count/interval/key parameters reach Take/Interval/GroupBy.",
         "Trusted: ulule/limiter's Get/Reached semantics.",
         "DESIGN.md section 4, C20"),
 "C16": ("static structural clauses only: RELEASE / TEARDOWN-ALL-RUN (every timer, ticker and looping goroutine is stopped or signalled by the teardown on every path), CTX-WATCH / CTX-DONE-TERMINATES (context-aware sources watch the subscriber context and the cancellation case ends the output), QUEUE-FIFO / CTX-PAIRING (queues filled at the tail, read at the dropped head, notification and context leave together), TERMINAL-PROPAGATION / DEAD-EMISSION / NO-EMIT-UNDER-TEARDOWN-LOCK",
         "Narrow claim. Every clause that compares wall-clock instants or counts events per time window (never early, at most one per window or tick, Timeout's quiet period) is NOT decided: no sound static argument in reach bounds those, and the duration operand of the timer primitives admits no exact rule (any larger or scaled operand keeps the lower bounds). Decided are the clauses visible in the code's shape: operators fall silent after unsubscription or context cancellation (timers stopped, goroutines signalled, cancellation case terminates), queued notifications are not reordered (FIFO queue discipline of Delay and the buffering/combining operators) and keep their context, a completing source ends the output and nothing is emitted after the terminal.",
         "Trusted: time.Timer/Ticker/AfterFunc semantics; C01 (a closed subscriber drops a late timer callback) and C03 (teardown runs once).",
         "DESIGN.md sections 4 (C16) and 5"),
 "C04": ("static structural clauses only: ADAPTER (delegating variants are pure adapters), ALIAS (aliases forward every parameter once), PIPE (typed PipeN/PipeOpN apply operators in order), NO-POST-DELIVERY-MUTATION (an emitted slice/map is re-bound before being written again), DEAD-EMISSION (no notification after a certain terminal), TERMINAL-PROPAGATION (every path of a complete slot goes on), PARAM-USED (every observable/callback parameter is referenced), CONTEXTLESS-DELEGATES, STATE-LEVEL",
         "Narrow claim. What each operator computes on every input is NOT decidable statically and is not claimed. Decided are the clauses of the property that are visible in the code's shape: 67 delegating variants are observationally identical to their base form because their adapter literal calls the user function once with its own parameters and returns the right context; 24 aliases forward all parameters; 50 typed pipe functions apply operators in order (composition); no retained container is modified after delivery; no result is emitted after the terminal; a completing source always leads to a terminal or a further subscription; no input observable or user callback is ignored; the 29 context-less methods delegate; state is per subscription.",
         "Trusted: go/types. Base forms' values, boundaries and the reflective Pipe are out of reach.",
         "DESIGN.md section 4, C04"),
 "C17": ("static typestate/table checks: close-site discipline of operator-created channels (CLOSE-ONCE), sends only in recovering slots (SEND-RECOVERED), queue discipline of ToChannel/detachOn (BOUNDED-QUEUE), sink shape of ToSlice/ToMap (SINK-ON-COMPLETE), FromChannel's receive loop (FROM-CHANNEL), writer/reader kind tables of notifications (MATERIALIZE-TABLE), Collect (COLLECT-WAITS), STATE-LEVEL; CLOSE-ONCE also requires a close site, a close reachable from the teardown and a consumer for every channel that is sent into",
         "Static discipline check of the bridges: channels are closed exactly once (single teardown-only site or sync.Once), never sent to outside a recovering slot, terminal notifications are queued before the close; ToSlice/ToMap emit once at completion the container their next slot fills; FromChannel completes on close and stops on teardown; the notification constructors, the materializing writers and the dispatching readers agree kind by kind (so Materialize∘Dematerialize preserves kinds). Contents of containers and consumer behaviour are not decided.",
         "Trusted: channel semantics; C03 (teardown once); C07 (slots recover).",
         "DESIGN.md section 4, C17"),
 "C06": ("static CFG ordering and who-may-lock analysis of subscriber.go / subscription.go / observable.go: compare-and-swap dominates the finalizer run (UNSUB-FLIPS-FIRST), query methods never acquire the producer lock (call-graph over same-type methods), terminal-before-close, Wait's signalling channel discipline (WAIT-SIGNAL), no other Wait shortcut (WAIT-IMPLEMENTORS), no subject notifies under a lock its subscriber teardown takes (CALLBACK-REENTRANCY), no operator notifies its destination (or subscribes it) under a lock its own teardown takes (NO-EMIT-UNDER-TEARDOWN-LOCK, lock names followed through helper parameters), Collect's wait-before-return and returned variables (COLLECT-WAITS)",
         "Static check of the structural premises behind 'Unsubscribe cuts delivery' and 'Wait/Collect tell the truth': the status is closed before finalizers run (so, with the Next gate, a notification started afterwards is refused), query methods and Unsubscribe are callable from inside callbacks, terminals are delivered before the subscriber closes, Wait blocks only on a buffered channel signalled solely by a teardown it registers, Collect waits before every return and returns what its observer gathered, Unsubscribe is idempotent. Decided exhaustively for the three core files; the real-time claim is the argued consequence.",
         "Trusted: sync/atomic, sync.Mutex, channel semantics.",
         "DESIGN.md section 4, C06"),
 "C10": ("static structural clauses: lock-set guarded-by analysis of the five subjects (GUARDED-BY), status gates and registration under the gate (SUBJECT-GATE), terminal stored before broadcast / observers dropped / removal teardown (SUBJECT-TERMINAL), backlog replay before stored terminal (REPLAY-BEFORE-TERMINAL), single-observer guard (UNICAST-SINGLE), feature-by-feature sibling cross-check (SIBLING-TABLE), broadcasts under the mutex, SUBJECT-DELIVERS (each notification kind reaches the observers through the subject's helpers; termination empties the observer set; late subscribers get the stored terminal), CALLBACK-REENTRANCY",
         "Narrow claim. Linearizability over concurrent histories is NOT decided (no static argument in reach). Decided: the locking and ordering discipline on which the sequential definitions and the linearization argument rest, for all five subjects, plus agreement between the four broadcasting siblings. One test-pinned violation (unicast delivers the stored terminal before its backlog to a late subscriber) is a known finding.",
         "Trusted: sync.Mutex and sync.Map semantics.",
         "DESIGN.md section 4, C10"),
 "C11": ("static structural clauses: lock-set analysis of Share's per-application state with inferred 'requires lock' closures (SHARE-GUARDED), control dependence of the upstream subscribe site on the created-flag / no-live-connection guard (SINGLE-CONNECT), once-per-path reference-count pairing (REFCOUNT-PAIRING), reset decision before the terminal broadcast (RESET-BEFORE-TERMINAL), RESET-RELEASES (reset unsubscribes the connection, the teardown calls it at zero, flags cleared per connection, connectable reset teardown), guarded fields of the connectable observable (CONNECTABLE-GUARDED), configuration plumbing of ShareReplay",
         "Narrow claim. Event histories (subscribe/unsubscribe/notification/connect sequences) are NOT decided. Decided: the discipline that makes 'at most one live upstream subscription' true — connection state only touched under the mutex, upstream subscribed only where a new connection was installed / no live connection exists, reference count changed exactly once per (un)subscription under the lock with the zero test after the decrement.",
         "Trusted: sync.Mutex; subjects honour C10.",
         "DESIGN.md section 4, C11"),
 "C13": ("static lock-set discipline (Eraser) by data-flow of held locks over go/cfg: fields of the goroutine-safe types (CONSISTENT-PROTECTION/types), closure variables of safe operators reachable from possibly-concurrent emission contexts (CONSISTENT-PROTECTION/operators), state handed to helpers by pointer (CONSISTENT-PROTECTION/helpers: the lock belief the helper itself states), Share state, lock pairing incl. closures called with their own lock held",
         "Static discipline check: reports every location of the state the property names that is not consistently protected (atomic, concurrency-safe type, one common mutex, or ordered by S1-S4) — for 9 types (~220 field accesses) and the closure variables of all safe operators. It found the connectable-observable race (fixed; confirmed by the race detector). It does not prove absence of all races in the Go memory model and executes nothing.",
         "Trusted: sync, sync/atomic, channels, xsync/xatomic wrappers; values reached through pointers handed to helpers are checked inside the helper.",
         "DESIGN.md section 4, C13"),
 "C01": ("static analysis of the contract-enforcing types: CFG dominance of every delivery by the status gate, evaluated with the producer lock held (GATE), enumeration of all status writes (STATUS-MONOTONE), use-discipline of the destination parameter in every Observable implementation (WRAP), subject gates (SUBJECT-GATE), refusal branches (DROP-HOOK), lock region (LOCK-REGION)",
         "Static check of the structural premises from which the notification grammar follows for every pipeline and schedule: each delivery in subscriberImpl/observerImpl/subjects is dominated by the open-status test or a won compare-and-swap, the status only moves away from open, every Observable implementation wraps its destination, refused notifications reach the hook. These premises are decided exhaustively on every run; the short interleaving argument that turns them into the property is written in DESIGN.md and is not machine-checked. One test-asserted violation (observer stays open after a panicking Next) is a known finding.",
         "Trusted: sync/atomic and sync.Mutex; users' own Observer implementations are out of scope.",
         "DESIGN.md section 4, C01"),
 "C05": ("static structural clauses only: ERR-PROPAGATION (error slot of every upstream subscribe site reaches an Error notification to the destination, from the subscribe-closure model), NO-PREMATURE-RELEASE (siblings are unsubscribed inside a slot only on paths that terminate the output; resource graph + CFG path test), ARITY (K+1 sites / K+1-tuples / counter constants / flag-queue pairing of the CombineLatestWithK and ZipWithK families), RACE-LATE-LOSER, COMPOSITION (Merge*->MergeAll, Concat*/FlatMap*->ConcatAll), SEQUENTIAL-INNER-GUARD, OUTER-COMPLETE-WAITS-INNER (incl. counted-before-subscribe), TERMINAL-PROPAGATION, PARAM-USED",
         "Narrow claim. The property quantifies over arrival orders (run-time histories), which static analysis cannot decide; what is decided is one of its clauses that is visible in the code's shape — 'an error from any source ends the output': every subscribe site's error slot forwards to the destination unless the operator consumes errors by definition — that siblings are not released while the output goes on, that a sequential flattener does not subscribe the next inner after the end, that Race re-tests its winner after each subscribe, which flattening operator the composed operators delegate to — plus arity agreement of the fixed-arity families. Ordering, completion timing, loss/duplication in general are NOT decided. Found and fixed Zip's premature release, ZipAll's early completion and ConcatAll's subscribe-after-error.",
         "Trusted: C01 (first terminal closes the destination) and C03 (teardown releases the other sources). Two test-asserted violations (TakeUntil/SkipUntil swallow the notifier's error) are known findings.",
         "DESIGN.md section 4, C05"),
 "C08": ("static who-may-use analysis of asynchrony constructs (goroutines, timer callbacks, channel sends) against the emission contexts of the subscribe-closure model (SYNC-EMISSION); structural checks of the hand-off queues (BOUNDED-QUEUE) and of the blocking producer lock (LOCK-REGION)",
         "Static discipline check: in every operator with an upstream, each value emission provably runs in the subscribe body or inside an upstream callback (never under a goroutine/timer context, never parked in a channel) except in the documented hand-off/time-shift operators; the hand-off queues are one channel with the size parameter as capacity, all three notification kinds go through it, terminals are queued before close, dispatch is kind-exact. Decides 'nothing is handed to a hidden goroutine or queue' for all operators; the numeric run-ahead bound follows from channel semantics and is not measured.",
         "Trusted: Go channel semantics; user callbacks do not start goroutines; Delay's unbounded queue is out of the property's list.",
         "DESIGN.md section 4, C08"),
 "C14": ("static analysis of blocking sites (Wait, Collect, range over channel, select) located by the model's contexts before the subscribe closure returns, against teardowns registered on the destination (NO-UNCANCELLABLE-BLOCK); context-case check of context-aware sources (CTX-WATCH); must-release of the teardown chain (RELEASE incl. dropped-on-some-path, SELF-UNSUBSCRIBE, ADD-TEARDOWN), registered-before-wait, NO-EMIT-UNDER-TEARDOWN-LOCK",
         "Static argument that upstream release is the teardown chain, plus the complementary who-may-block rule: every unbounded wait that runs before an operator's subscribe function returns is reported unless something registered on the destination can end it. Seven such waits exist today by design (Concat/FlatMap, Retry, OnErrorResumeNextWith, DoWhile, While, RepeatWith, SubscribeOn) and are recorded as known findings with demonstrations; any new blocking site, a dropped context case or a broken teardown link is reported.",
         "Trusted: a Subscription closes only through its terminal, its Unsubscribe or a subscription it was added to; timer-bounded waits are accepted.",
         "DESIGN.md section 4, C14"),
 "C15": ("static structural clause: SEQUENTIAL-ATTEMPTS (awaited subscription per attempt, same iteration, after the subscribe site; or chained from the previous terminal slot) and RETRY-CTX, over the subscribe-closure model of the seven re-subscribing operators",
         "Narrow claim. Counting attempts against the configuration is value-level and NOT decided. Decided: the structural necessary condition of 'strictly one after another' — each attempt's subscription is awaited before the loop continues (or the next source is subscribed from the previous one's terminal slot), attempts forward their values, Retry tests the context before each attempt and during the delay.",
         "Trusted: Wait returns only when the subscription is closed (C06).",
         "DESIGN.md section 4, C15"),
 "C07": ("static effect/placement analysis: emission context of every user-function call (USER-FN-CONTEXT) and go statement (GO-RECOVER) from the subscribe-closure model; structural checks of the core recover points (CORE-RECOVER); error-result discipline (ERR-RESULT-USED); Unwrap table (UNWRAP); CFG lock pairing on all functions (LOCK-PAIRING); unlocks that a panicking callee can skip (PANIC-SAFE-UNLOCK); which error slot ends a failed delivery (ERROR-KIND); no TryLock in terminal methods (LOCK-REGION); the recover handler sends the Error before unsubscribing (CORE-RECOVER)",
         "Static discipline check: decides, for every operator, in which kind of place each user-supplied function runs and whether a panic there becomes an Error notification (subscribe body, next slot, guarded goroutine) or can only reach the hook / crash the process (error/complete slots, timer callbacks, bare goroutines); that the recover points of observableImpl/observerImpl exist and wrap the right calls; that returned errors are emitted and do not fall through; that no function exits holding a lock. Five genuine by-design violations are recorded as known findings. Does not inject faults.",
         "Trusted: lo.TryCatchWithErrorValue recovers; the notion of 'user-supplied' = function parameters of exported API functions (parameters of unexported helpers that only receive library literals are excluded, decided from the call sites).",
         "DESIGN.md section 4, C07"),
 "C03": ("static ownership analysis: per subscribe closure a resource graph (subscribe-site results, composite subscriptions, timers, goroutines and their stop channels) checked for must-release by the teardown chain (RELEASE); path-sensitive (a release under a condition inside the teardown is not a must-release); TEARDOWN-ALL-RUN (no release placed after an Unsubscribe that can panic in the same teardown, unless deferred); CFG/lock-set checks of the subscriber's self-unsubscribe, of the teardown registration and of subscriptionImpl's finalizer loop",
         "Static must-release check over all ~176 acquisitions of package ro: each upstream subscription, timer and looping goroutine reaches a node that the operator's teardown unsubscribes/stops/closes (or is awaited), so an operator returning nil instead of its upstream Unsubscribe, a ticker that is not stopped or a goroutine without a stop channel is reported for whichever operator it lands in. Plus structural checks of the three core mechanisms (self-unsubscribe after terminals outside the producer lock; teardown added to the subscriber; finalizers run once, recovered, outside the mutex, re-panic after the loop). Does not explore races.",
         "Trusted: sync.Mutex semantics; upstream observables release their own resources (induction); two one-symbol exemptions (Share's connection-owned upstream subscription, Delay's pending timers) listed in rules/c03.go.",
         "DESIGN.md section 4, C03"),
 "C02": ("static analysis: emission-context concurrency relation over the model of every subscribe closure (MULTI-PRODUCER=>SAFE), decision-table evaluation of subscriber reuse (NO-DOWNGRADE), constructor/mode tables incl. the literal plumbing of mode, lock and backpressure inside newSubscriberImpl (MODE-TABLE), CFG lock-set data-flow on subscriberImpl and the subjects (LOCK-REGION, SUBJECT-BROADCAST-LOCKED)",
         "Static discipline check of the premises of the serialisation argument: deliveries only inside the producer lock region; the lock is real exactly in safe modes; every operator whose destination can be reached from two possibly-concurrent contexts (derived from the code, not from a name list: 23 operators today) uses a safe constructor; a subscriber is never replaced by a weaker one; subjects broadcast under their mutex. It decides these for every operator on every run; it does not explore schedules.",
         "Trusted: sync.Mutex/atomic semantics; the hypothesis that each individual source is sequential; the ordering facts S1-S4 of DESIGN.md section 2; the model walker (unknown constructs fail closed).",
         "DESIGN.md section 4, C02"),
 "C09": ("static def-use classification of every context operand (CTX-PROVENANCE: origins of the ctx argument of every upstream subscription and notification, through tuples, containers, atomic.Value, struct fields, closure/helper parameters) plus a who-may-call rule for context.Background()/TODO() (NO-FRESH-CONTEXT) and CTX-PAIRING (a queued notification is emitted with the context stored with it: value and context come from the same container element / same receive), the slot-context clause (a notification sent from a source callback never carries the bare subscription-time context; unique reaching definition) and DEAD-CONTEXT-STORE",
         "Static provenance check: for each of ~800 context sinks in package ro (subscribe sites and notifications of every operator, subjects, subscriber, connectable) the operand is traced to its origins; only the subscriber context, the slot context, user-callback results and context.With* of those are accepted, zero values must be guarded by a dominating assignment or a companion flag, unknown forms fail closed. Decides that no operator drops, replaces or nils the context on any path; does not decide which of several allowed contexts is the intended one.",
         "Trusted: go/types; the induction hypothesis that the upstream source honours the property; four hand-argued zero-value exemptions listed in rules/c09.go. Plugins are reported as INFO here and armed under C18.",
         "DESIGN.md section 4, C09"),
 "C12": ("static AST/type analysis: declaration-level vs write-level of every captured variable (STATE-LEVEL), who-may-call rule for Subscribe/Collect outside subscribe closures (LAZY-SOURCE), stateful objects (mutex, Once, atomic, channel, map, subject) created at an outer level but used per subscription, subscribe-site multiplicity, append aliasing at application time, PARAM-USED",
         "Static discipline check over every operator of package ro (and, as INFO, the plugins): proves that no closure level that runs more often writes state declared at an outer level, that no source is touched at construction/application time and that each parameter source has one subscribe site per subscription. It decides the structural premise of re-subscribability for every operator on every run; it does not compare notification sequences.",
         "Trusted: go/types resolution, the level model (constructor / application literal / subscribe closure) extracted from the observable constructors, the one-symbol hot-construct exemption (ShareWithConfig). Not decided: state behind pointers in user arguments.",
         "DESIGN.md section 4, C12"),
}

NOT_APPLICABLE = {
}

PENDING = "check not built yet in this session; planned as described in DESIGN.md section 4 (static rules named there)"

def main():
    checks = []
    # the authoritative rule list comes from the checker's registry, so the technique field cannot go stale
    try:
        rule_names = json.loads(subprocess.run([os.path.join(ROOT, "bin", "rocheck"), "-list-rules"], capture_output=True, text=True, check=True).stdout)
    except Exception as e:
        sys.exit(f"cannot list rules (build the checker first: ./run.sh C01 quick): {e}")
    for pid in sorted(CHECKS):
        tech, text, note, ref = CHECKS[pid]
        tech = tech.rstrip(". ") + ". Deciding rules run by this check, all over type-checked syntax, go/cfg and the subscribe-closure model (no execution): " + ", ".join(rule_names[pid]) + "."
        checks.append({
            "property_id": pid,
            "quick_cmd": f"./run.sh {pid} quick",
            "thorough_cmd": f"./run.sh {pid} thorough",
            "evidence_file": f"evidence/{pid}.json",
            "replay_cmd_template": "./bin/rocheck -explain {path}",
            "engine": "rocheck",
            "level_claimed": {"category": "other", "text": text, "design_ref": ref},
            "level_note": note,
            "technique": tech,
        })
    na = []
    for i in range(1, 21):
        pid = f"C{i:02d}"
        if pid in CHECKS:
            continue
        na.append({"property_id": pid, "reason": NOT_APPLICABLE.get(pid, PENDING)})
    manifest = {
        "version": 1,
        "setup_cmd": "cd /verif/rocheck && GOFLAGS=-mod=mod GOPROXY=off GOSUMDB=off GOTOOLCHAIN=local GOWORK=off go build -o /verif/bin/rocheck ./cmd/rocheck",
        "hooks": {
            "guard": "verif",
            "enable": "no hooks: the checks are static analyses that read /repo's source; nothing in /repo is instrumented",
            "baseline_off_cmd": "/verif/scripts/baseline.sh",
            "source_commits": [],
            "add_only": True,
        },
        "engines": [{
            "name": "rocheck",
            "path": "rocheck/",
            "serves_properties": sorted(CHECKS),
            "kind_free_text": "repository-specific static analyser (go/packages + go/types + go/ast + go/cfg, x/tools v0.29.0): builds a structural model of every operator's subscribe closure (levels, subscribe sites, emit sites, emission contexts, teardowns) and checks rule instances keyed by rule+construct",
        }],
        "checks": checks,
        "not_applicable": na,
        "notes": "All claims are at level 'other' (static discipline checks). Quick tier: the rules on the current tree plus injected positive controls. Thorough tier: the same plus a model-generated single-site mutation sweep (every generated, compilable breaking edit of the property's constructs must be reported on its own construct; mutants are analysed as overlays, never executed). Known genuine defects are listed in KNOWN_FINDINGS.txt; fixed ones are 'fix:' commits in /repo. Independently seeded breaking changes and which rule reports each are under seeded/ (scripts/retry_all_seeds.sh); behaviour-preserving refactorings on which every check must stay silent are under benign/ (scripts/retry_all_benign.sh). The exploratory operators of the thorough tier (swap / delete / negate / weaken) assert recorded floors of reported mutants.",
    }
    with open(os.path.join(ROOT, "MANIFEST.json"), "w") as f:
        json.dump(manifest, f, indent=1)
        f.write("\n")
    try:
        import jsonschema
        jsonschema.validate(manifest, json.load(open("/root/.vp/MANIFEST.schema.json")))
        print("MANIFEST.json valid;", len(checks), "checks,", len(na), "not applicable/pending")
    except ImportError:
        print("jsonschema not available; written without validation")

if __name__ == "__main__":
    main()

#!/usr/bin/env python3
"""Regenerates /verif/seeded/README.md from the meta.json files."""
import json, glob, os, re
rows = []
for f in sorted(glob.glob("/verif/seeded/*/meta.json")):
    m = json.load(open(f))
    reports = m.get("checks", {}).get(m["breaks_property"], {}).get("reports", [])
    keys = []
    for r in reports:
        mm = re.match(r"(violation|undecided|broken)[: ]+\[([A-Z0-9=>/\-a-z]+)\] (\S+)", r)
        if mm:
            keys.append(f"{mm.group(3)}")
    first = ""
    if os.path.exists(os.path.join(os.path.dirname(f), "notes.md")):
        for l in open(os.path.join(os.path.dirname(f), "notes.md")):
            if l.startswith("#"):
                first = l.lstrip("# ").strip()
                break
    rows.append((m["id"], m["breaks_property"], first, "yes" if m.get("caught") else "**no**", "<br>".join(f"`{k}`" for k in keys[:3]) or "-", m.get("strengthened", "")))
out = ["# Seeded breaking changes", "",
 "Each directory holds one change to samber/ro written by an independent sub-agent that saw only the property record",
 "and a scratch worktree: `patch.diff` (compiles, pinned suite passes), `demo_test.go` (passes on the clean tree, fails with",
 "the patch), `notes.md` (the author's explanation) and `meta.json` (what it needs to manifest, how it was confirmed, which",
 "obligations of the property's quick check report it). Try one with `scripts/try_seed.sh seeded/<id>/patch.diff <property>`",
 "(applies to /repo, runs the check, undoes it) or `scripts/try_seed_wt.sh` (same, in a scratch worktree).", "",
 "| id | property | change | reported | by (first obligations) | note |", "|---|---|---|---|---|---|"]
for r in rows:
    out.append("| " + " | ".join(r) + " |")
n = sum(1 for r in rows if r[3] == "yes")
out += ["", f"{n} of {len(rows)} reported by the check of the property they break."]
open("/verif/seeded/README.md", "w").write("\n".join(out) + "\n")
print(f"{n}/{len(rows)}")

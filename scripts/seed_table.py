#!/usr/bin/env python3
"""Regenerates /verif/seeded/README.md from the meta.json files."""
import json, glob, os, re

# What happened when the change was first tried (kept by hand; the table itself is regenerated from meta.json).
NOTES = {
 "C09-1": "first missed; CTX-PAIRING added", "C09-3": "first missed; CTX-PAIRING added",
 "C07-1": "first missed; PANIC-SAFE-UNLOCK added", "C07-2": "first missed; ERROR-KIND added", "C07-3": "first missed; no TryLock in terminal methods (LOCK-REGION)",
 "C02-3": "first missed; MODE-TABLE checks the literal plumbing inside newSubscriberImpl",
 "C12-3": "first missed; STATE-LEVEL covers stateful objects",
 "C03-1": "first missed; STATE-LEVEL (objects) added to C03", "C03-3": "first missed; TEARDOWN-ALL-RUN / path-sensitive RELEASE",
 "C14-1": "first missed; RELEASE made path-sensitive inside teardowns", "C14-2": "first missed; TEARDOWN-ALL-RUN", "C14-3": "first missed; RELEASE made path-sensitive inside teardowns",
 "C11-2": "first missed; RESET-BEFORE-TERMINAL added", "C01-1": "first missed; GATE must be evaluated under the producer lock",
 "C01-3": "first missed by C01 (reported by C02/C10); SUBJECT-BROADCAST-LOCKED added to C01",
 "C05-1": "first missed; ARITY completion-pairing added", "C05-2": "first missed; RACE-LATE-LOSER added (patch re-based after the Race repair in /repo)", "C05-3": "first missed; COMPOSITION added",
 "C06-1": "first missed; WAIT-IMPLEMENTORS added", "C06-3": "first missed; CALLBACK-REENTRANCY added",
 "C08-3": "NOT reported: Contains is rewritten to answer at completion instead of at the first match - still synchronous, no goroutine or queue; what a value 'gives rise to' is the operator's definition (value level), outside the claimed clause of C08",
 "C17-3": "first missed by C17 (reported by C12); STATE-LEVEL added to C17", "C18-3": "first missed; FLUSH-BEFORE-TERMINAL added",
 "C19-1": "first missed; FORWARDER requires every reaching definition to derive from the received context, and C09 got the slot-context rule",
 "C15-1": "NOT reported: the retry counter is reset after the failure was counted instead of before - counting attempts against the configuration is value level and explicitly not decided (C15 decides the sequencing of attempts only)",
 "C15-3": "first missed; SEQUENTIAL-INNER-GUARD now also requires that the inner error path closes the subscription the guard tests",
 "C04-1": "first NOT reported (classified value level); a second agent produced the same slip independently (C05-6) and CONSUME-FLAG now reports both",
 "C04-2": "first missed by C04 (reported by C12); STATE-LEVEL added to C04",
 "C04-3": "NOT reported: Max seeds its maximum with the zero value (wrong result for all-negative input) - value level",
 "C05-4": "round 2; first missed; PUBLISH-BEFORE-EMIT added", "C05-5": "round 2; first missed by C05 (reported by C12); STATE-LEVEL added to C05", "C05-6": "round 2; first missed; CONSUME-FLAG added",
 "C03-4": "round 2; first missed by C03 (reported by C10); SUBJECT-DELIVERS added to C03", "C03-5": "round 2; first missed by C03 (reported by C14); AWAITED-REGISTERED split out and added to C03", "C03-6": "round 2",
 "C01-4": "round 2; first missed by C01 (reported by C02); MULTI-PRODUCER=>SAFE added to C01", "C01-5": "round 2", "C01-6": "round 2",
 "C07-4": "round 2; first missed; CORE-RECOVER now requires the teardown registration inside the try", "C07-5": "round 2; first missed; SLOT-GUARD-AGREEMENT added", "C07-6": "round 2",
 "C09-4": "round 2; first missed; CONTEXT-REWRITER-UNIFORM added", "C09-5": "round 2", "C09-6": "round 2; first missed; loop pass-context clause of CALLBACK-CTX-USED added",
 "C12-4": "round 2", "C12-5": "round 2; first missed; BUILD-TIME-STATE (clock reading at build time) added", "C12-6": "round 2; first missed; BUILD-TIME-STATE (stateful closure factory) added",
 "C02-4": "round 2; first missed by C02 (reported by C01); WRAP added to C02", "C02-5": "round 2; first missed; the lock-set inference of helper methods now uses the locks held when a deferred call runs", "C02-6": "round 2",
 "C14-4": "round 2; first missed; RELEASE reports a nil teardown on an early return after a live acquisition", "C14-5": "round 2; first missed; an upstream may not be subscribed with an API-supplied context (CTX-PROVENANCE, now also in C14)", "C14-6": "round 2",
 "C10-4": "round 2", "C10-5": "round 2", "C10-6": "round 2; first missed; unicast backlog-consumed clause of SUBJECT-DELIVERS added",
 "C11-4": "round 2", "C11-5": "round 2; first missed; the connectable's reset teardown must be registered on every path after the source was subscribed", "C11-6": "round 2",
 "C06-4": "round 2; first missed; SUBJECT-DELIVERS requires that the registered observer is the subscriber built by NewSubscriber (added to C06)", "C06-5": "round 2", "C06-6": "round 2",
 "C13-4": "round 2", "C13-5": "round 2", "C13-6": "round 2; first missed by C13 (reported by C02); NO-DOWNGRADE added to C13",
 "C15-4": "round 2; first missed by C15 (reported by C12); STATE-LEVEL added to C15", "C15-5": "round 2", "C15-6": "round 2; first missed; ADD-AFTER-CLOSE added",
 "C04-4": "round 2; first missed; NO-POST-DELIVERY-MUTATION now covers containers declared at the top of a helper", "C04-5": "round 2; first missed; TERMINAL-CALL-AGREEMENT added", "C04-6": "round 2; first missed; TIMER-DEQUEUE-COUPLED added",
 "C17-4": "round 2; first missed; GO-LATE-REGISTRATION added", "C17-5": "round 2; first missed by C17 (reported by C14/C16); CTX-DONE-TERMINATES added to C17",
 "C17-6": "round 2; NOT reported: the 1 ms sleep that orders the hand-out of the channel before the completion of an empty source is removed - the unchanged code relies on that sleep, i.e. on timing, which no static rule decides",
 "C08-4": "round 2; first missed by C08 (reported by C02); NO-DOWNGRADE added to C08", "C08-5": "round 2; first missed; INCORPORATE-BEFORE-DECIDE added", "C08-6": "round 2; first missed; BOUNDED-QUEUE now requires a single receive site of the hand-off queue",
 "C18-4": "round 2; NOT reported: StartOfDay computed by subtracting the wall-clock time since midnight (wrong across a DST transition) - value level", "C18-5": "round 2", "C18-6": "round 2; first missed; HOMONYM-WRAPPER added",
 "C19-4": "round 2; first missed; CTX-VALUE-AGREEMENT added", "C19-5": "round 2; first missed; NO-GLOBAL-STATE added", "C19-6": "round 2; first missed; COUNT-ONCE forbids branching on the destination's state",
 "C16-4": "round 2; first missed; TIMER-DEQUEUE-COUPLED one-per-timer clause added", "C16-5": "round 2; first missed by C16; CONSUME-FLAG added to C16", "C16-6": "round 2; first missed; STATE-LEVEL treats running timers as stateful objects",
 "C09-7": "round 3; first missed; TERMINAL-CTX-CAPTURED added", "C09-8": "round 3; first missed; SLOT-CTX-STABLE added", "C09-9": "round 3; first missed; CTX-TUPLE-WHOLE added",
 "C03-7": "round 3", "C03-8": "round 3; first missed; DOWNSTREAM-LINK added", "C03-9": "round 3; first missed; I/O plugins armed for the core properties (which found and repaired HTTPRequest's re-subscription defect) and CANCEL-OBSERVED added; patch re-based on that repair",
 "C11-7": "round 3; first missed; RESET-RELEASES/reset-decided-by-config added", "C11-8": "round 3; first missed; REFCOUNT-PAIRING/decrement-on-every-return added", "C11-9": "round 3; first missed; SUBJECT-DELIVERS/replay-register-atomic added, SUBJECT-DELIVERS joined C11",
 "C11-10": "round 3 (extra change of the C11 agent: identity guards of Share's reset removed; its demonstration needs a hand-written Observable)",
 "C06-7": "round 3", "C06-8": "round 3", "C06-9": "round 3; NOT reported: plugins/websocket/client is not loaded (its gorilla/websocket requirement only resolves in the full workspace with the example modules, which need modules that are not cached) and websocketSubject is a hand-written Observable outside the subscribe-closure model",
 "C07-7": "round 3; first missed by C07; NO-EMIT-UNDER-TEARDOWN-LOCK joined C07 (the property names locks left held)", "C07-8": "round 3; first missed by C07; SHARE-REPLAY-CONFIG joined C07", "C07-9": "round 3; first missed; TERMINAL-RELEASE-AGREEMENT added",
 "C10-7": "round 3", "C10-8": "round 3; NOT reported: replay buffer guard `!= Unlimited` rewritten as `> 0` (size 0 becomes unlimited) - a boundary value of a configuration parameter, not decided", "C10-9": "round 3",
 "C01-7": "round 3", "C01-8": "round 3", "C01-9": "round 3; first missed by C01 (reported by C13); CONSISTENT-PROTECTION/types joined C01",
 "C02-7": "round 3", "C02-8": "round 3", "C02-9": "round 3",
 "C04-7": "round 3; NOT reported: RangeWithStep rewritten with a pre-computed count floor(span/step) (last value dropped when the span is not a multiple of the step) - arithmetic on values", "C04-8": "round 3; first missed by C04 (reported by C18); STABLE-MEANS-STABLE joined C04 with plugin scope", "C04-9": "round 3; NOT reported: ElementAt(0) delegates to Head (different sentinel error on an empty source) - which error value, not decided",
 "C05-7": "round 3; first missed by C05 (reported by C10); SUBJECT-DELIVERS and SUBJECT-BROADCAST-LOCKED joined C05", "C05-8": "round 3; first missed; INNER-FILLED-BEFORE-HANDOVER added", "C05-9": "round 3",
 "C08-7": "round 3", "C08-8": "round 3; first missed; NO-TRYLOCK-SKIP added", "C08-9": "round 3",
 "C12-7": "round 3; first missed; the Share exemption of STATE-LEVEL now covers per-application state only", "C12-8": "round 3; first missed; HEAD-TAIL-DISJOINT added", "C12-9": "round 3 (I/O plugins armed earlier in the round)",
 "C13-7": "round 3", "C13-8": "round 3", "C13-9": "round 3; first missed by C13 (reported by C19); STATE-LEVEL joined C13 with the Prometheus plugin in scope",
 "C14-7": "round 3", "C14-8": "round 3; first missed; STATE-LEVEL (with the narrowed Share exemption) joined C14", "C14-9": "round 3; first missed by C14 (reported by C05); SEQUENTIAL-INNER-GUARD joined C14",
 "C17-7": "round 3; first missed by C17 (reported by C09); the context rules joined C17", "C17-8": "round 3", "C17-9": "round 3; first missed by C17 (reported by C03); TEARDOWN-ALL-RUN joined C17",
 "C19-7": "round 3", "C19-8": "round 3", "C19-9": "round 3; first missed; BRACKET-PLACEMENT added",
 "C15-7": "round 3; first missed; FINALIZER-DISCIPLINE checks the iteration order (and joined C15)", "C15-8": "round 3", "C15-9": "round 3; first missed; READ-AFTER-WAIT added",
 "C16-7": "round 3; first missed by C16 (reported by C09/C14); CTX-PROVENANCE joined C16", "C16-8": "round 3", "C16-9": "round 3; first missed; TIME-SHIFT-VIA-TIMER added",
 "C18-7": "round 3; first missed; HOMONYM-CALLED added", "C18-8": "round 3; NOT reported: NewIOReaderLine rewritten with bufio.Scanner (64 KiB token limit instead of ReadLine's fragments) - a limit inside the standard library, not decided", "C18-9": "round 3",
 "C20-7": "round 3; first missed; NO-DUPLICATE-FORWARD added", "C20-8": "round 3; NOT reported: Take(1) delegates to Head (an empty window errors instead of completing) - which terminal an empty input yields, value-level", "C20-9": "round 3; first missed; GET-OR-CREATE added",
 "C20-4": "round 2", "C20-5": "round 2", "C20-6": "round 2; NOT reported: core Interval re-armed on absolute deadlines, so ticks missed by a slow observer are emitted back to back (a burst of windows for the native limiter) - timing / quota, not decided",
 "C16-1": "first missed; WATCHDOG-REARM added", "C16-2": "first missed; STATE-LEVEL added to C16 (the counter of a periodic source is per-subscription state)",
 "C20-2": "first missed by C20 (reported by C12): a change to core GroupBy; C20 now re-checks the core premises of the native limiter", "C20-3": "first missed by C20 (reported by C10/C02): a change to the core unicast subject; C20 now re-checks the core premises of the native limiter",
 # round 4: changes that read as features or optimisations ("perf:", "feat:") rather than slips
 "C04-12": "round 4; NOT reported: Sum computed through a float64 fold shared with Average (precision lost above 2^53) - value level",
 "C05-12": "round 4; first missed; COMPLETION-COUNTED added",
 "C06-13": "round 4; first missed; TEARDOWN-DOES-NOT-NOTIFY added - which also found the same dead-lock in GroupBy on the clean tree (known finding, demos/c06_groupby_reentrant_unsubscribe_test.go)",
 "C07-12": "round 4; first missed; UNWRAP now checks that the wrapper constructors keep the cause on every path",
 "C10-12": "round 4; NOT reported: a cached observer count beside the sync.Map drifts negative (unsubscribeAll stores 0, the teardowns then decrement) - agreement of a shadow counter with a collection, value level",
 "C12-11": "round 4; first missed; MUTABLE-SEED added",
 "C14-12": "round 4; first missed; POSITION-STABLE added (recorded slice positions vs compaction)",
 "C15-11": "round 4; first missed; ATTEMPT-DECISION-ERROR-BLIND added",
 "C16-11": "round 4; NOT reported: Interval emits every value that is 'due' with half a period of tolerance (value k up to interval/2 early) - timing arithmetic, value level",
 "C16-12": "round 4; first missed by C16 (reported by C04); NO-POST-DELIVERY-MUTATION joined C16",
 "C16-13": "round 4; first missed; TIMER-RESET-DRAINED added (the documented Reset contract of pre-1.23 channel timers)",
 "C17-13": "round 4; first missed; FROM-CHANNEL now requires every receive from the caller's channel to be the two-value communication of a select",
 "C18-12": "round 4; first missed; LIFT-RESULT added (every return of the item callback derives from the wrapped function)",
 "C18-13": "round 4; first missed; CAPABILITY-WIDENING added",
 "C19-11": "round 4; first missed; COUNT-ONCE now requires one unconditional update per counter handed to an aggregate",
 # round 5: sibling-pattern changes (port to an operator what a sibling does / remove a load-bearing asymmetry)
 "C03-16": "round 5 (re-based after the repairs)", "C08-15": "round 5 (re-based); NOT reported: GroupBy announces a new group before pushing its first value (dropped when the consumer finishes on the announce) - which notification a value gives rise to, value level",
 "C10-14": "round 5 (re-based); first missed; NO-TRYLOCK-SKIP extended to the subjects and the teardowns they register", "C10-15": "round 5 (re-based)",
 "C05-14": "round 5; NOT reported: TakeUntil's notifier only raises a flag, the completion waits for the next source value (aligned with SkipUntil) - when the completion comes, definition level", "C08-14": "round 5; NOT reported: same TakeUntil change, seeded under C08",
 "C05-15": "round 5; first missed; INNER-TERMINATED added", "C07-16": "round 5; first missed; INNER-TERMINATED added",
 "C05-16": "round 5; NOT reported: SampleWhen flushes the pending value when the ticker completes - which values a sampler emits, definition level",
 "C06-14": "round 5; first missed by C06 (reported by C15); LOOP-STOPS-AFTER-ERROR joined C06", "C06-16": "round 5; first missed by C06 (reported by C05/C14/C15); SEQUENTIAL-INNER-GUARD joined C06",
 "C07-14": "round 5; first missed by C07 (reported by C01/C02/C13); MULTI-PRODUCER=>SAFE joined C07", "C07-15": "round 5; first missed by C07 (reported by C01/C02/C10); SUBJECT-BROADCAST-LOCKED joined C07",
 "C08-16": "round 5; NOT reported: WindowWhen's windows become bounded unicast subjects (size 0): values that arrive before the consumer subscribes are dropped instead of parked - a buffer size, value level",
 "C11-15": "round 5; NOT reported: the connectable's disconnect hook completes the previous subject (observers receive a Complete the source never sent) - which terminal a disconnect yields, definition level",
 "C13-14": "round 5; first missed by C13 (reported by C10); overwrites of sync objects held in fields count as writes in CONSISTENT-PROTECTION/types",
 "C14-14": "round 5; first missed by C14 (reported by C03/C16/C17); TEARDOWN-ALL-RUN joined C14",
 "C14-16": "round 5; NOT reported: StartWith rewritten as ConcatWith(source)(Of(prefixes...)): inherits ConcatAll's wait inside the outer callback (the known C14 finding) through composition - the new body is one call, nothing structural to see in StartWith itself",
 "C17-14": "round 5; first missed by C17 (reported by C13); CLOSE-ONCE/send-from-teardown added", "C17-15": "round 5; first missed by C17 (reported by C13); CLOSE-ONCE/rebound added",
 "C17-16": "round 5; NOT reported: FromChannel(nil) returns Empty (a nil channel never closes, the observable should stay open) - a degenerate input, value level",
 # round 6: sibling-pattern changes for the ten properties round 5 did not cover
 "C01-14": "round 6", "C01-15": "round 6", "C01-16": "round 6",
 "C02-14": "round 6; NOT reported: newSubscriberImpl reuses a foreign type that implements Subscriber instead of wrapping it - for *subscriberImpl the new condition is equivalent, the difference exists only for types outside the repository",
 "C04-14": "round 6; NOT reported: Contains answers at completion (aligned with All) - when the answer comes, definition level (the same change as C08-3)",
 "C04-15": "round 6; NOT reported: SkipLast accepts count 0 and then indexes an empty ring buffer - a boundary value, value level",
 "C04-16": "round 6; first missed by C04 (reported by C07/C11); SHARE-REPLAY-CONFIG joined C04",
 "C09-14": "round 6", "C09-15": "round 6; first missed; TERMINAL-CTX-FRESH added (it had reported Retry and Last on the unchanged tree, both repaired)",
 "C09-16": "round 6; NOT reported: AsyncSubject broadcasts its stored value with the completion's context instead of the stored one - both are legitimate origins for the provenance rule; which of two stored contexts, value level",
 "C12-14": "round 6", "C12-15": "round 6", "C12-16": "round 6",
 "C15-14": "round 6; NOT reported by C15: RepeatWith stops on the round's own error instead of on destination.IsClosed() (a downstream unsubscription no longer stops it) - C14's clause, and RepeatWith's wait is a known C14 finding already",
 "C15-15": "round 6; NOT reported by C15: Catch refuses to subscribe its fallback once the subscription context is done - which outcome names the fallback, definition level",
 "C15-16": "round 6; NOT reported: Retry() delegates to Catch recursively (attempts nest instead of following each other) - the body is one call to Catch, nothing structural to see in Retry itself",
 "C16-14": "round 6; NOT reported: SampleWhen flushes the pending value when the ticker completes (the same change as C05-16)",
 "C16-15": "round 6", "C16-16": "round 6",

 "C18-15": "round 6", "C18-16": "round 6; NOT reported: NewIOWriter forwards a source error without first emitting the byte count - what a sink reports on failure, definition level",
 "C19-14": "round 6", "C19-15": "round 6",
 "C20-14": "round 6; NOT reported: core Interval turns a cancelled context into an Error (ported from Timer/Never): one key's cancelled item context fails the whole native limiter - which terminal a cancellation yields, definition level",
}

rows = []
for f in sorted(glob.glob("/verif/seeded/*/meta.json")):
    m = json.load(open(f))
    reports = m.get("checks", {}).get(m["breaks_property"], {}).get("reports", [])
    keys = []
    for r in reports:
        mm = re.match(r"(violation|undecided|broken)[: ]+\[([A-Z0-9=>/\-a-z]+)\] (\S+)", r)
        if mm:
            keys.append(f"{mm.group(3)}")
    first = ""
    if os.path.exists(os.path.join(os.path.dirname(f), "notes.md")):
        for l in open(os.path.join(os.path.dirname(f), "notes.md")):
            if l.startswith("#"):
                first = l.lstrip("# ").strip()
                break
    rows.append((m["id"], m["breaks_property"], first, "yes" if m.get("caught") else "**no**", "<br>".join(f"`{k}`" for k in keys[:3]) or "-", NOTES.get(m["id"], "")))
out = ["# Seeded breaking changes", "",
 "Each directory holds one change to samber/ro written by an independent sub-agent that saw only the property record",
 "and a scratch worktree: `patch.diff` (compiles, pinned suite passes), `demo_test.go` (passes on the clean tree, fails with",
 "the patch), `notes.md` (the author's explanation) and `meta.json` (what it needs to manifest, how it was confirmed, which",
 "obligations of the property's quick check report it). Try one with `scripts/try_seed.sh seeded/<id>/patch.diff <property>`",
 "(applies to /repo, runs the check, undoes it) or `scripts/try_seed_wt.sh` (same, in a scratch worktree).", "",
 "| id | property | change | reported | by (first obligations) | note |", "|---|---|---|---|---|---|"]
for r in rows:
    out.append("| " + " | ".join(r) + " |")
n = sum(1 for r in rows if r[3] == "yes")
out += ["", f"{n} of {len(rows)} reported by the check of the property they break."]
open("/verif/seeded/README.md", "w").write("\n".join(out) + "\n")
print(f"{n}/{len(rows)}")

#!/bin/bash
# Usage: try_seed.sh <patch.diff> <property id> [more ids]
# Applies the patch to /repo, runs the quick checks, prints their verdict lines, and undoes the patch.
set -u
PATCH=$(readlink -f "$1"); shift
git -C /repo diff --quiet || { echo "/repo is dirty"; exit 2; }
git -C /repo apply "$PATCH" || { echo "patch does not apply"; exit 2; }
trap 'git -C /repo checkout -- . ' EXIT
for id in "$@"; do
  OUT=$(/verif/run.sh "$id" quick 2>&1); RC=$?
  echo "--- $id exit=$RC"
  echo "$OUT" | grep -E "^  (violation|undecided|broken)|VIOLATION" | cut -c1-330 | head -8
done

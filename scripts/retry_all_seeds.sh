#!/bin/bash
# Re-tries every stored seeded change against the current checker and the current /repo HEAD (scratch worktrees,
# /repo untouched). Prints one line per seed: reported / MISSED / does-not-apply.
cd /verif
ls seeded | grep -E '^C[0-9]+-[0-9]+$' | xargs -P 4 -I{} sh -c '
  id={}; prop=${id%%-*}
  out=$(./scripts/try_seed_wt.sh seeded/$id/patch.diff $prop 2>&1)
  if echo "$out" | grep -q "does not apply"; then echo "$id does-not-apply";
  elif echo "$out" | grep -q "exit=1"; then echo "$id reported";
  else echo "$id MISSED"; fi' | sort

#!/bin/bash
# Runs samber/ro's pinned test suite (the command of /root/.vp/BASELINE.json) on a scratch
# copy of /repo's working tree and compares the result with the stable baseline list.
# Usage: scripts/baseline.sh [module ...]   (default: all modules of /w/out/gomods.txt)
set -u
SCRATCH=$(mktemp -d /tmp/ro-baseline-XXXXXX)
trap 'rm -rf "$SCRATCH"' EXIT
rsync -a --exclude .git /repo/ "$SCRATCH/repo/"
. /w/out/goenv.sh
MODS="$*"
[ -z "$MODS" ] && MODS=$(cat /w/out/gomods.txt)
OUT="$SCRATCH/out.json"
: > "$OUT"
for m in $MODS; do
  ( cd "$SCRATCH/repo/$m" && MF=$(gomodflag) && go test $MF -json -vet=off -count=1 -timeout 25m ./... >> "$OUT" 2>/dev/null )
done
python3 - "$OUT" "$MODS" <<'PY'
import json,sys
out=sys.argv[1]
base=set(json.load(open('/root/.vp/BASELINE.json'))['stable_pass'])
res={}
for l in open(out):
    try: e=json.loads(l)
    except Exception: continue
    if e.get('Test') and e.get('Action') in('pass','fail','skip'):
        res[e['Package']+'::'+e['Test']]=e['Action']
passed={k for k,v in res.items() if v=='pass'}
mods=sys.argv[2].split()
if mods and mods!=['']:
    import os
    # restrict the comparison to packages that were run
    pk={k.split('::')[0] for k in res}
    base={b for b in base if b.split('::')[0] in pk}
missing=sorted(base-passed)
print(f"baseline tests expected={len(base)} passed_now={len(base&passed)} missing={len(missing)} (total passed {len(passed)}, failed {sum(1 for v in res.values() if v=='fail')})")
for m in missing[:40]: print("  MISSING/FAILED:",m,res.get(m))
sys.exit(1 if missing else 0)
PY

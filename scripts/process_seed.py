#!/usr/bin/env python3
"""process_seed.py <seed-id> <property> <src dir> <pkg dir> [go test flags for the demo]

One seeded change, end to end:
  1. scripts/verify_seed.sh in a fresh worktree (demo passes clean, fails patched, pinned suite still passes);
  2. scripts/try_seed.sh against /repo (apply, run the property's quick check, undo) and collect the obligations
     that report it;
  3. store under /verif/seeded/<seed-id>/ (patch.diff, demo_test.go, notes.md, meta.json).
Nothing is stored when step 1 does not confirm the change.  Step 2 touches /repo: run one at a time.
"""
import json, os, re, shutil, subprocess, sys

sid, prop, src, pkg = sys.argv[1:5]
flags = sys.argv[5:]
extra_props = []
if "--also" in flags:
    i = flags.index("--also")
    extra_props = flags[i + 1].split(",")
    flags = flags[:i] + flags[i + 2:]
skip_verify = "--verified" in flags
if skip_verify:
    i = flags.index("--verified")
    verified_text = flags[i + 1]
    flags = flags[:i] + flags[i + 2:]

if not skip_verify:
    out = subprocess.run(["/verif/scripts/verify_seed.sh", src, pkg] + flags, capture_output=True, text=True).stdout
    print(out)
    m = re.search(r"RESULT (.*)", out)
    if not m or "confirmed=yes" not in m.group(1):
        print("NOT CONFIRMED", sid)
        sys.exit(1)
    verified_text = " | ".join(l.strip() for l in out.strip().splitlines())

caught = {}
for p in [prop] + extra_props:
    t = subprocess.run(["/verif/scripts/try_seed_wt.sh", os.path.join(src, "patch.diff"), p], capture_output=True, text=True).stdout
    print(t)
    rc = re.search(r"exit=(\d+)", t)
    lines = [l.strip()[:300] for l in t.splitlines() if re.match(r"\s+(violation|undecided|broken)", l)]
    caught[p] = {"check_exit": int(rc.group(1)) if rc else None, "reports": lines[:6]}

needs = ""
notes = os.path.join(src, "notes.md")
if os.path.exists(notes):
    txt = open(notes).read()
    m = re.search(r"(?:##\s*|\*\*)What is needed to manifest[^\n]*\n(.*?)(?:\n## |\n\*\*[A-Z]|\Z)", txt, re.S)
    if m:
        needs = " ".join(m.group(1).split())
    else:
        m = re.search(r"\*\*What is needed to manifest\.\*\*(.*?)(?:\n\n|\Z)", txt, re.S)
        if m:
            needs = " ".join(m.group(1).split())

dst = f"/verif/seeded/{sid}"
os.makedirs(dst, exist_ok=True)
for f in ("patch.diff", "demo_test.go", "notes.md"):
    if os.path.exists(os.path.join(src, f)):
        shutil.copy(os.path.join(src, f), os.path.join(dst, f))
head = subprocess.check_output(["git", "-C", "/repo", "rev-parse", "--short", "HEAD"]).decode().strip()
meta = {
    "id": sid,
    "breaks_property": prop,
    "package_dir": pkg,
    "needs_to_manifest": needs,
    "written_by": "independent sub-agent given only the property record and a scratch worktree (no access to /verif)",
    "confirmed_by": "scripts/verify_seed.sh " + " ".join([pkg] + flags) + " (fresh worktree of /repo: demo passes on the clean tree, fails with the patch, every pinned baseline test of the module still passes with the patch)",
    "confirmation_output": verified_text,
    "repo_head_when_confirmed": head,
    "checks": caught,
    "caught": all(v["check_exit"] == 1 for v in [caught[prop]]),
    "how_to_try": f"scripts/try_seed.sh seeded/{sid}/patch.diff {prop}",
}
json.dump(meta, open(os.path.join(dst, "meta.json"), "w"), indent=1)
print("stored", dst, "caught" if meta["caught"] else "MISSED")

#!/bin/bash
# Applies every stored behaviour-preserving refactoring (benign/<id>/patch.diff, written by independent sub-agents,
# each compiles and passes the pinned suite) to a scratch worktree of /repo's HEAD and runs all 20 quick checks on it.
# Every alarm is a false alarm. Prints one line per refactoring; exit 1 if any check alarms.
cd /verif
ALL="C01 C02 C03 C04 C05 C06 C07 C08 C09 C10 C11 C12 C13 C14 C15 C16 C17 C18 C19 C20"
ls benign | xargs -P 4 -I{} sh -c '
  out=$(./scripts/try_seed_wt.sh benign/{}/patch.diff '"$ALL"' 2>&1)
  if echo "$out" | grep -q "does not apply"; then echo "{} does-not-apply";
  else bad=$(echo "$out" | grep "exit=[12]" | tr "\n" " "); if [ -n "$bad" ]; then echo "{} FALSE-ALARM $bad"; else echo "{} silent"; fi; fi' | sort | tee /tmp/benign_result.txt
! grep -q "FALSE-ALARM" /tmp/benign_result.txt

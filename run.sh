#!/bin/bash
# Usage: ./run.sh <property id> <quick|thorough>
# Builds the checker if needed (offline) and runs the check against /repo's current tree.
set -u
cd "$(dirname "$0")"
export GOFLAGS=-mod=mod GOPROXY=off GOSUMDB=off GOTOOLCHAIN=local
unset GOWORK
( cd rocheck && go build -o ../bin/rocheck ./cmd/rocheck ) || { echo "VIOLATION property=$1 replay=/verif/reports/build-failed.txt"; mkdir -p reports; echo "checker build failed" > reports/build-failed.txt; exit 1; }
exec ./bin/rocheck -prop "$1" -tier "${2:-quick}"

package demos

import (
	"context"
	"fmt"
	"sync"
	"testing"
	"time"

	"github.com/samber/ro"
)

// C16/C03 (fixed in /repo, a82f5e4): Timeout's Next callback did timer.Stop(); destination.Next(v); timer.Reset(d).
// When the consumer unsubscribes inside Next the teardown has stopped the timer; the Reset armed it again: a timer ran
// on behalf of a closed subscription and fired a timeout error into the closed stream `duration` later.
func TestC16TimeoutDoesNotRearmAfterTeardown(t *testing.T) {
	var mu sync.Mutex
	dropped := []string{}
	prev := ro.OnDroppedNotification
	ro.OnDroppedNotification = func(ctx context.Context, n fmt.Stringer) {
		mu.Lock()
		dropped = append(dropped, n.String())
		mu.Unlock()
	}
	defer func() { ro.OnDroppedNotification = prev }()

	subject := ro.NewPublishSubject[int]()
	var sub ro.Subscription
	sub = ro.Pipe1[int, int](subject, ro.Timeout[int](50*time.Millisecond)).Subscribe(ro.OnNext(func(v int) {
		sub.Unsubscribe()
	}))
	subject.Next(1)
	if !sub.IsClosed() {
		t.Fatal("subscription should be closed")
	}
	time.Sleep(200 * time.Millisecond)
	mu.Lock()
	defer mu.Unlock()
	if len(dropped) != 0 {
		t.Fatalf("the timer of Timeout fired after the teardown: %v", dropped)
	}
}

package demos

import (
	"strings"
	"testing"

	"github.com/samber/ro"
)

// C01 (known finding): after a panic in its Next callback an observer built with
// NewObserver receives an Error notification but stays open: later values and a second
// terminal notification are still delivered.
func TestC01_Observer_PanicInNext_GrammarBroken(t *testing.T) {
	var trace []string
	obs := ro.NewObserver(
		func(v int) {
			trace = append(trace, "N")
			if v == 1 {
				panic("boom")
			}
		},
		func(err error) { trace = append(trace, "E") },
		func() { trace = append(trace, "C") },
	)
	obs.Next(1)
	obs.Next(2)
	obs.Next(3)
	obs.Complete()
	got := strings.Join(trace, " ")
	// the grammar allows: N* then at most one of E|C, then nothing
	if got != "N E" {
		t.Fatalf("trace = %q: notifications are delivered after the Error notification", got)
	}
}

package demos

import (
	"testing"
	"time"

	"github.com/samber/ro"
)

// C16/C04 (fixed in /repo, 9fbd483): IntervalWithInitial handles `initial == 0` (the first value is emitted synchronously) but
// built its ticker with time.NewTicker(initial * 2), which panics for a non-positive duration before that code is
// reached: IntervalWithInitial(0, d) failed with "non-positive interval for NewTicker" instead of emitting 0, 1, 2…
func TestC16IntervalWithInitialZeroEmits(t *testing.T) {
	vals, err := ro.Collect(ro.Pipe1(ro.IntervalWithInitial(0, 10*time.Millisecond), ro.Take[int64](3)))
	if err != nil {
		t.Fatal(err)
	}
	if len(vals) != 3 || vals[0] != 0 || vals[1] != 1 || vals[2] != 2 {
		t.Fatalf("got %v, want [0 1 2]", vals)
	}
}

package demos

import (
	"errors"
	"os"
	"os/exec"
	"testing"
	"time"

	"github.com/samber/ro"
)

// terminal waits for a terminal notification of obs and returns "error:<msg>", "complete" or "hang".
func terminal(obs ro.Observable[int]) string {
	done := make(chan string, 1)
	obs.Subscribe(ro.NewObserver(
		func(int) {},
		func(err error) { done <- "error:" + err.Error() },
		func() { done <- "complete" },
	))
	select {
	case s := <-done:
		return s
	case <-time.After(500 * time.Millisecond):
		return "hang"
	}
}

// C07: a panic in Future's factory must surface as an Error notification, not kill the process.
func TestC07_Future_FactoryPanic(t *testing.T) {
	if os.Getenv("C07_CHILD") == "1" {
		got := terminal(ro.Future(func() (int, error) { panic("boom") }))
		if got == "hang" || got == "complete" {
			os.Exit(3)
		}
		os.Exit(0)
	}
	cmd := exec.Command(os.Args[0], "-test.run=TestC07_Future_FactoryPanic")
	cmd.Env = append(os.Environ(), "C07_CHILD=1")
	out, err := cmd.CombinedOutput()
	if err != nil {
		t.Fatalf("child process failed (%v): a panic in the factory escaped the library\n%s", err, firstLines(string(out), 4))
	}
}

func firstLines(s string, n int) string {
	out := ""
	for i, l := 0, 0; i < len(s) && l < n; i++ {
		out += string(s[i])
		if s[i] == '\n' {
			l++
		}
	}
	return out
}

// C07 (known findings): a panic in a user callback that runs in an error/complete slot
// reaches only the unhandled-error hook; the subscriber never gets a terminal notification.
func TestC07_TapOnError_Panic(t *testing.T) {
	got := terminal(ro.Pipe1(ro.Throw[int](errors.New("e")), ro.TapOnError[int](func(error) { panic("boom") })))
	if got == "hang" {
		t.Fatalf("Tap(onError panics): subscriber received no terminal notification")
	}
}

func TestC07_TapOnComplete_Panic(t *testing.T) {
	got := terminal(ro.Pipe1(ro.Just(1), ro.TapOnComplete[int](func() { panic("boom") })))
	if got == "hang" {
		t.Fatalf("Tap(onComplete panics): subscriber received no terminal notification")
	}
}

func TestC07_ThrowIfEmpty_Panic(t *testing.T) {
	got := terminal(ro.Pipe1(ro.Empty[int](), ro.ThrowIfEmpty[int](func() error { panic("boom") })))
	if got == "hang" {
		t.Fatalf("ThrowIfEmpty(throw panics): subscriber received no terminal notification")
	}
}

func TestC07_Catch_Panic(t *testing.T) {
	got := terminal(ro.Pipe1(ro.Throw[int](errors.New("e")), ro.Catch(func(error) ro.Observable[int] { panic("boom") })))
	if got == "hang" {
		t.Fatalf("Catch(finally panics): subscriber received no terminal notification")
	}
}

func TestC07_DoWhile_Panic(t *testing.T) {
	// the loop re-subscribes forever when the condition panics, so Subscribe itself never
	// returns: run it in a child process with a deadline
	if os.Getenv("C07_CHILD") == "2" {
		got := terminal(ro.Pipe1(ro.Just(1), ro.DoWhile[int](func() bool { panic("boom") })))
		if got == "hang" {
			os.Exit(3)
		}
		os.Exit(0)
	}
	cmd := exec.Command(os.Args[0], "-test.run=TestC07_DoWhile_Panic")
	cmd.Env = append(os.Environ(), "C07_CHILD=2")
	if err := cmd.Start(); err != nil {
		t.Fatal(err)
	}
	done := make(chan error, 1)
	go func() { done <- cmd.Wait() }()
	select {
	case err := <-done:
		if err != nil {
			t.Fatalf("DoWhile(condition panics): subscriber received no terminal notification (%v)", err)
		}
	case <-time.After(2 * time.Second):
		_ = cmd.Process.Kill()
		t.Fatalf("DoWhile(condition panics): Subscribe never returned (the loop re-subscribes forever)")
	}
}

package demos

import (
	"reflect"
	"testing"

	"github.com/samber/ro"
)

// C10: a subscriber that arrives after a unicast subject terminated receives the backlog
// nobody consumed, followed by the stored terminal (the replay subject already does).
func TestC10_Unicast_LateSubscriber_GetsBacklog(t *testing.T) {
	for name, subject := range map[string]ro.Subject[int]{
		"replay":  ro.NewReplaySubject[int](10),
		"unicast": ro.NewUnicastSubject[int](10),
	} {
		subject.Next(1)
		subject.Next(2)
		subject.Complete()
		var got []int
		completed := false
		subject.Subscribe(ro.NewObserver(func(v int) { got = append(got, v) }, func(error) {}, func() { completed = true }))
		if !reflect.DeepEqual(got, []int{1, 2}) || !completed {
			t.Errorf("%s: late subscriber got %v completed=%v, want [1 2] then completion", name, got, completed)
		}
	}
}

package rohttpclient

// Demonstration for C12 (pipelines are reusable recipes): copy into /repo/plugins/http/client and run
//   go test -vet=off -count=1 -timeout 60s -run TestDemoHTTPRequestResubscribe .
// Before the fix the second subscription fails with "context canceled".

import (
	"net/http"
	"net/http/httptest"
	"testing"

	"github.com/samber/ro"
)

func TestDemoHTTPRequestResubscribe(t *testing.T) {
	srv := httptest.NewServer(http.HandlerFunc(func(w http.ResponseWriter, r *http.Request) { w.WriteHeader(200) }))
	defer srv.Close()
	req, _ := http.NewRequest("GET", srv.URL, nil)
	obs := HTTPRequest(req, nil)
	for i := 0; i < 3; i++ {
		res, err := ro.Collect(obs)
		if err != nil || len(res) != 1 {
			t.Fatalf("subscription %d: res=%v err=%v", i+1, res, err)
		}
		res[0].Body.Close()
	}
}

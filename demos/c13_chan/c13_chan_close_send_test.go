package c13chan

import (
	"sync/atomic"
	"testing"
	"time"

	"github.com/samber/ro"
)

// C13 known finding (run with -race): ToChannel and ObserveOn/SubscribeOn close their hand-off channel from the teardown
// while an upstream callback may be blocked in `ch <- notification`. The resulting send-on-closed-channel panic is
// recovered by the observer, but close and send are unsynchronised conflicting accesses: the race detector reports a
// DATA RACE between runtime.closechan and runtime.chansend.
func syncSource(n int) ro.Observable[int] {
	return ro.NewObservable(func(destination ro.Observer[int]) ro.Teardown {
		for i := 0; i < n; i++ {
			destination.Next(i)
		}
		destination.Complete()
		return nil
	})
}

func TestC13ToChannelCloseRacesWithBlockedSend(t *testing.T) {
	handedOut := make(chan (<-chan ro.Notification[int]), 1)
	sub := ro.ToChannel[int](1)(syncSource(2000)).Subscribe(ro.OnNext(func(c <-chan ro.Notification[int]) { handedOut <- c }))
	ch := <-handedOut
	<-ch // read one, then stop reading: the producer blocks in its send
	time.Sleep(20 * time.Millisecond)
	sub.Unsubscribe() // closes the channel while the producer is blocked in `ch <- ...`
	time.Sleep(20 * time.Millisecond)
}

func TestC13ObserveOnCloseRacesWithBlockedSend(t *testing.T) {
	var stop int32
	source := ro.NewObservable(func(destination ro.Observer[int]) ro.Teardown {
		go func() {
			for i := 0; atomic.LoadInt32(&stop) == 0; i++ {
				destination.Next(i) // blocks in ObserveOn's `ch <- notification` while the consumer is slow
			}
		}()
		return func() { atomic.StoreInt32(&stop, 1) }
	})
	sub := ro.Pipe1(source, ro.ObserveOn[int](1)).Subscribe(ro.OnNext(func(v int) {
		time.Sleep(200 * time.Microsecond)
	}))
	time.Sleep(20 * time.Millisecond)
	sub.Unsubscribe() // closes the queue while the producer goroutine is blocked in its send
	time.Sleep(20 * time.Millisecond)
}

package demos

import (
	"sync"
	"testing"
	"time"

	"github.com/samber/ro"
)

// C11/C13: run with -race. Connect/disconnect and Subscribe on one connectable observable from
// two goroutines must not race on the connectable's own fields.
func TestC13_Connectable_ConnectVsSubscribe_Race(t *testing.T) {
	c := ro.Connectable(ro.Interval(time.Millisecond))
	var wg sync.WaitGroup
	wg.Add(2)
	go func() {
		defer wg.Done()
		for i := 0; i < 200; i++ {
			sub := c.Connect()
			sub.Unsubscribe() // ResetOnDisconnect: installs a new subject
		}
	}()
	go func() {
		defer wg.Done()
		for i := 0; i < 200; i++ {
			s := c.Subscribe(ro.NoopObserver[int64]())
			s.Unsubscribe()
		}
	}()
	wg.Wait()
}

// C11/C13: concurrent subscribe/unsubscribe on a shared observable must not race on Share's
// connection state.
func TestC13_Share_SubscribeUnsubscribe_Race(t *testing.T) {
	shared := ro.Pipe1(ro.Interval(time.Millisecond), ro.Share[int64]())
	var wg sync.WaitGroup
	for g := 0; g < 4; g++ {
		wg.Add(1)
		go func() {
			defer wg.Done()
			for i := 0; i < 300; i++ {
				s := shared.Subscribe(ro.NoopObserver[int64]())
				s.Unsubscribe()
			}
		}()
	}
	wg.Wait()
}

package demos

import (
	"context"
	"reflect"
	"testing"

	"github.com/samber/ro"
)

// C12: MergeMapI index must restart at zero for every subscription.
func TestC12_MergeMapI_IndexRestarts(t *testing.T) {
	var seen []int64
	p := ro.Pipe1(ro.Just(10, 20, 30), ro.MergeMapI(func(v int, i int64) ro.Observable[int] {
		seen = append(seen, i)
		return ro.Just(v)
	}))
	_, _ = ro.Collect(p)
	_, _ = ro.Collect(p)
	want := []int64{0, 1, 2, 0, 1, 2}
	if !reflect.DeepEqual(seen, want) {
		t.Fatalf("indices over two subscriptions = %v, want %v", seen, want)
	}
}

// C12: one operator value applied to two sources yields independent pipelines.
func TestC12_OnErrorResumeNextWith_OperatorValueReusable(t *testing.T) {
	op := ro.OnErrorResumeNextWith(ro.Just(100))
	a := op(ro.Just(1))
	b := op(ro.Just(2))
	va, _ := ro.Collect(a)
	vb, _ := ro.Collect(b)
	if !reflect.DeepEqual(va, []int{1, 100}) || !reflect.DeepEqual(vb, []int{2, 100}) {
		t.Fatalf("a=%v b=%v, want [1 100] and [2 100]", va, vb)
	}
	_ = context.Background
}

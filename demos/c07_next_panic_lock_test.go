package demos

import (
	"context"
	"fmt"
	"testing"
	"time"

	"github.com/samber/ro"
)

// C07 (fixed in /repo, cceba04): subscriberImpl.NextWithContext and the publish/behavior/replay subjects delivered Next
// under a mutex released by an explicit Unlock. An Observer of the caller's own that panics in Next left the lock held:
// Subscribe on a safe observable dead-locked in its panic handler, a subject stayed locked for ever.

type ctRawObserver struct {
	events  []string
	panicOn int
}

func (o *ctRawObserver) Next(v int) { o.NextWithContext(context.Background(), v) }
func (o *ctRawObserver) NextWithContext(_ context.Context, v int) {
	o.events = append(o.events, fmt.Sprintf("next(%d)", v))
	if v == o.panicOn {
		panic("boom")
	}
}
func (o *ctRawObserver) Error(err error) { o.ErrorWithContext(context.Background(), err) }
func (o *ctRawObserver) ErrorWithContext(context.Context, error) {
	o.events = append(o.events, "error")
}
func (o *ctRawObserver) Complete() { o.CompleteWithContext(context.Background()) }
func (o *ctRawObserver) CompleteWithContext(context.Context) {
	o.events = append(o.events, "complete")
}
func (o *ctRawObserver) IsClosed() bool    { return false }
func (o *ctRawObserver) HasThrown() bool   { return false }
func (o *ctRawObserver) IsCompleted() bool { return false }

func ctRun(t *testing.T, what string, f func()) {
	t.Helper()

	done := make(chan struct{})

	go func() {
		defer close(done)
		defer func() { _ = recover() }()
		f()
	}()

	select {
	case <-done:
	case <-time.After(2 * time.Second):
		t.Fatalf("%s: still blocked after 2s", what)
	}
}

func TestC07SafeSubscriberReleasesItsLockWhenNextPanics(t *testing.T) {
	observer := &ctRawObserver{panicOn: 2}

	ctRun(t, "Subscribe on a safe observable whose observer panics in Next", func() {
		ro.NewObservable(func(destination ro.Observer[int]) ro.Teardown {
			destination.Next(1)
			destination.Next(2)
			destination.Next(3)
			destination.Complete()

			return nil
		}).Subscribe(observer)
	})
}

// 1bis. same shape in the subjects: NextWithContext holds s.mu (and the subscriber lock)
// across the broadcast without defer.
func TestC07SubjectReleasesItsLockWhenAnObserverPanics(t *testing.T) {
	subject := ro.NewPublishSubject[int]()
	subject.Subscribe(&ctRawObserver{panicOn: 2})

	ctRun(t, "subject.Next(1)", func() { subject.Next(1) })
	ctRun(t, "subject.Next(2)", func() { subject.Next(2) }) // panics, recovered by ctRun
	ctRun(t, "subject.Complete() after an observer panicked", func() { subject.Complete() })
}

package demos

import (
	"testing"
	"time"

	"github.com/samber/ro"
)

// C06 (fixed in /repo, 1bcf0ca): ZipAll's onUpdate released its mutex, sent the tuple and re-locked; Take(1) unsubscribing
// inside that notification ran the teardown, which sets completed/values to nil: the index expression after the
// re-lock panicked with the mutex held and the producer dead-locked in b.Next(2).
func TestC06ZipAllUnsubscribeInsideNextReturns(t *testing.T) {
	a := ro.NewPublishSubject[int]()
	b := ro.NewPublishSubject[int]()
	var got [][]int
	completed := false
	ro.Pipe1(ro.Zip[int](a, b), ro.Take[[]int](1)).Subscribe(ro.NewObserver(
		func(v []int) { got = append(got, v) },
		func(err error) { t.Errorf("unexpected error: %v", err) },
		func() { completed = true },
	))
	done := make(chan struct{})
	go func() {
		defer close(done)
		a.Next(1)
		b.Next(2)
	}()
	select {
	case <-done:
	case <-time.After(2 * time.Second):
		t.Fatalf("the producer is still blocked in b.Next(2) after 2s (got=%v completed=%v)", got, completed)
	}
	if len(got) != 1 || !completed {
		t.Fatalf("got=%v completed=%v, want one tuple then completion", got, completed)
	}
}

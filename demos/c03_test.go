package demos

import (
	"context"
	"runtime"
	"testing"
	"time"

	"github.com/samber/ro"
)

// a never-ending source whose teardown panics
func panickyTeardownSource(released *bool) ro.Observable[int] {
	return ro.NewUnsafeObservableWithContext(func(ctx context.Context, d ro.Observer[int]) ro.Teardown {
		d.NextWithContext(ctx, 1)
		return func() {
			if released != nil {
				*released = true
			}
			panic("teardown failed")
		}
	})
}

func unsubscribeRecovering(sub ro.Subscription) {
	defer func() { _ = recover() }()
	sub.Unsubscribe()
}

func goroutinesSettled() int {
	n := runtime.NumGoroutine()
	for i := 0; i < 50; i++ {
		time.Sleep(5 * time.Millisecond)
		m := runtime.NumGoroutine()
		if m == n {
			return n
		}
		n = m
	}
	return n
}

// C03: a panicking upstream teardown must not stop the operator's other releases.
func TestC03_ObserveOn_PanickingUpstreamTeardown_NoGoroutineLeft(t *testing.T) {
	before := goroutinesSettled()
	sub := ro.Pipe1(panickyTeardownSource(nil), ro.ObserveOn[int](4)).Subscribe(ro.NoopObserver[int]())
	time.Sleep(20 * time.Millisecond)
	unsubscribeRecovering(sub)
	after := goroutinesSettled()
	if after > before {
		t.Fatalf("ObserveOn left %d goroutine(s) blocked after Unsubscribe (queue never closed because the upstream teardown panicked first)", after-before)
	}
}

func TestC03_ThrowOnContextCancel_PanickingUpstreamTeardown_NoGoroutineLeft(t *testing.T) {
	before := goroutinesSettled()
	sub := ro.Pipe1(panickyTeardownSource(nil), ro.ThrowOnContextCancel[int]()).Subscribe(ro.NoopObserver[int]())
	unsubscribeRecovering(sub)
	after := goroutinesSettled()
	if after > before {
		t.Fatalf("ThrowOnContextCancel left %d goroutine(s) blocked after Unsubscribe", after-before)
	}
}

func TestC03_TapOnFinalize_RunsAfterPanickingTeardown(t *testing.T) {
	ran := false
	// a source built with the default (safe) constructor wraps the operator's destination in its own subscriber
	src := ro.NewObservableWithContext(func(ctx context.Context, d ro.Observer[int]) ro.Teardown {
		d.NextWithContext(ctx, 1)
		return func() { panic("teardown failed") }
	})
	sub := ro.Pipe1(src, ro.TapOnFinalize[int](func() { ran = true })).Subscribe(ro.NoopObserver[int]())
	unsubscribeRecovering(sub)
	if !ran {
		t.Fatalf("TapOnFinalize callback was skipped because the upstream teardown panicked")
	}
}

func TestC03_ToChannel_ClosedAfterPanickingTeardown(t *testing.T) {
	got := make(chan (<-chan ro.Notification[int]), 1)
	sub := ro.Pipe1(panickyTeardownSource(nil), ro.ToChannel[int](4)).Subscribe(ro.OnNext(func(ch <-chan ro.Notification[int]) { got <- ch }))
	ch := <-got
	time.Sleep(20 * time.Millisecond)
	unsubscribeRecovering(sub)
	deadline := time.After(300 * time.Millisecond)
	for {
		select {
		case _, ok := <-ch:
			if !ok {
				return // closed
			}
		case <-deadline:
			t.Fatalf("ToChannel's channel is still open after Unsubscribe (closeChan skipped by the panic)")
		}
	}
}

func TestC03_GroupBy_GroupsCompletedAfterPanickingTeardown(t *testing.T) {
	completed := false
	sub := ro.Pipe1(panickyTeardownSource(nil), ro.GroupBy(func(v int) int { return v })).Subscribe(ro.OnNext(func(g ro.Observable[int]) {
		g.Subscribe(ro.NewObserver(func(int) {}, func(error) {}, func() { completed = true }))
	}))
	unsubscribeRecovering(sub)
	if !completed {
		t.Fatalf("GroupBy did not complete its open groups on unsubscription (skipped by the upstream teardown's panic)")
	}
}

package demos

import (
	"context"
	"os"
	"os/exec"
	"testing"
	"time"

	"github.com/samber/ro"
)

// C07 (fixed in /repo, 92219e9): Never, ThrowOnContextCancel and ToChannel (and the fsnotify, http and signal sources) delivered
// terminal notifications, or registered subscriptions, from a bare `go func()`. A subscriber runs its teardowns inside
// the terminal notification and Unsubscribe re-raises their panics: a panicking teardown downstream killed the whole
// process, where the goroutines started through recoverUnhandledError report to OnUnhandledError.
// Run in a child process so that the crash shows as an ordinary failure.
func TestC07NeverGoroutineSurvivesTeardownPanic(t *testing.T) {
	if os.Getenv("RO_C07_CRASH_CHILD") == "1" {
		ctx, cancel := context.WithCancel(context.Background())
		sub := ro.Never().SubscribeWithContext(ctx, ro.NoopObserver[struct{}]())
		sub.Add(func() { panic("teardown failed") })
		cancel() // Never's goroutine sends Error(ctx.Err()): the subscriber closes and runs the teardown
		time.Sleep(200 * time.Millisecond)
		return
	}
	cmd := exec.Command(os.Args[0], "-test.run=^TestC07NeverGoroutineSurvivesTeardownPanic$", "-test.count=1")
	cmd.Env = append(os.Environ(), "RO_C07_CRASH_CHILD=1")
	out, err := cmd.CombinedOutput()
	if err != nil {
		if len(out) > 600 {
			out = out[:600]
		}
		t.Fatalf("the process died: %v\n%s", err, out)
	}
}

package demos

import (
	"testing"
	"time"

	"github.com/samber/ro"
)

func returnsWithin(d time.Duration, f func()) bool {
	done := make(chan struct{})
	go func() { defer close(done); f() }()
	select {
	case <-done:
		return true
	case <-time.After(d):
		return false
	}
}

// C10/C06 (fixed in /repo, 4d2d93b): UnicastSubject.SubscribeWithContext registered the subscriber's teardown with
// Add while holding the subject mutex, and that teardown takes the mutex. Add runs the teardown at once when the
// subscription is already closed: a subscriber that unsubscribes during the backlog replay (it wanted the first queued
// value only), or a closed Subscriber passed as the destination, dead-locked Subscribe and left the subject locked.
func TestC10UnicastUnsubscribeDuringBacklogReplay(t *testing.T) {
	subject := ro.NewUnicastSubject[int](10)
	subject.Next(1)
	subject.Next(2)

	ok := returnsWithin(2*time.Second, func() {
		var sub ro.Subscriber[int]
		sub = ro.NewSubscriber(ro.NewObserver(
			func(v int) { sub.Unsubscribe() },
			func(error) {},
			func() {},
		))
		subject.Subscribe(sub)
	})
	if !ok {
		t.Fatalf("Subscribe never returned: the teardown takes the subject mutex that SubscribeWithContext still holds")
	}
	if !returnsWithin(2*time.Second, func() { _ = subject.HasObserver() }) {
		t.Fatalf("subject mutex is stuck")
	}
	if subject.HasObserver() {
		t.Fatalf("the unsubscribed observer is still registered")
	}
}

func TestC10UnicastSubscribeClosedSubscriber(t *testing.T) {
	subject := ro.NewUnicastSubject[int](10)
	sub := ro.NewSubscriber(ro.NewObserver(func(int) {}, func(error) {}, func() {}))
	sub.Unsubscribe()
	if !returnsWithin(2*time.Second, func() { subject.Subscribe(sub) }) {
		t.Fatalf("subscribing a closed Subscriber dead-locks the unicast subject")
	}
	if subject.HasObserver() {
		t.Fatalf("a closed subscriber stays registered")
	}
}

package demos

import (
	"context"
	"sync"
	"sync/atomic"
	"testing"
	"time"

	"github.com/samber/ro"
)

// producer emits n values from its own goroutine (a sequential source).
func producer(n int) ro.Observable[int] {
	return ro.NewUnsafeObservableWithContext(func(ctx context.Context, d ro.Observer[int]) ro.Teardown {
		go func() {
			for i := 0; i < n; i++ {
				d.NextWithContext(ctx, i)
			}
			d.CompleteWithContext(ctx)
		}()
		return nil
	})
}

func overlapCount(t *testing.T, obs ro.Observable[int]) int32 {
	var inside, overlaps int32
	var wg sync.WaitGroup
	wg.Add(1)
	obs.Subscribe(ro.NewObserver(
		func(v int) {
			if atomic.AddInt32(&inside, 1) > 1 {
				atomic.AddInt32(&overlaps, 1)
			}
			time.Sleep(20 * time.Microsecond)
			atomic.AddInt32(&inside, -1)
		},
		func(err error) { wg.Done() },
		func() { wg.Done() },
	))
	wg.Wait()
	return atomic.LoadInt32(&overlaps)
}

// C02: pass-through operators placed after a multi-producer operator must not lose serialisation.
func TestC02_StartWith_After_Merge_NoOverlap(t *testing.T) {
	if n := overlapCount(t, ro.Merge(producer(300), producer(300), producer(300))); n != 0 {
		t.Fatalf("Merge alone overlapped %d times", n)
	}
	if n := overlapCount(t, ro.Pipe1(ro.Merge(producer(300), producer(300), producer(300)), ro.StartWith(-1))); n != 0 {
		t.Fatalf("Merge | StartWith: %d overlapping callbacks", n)
	}
}

func TestC02_TapOnSubscribe_After_Merge_NoOverlap(t *testing.T) {
	if n := overlapCount(t, ro.Pipe1(ro.Merge(producer(300), producer(300), producer(300)), ro.TapOnSubscribe[int](func() {}))); n != 0 {
		t.Fatalf("Merge | TapOnSubscribe: %d overlapping callbacks", n)
	}
}

func TestC02_Defer_Around_Merge_NoOverlap(t *testing.T) {
	if n := overlapCount(t, ro.Defer(func() ro.Observable[int] { return ro.Merge(producer(300), producer(300), producer(300)) })); n != 0 {
		t.Fatalf("Defer(Merge): %d overlapping callbacks", n)
	}
}

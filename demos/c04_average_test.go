package demos

import (
	"context"
	"fmt"
	"sync"
	"testing"

	"github.com/samber/ro"
)

// C04/C01 (fixed in /repo): Average on an empty source sent Next(NaN), Complete and then - a return was missing -
// Next(NaN) and Complete once more. The subscriber drops the second pair, but every dropped notification is reported
// to OnDroppedNotification as if a producer had broken the contract: the operator itself notified after its terminal.
func TestC04AverageOnEmptySourceDoesNotNotifyAfterItsTerminal(t *testing.T) {
	var mu sync.Mutex
	var dropped []string
	old := ro.OnDroppedNotification
	ro.OnDroppedNotification = func(ctx context.Context, n fmt.Stringer) {
		mu.Lock()
		dropped = append(dropped, n.String())
		mu.Unlock()
	}
	defer func() { ro.OnDroppedNotification = old }()

	vals, err := ro.Collect(ro.Pipe1(ro.Empty[int](), ro.Average[int]()))
	if err != nil || len(vals) != 1 {
		t.Fatalf("unexpected output %v %v", vals, err)
	}
	mu.Lock()
	defer mu.Unlock()
	if len(dropped) != 0 {
		t.Fatalf("Average notified after its own terminal; dropped notifications reported to the hook: %v", dropped)
	}
}

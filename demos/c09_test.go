package demos

import (
	"context"
	"testing"

	"github.com/samber/ro"
)

type markerKey struct{}

func marked() context.Context { return context.WithValue(context.Background(), markerKey{}, "m") }

func hasMarker(ctx context.Context) bool { return ctx != nil && ctx.Value(markerKey{}) == "m" }

// C09: ToChannel must hand out the channel with a context derived from the subscription.
func TestC09_ToChannel_Context(t *testing.T) {
	got := make(chan context.Context, 1)
	sub := ro.Pipe1(ro.Just(1), ro.ToChannel[int](1)).SubscribeWithContext(marked(), ro.NewObserverWithContext(
		func(ctx context.Context, ch <-chan ro.Notification[int]) { got <- ctx },
		func(ctx context.Context, err error) {}, func(ctx context.Context) {}))
	defer sub.Unsubscribe()
	if ctx := <-got; !hasMarker(ctx) {
		t.Fatalf("ToChannel delivered its channel with a context that lost the subscription's values: %v", ctx)
	}
}

// C09: Max must not call Next with a nil context (empty source).
func TestC09_Max_EmptySource_NoNilContext(t *testing.T) {
	var seen []context.Context
	ro.Pipe1(ro.Empty[int](), ro.Max[int]()).SubscribeWithContext(marked(), ro.NewObserverWithContext(
		func(ctx context.Context, v int) { seen = append(seen, ctx) },
		func(ctx context.Context, err error) {}, func(ctx context.Context) {}))
	for _, ctx := range seen {
		if !hasMarker(ctx) {
			t.Fatalf("Max delivered a value with context %v", ctx)
		}
	}
}

// C09: DefaultIfEmpty must deliver the default value with a context derived from the subscription.
func TestC09_DefaultIfEmpty_Context(t *testing.T) {
	var seen []context.Context
	ro.Pipe1(ro.Empty[int](), ro.DefaultIfEmpty(42)).SubscribeWithContext(marked(), ro.NewObserverWithContext(
		func(ctx context.Context, v int) { seen = append(seen, ctx) },
		func(ctx context.Context, err error) {}, func(ctx context.Context) {}))
	if len(seen) != 1 || !hasMarker(seen[0]) {
		t.Fatalf("DefaultIfEmpty delivered its default with contexts %v", seen)
	}
}

// C09: unsubscribing GroupBy completes the groups with a context derived from the subscription.
func TestC09_GroupBy_TeardownContext(t *testing.T) {
	var seen []context.Context
	src := ro.NewObservableWithContext(func(ctx context.Context, d ro.Observer[int]) ro.Teardown {
		d.NextWithContext(ctx, 1)
		return nil // never completes
	})
	sub := ro.Pipe1(src, ro.GroupBy(func(v int) int { return v })).SubscribeWithContext(marked(), ro.NewObserverWithContext(
		func(ctx context.Context, g ro.Observable[int]) {
			g.SubscribeWithContext(ctx, ro.NewObserverWithContext(
				func(ctx context.Context, v int) {}, func(ctx context.Context, err error) {},
				func(ctx context.Context) { seen = append(seen, ctx) }))
		},
		func(ctx context.Context, err error) {}, func(ctx context.Context) {}))
	sub.Unsubscribe()
	if len(seen) != 1 || !hasMarker(seen[0]) {
		t.Fatalf("group completion on unsubscription carried contexts %v", seen)
	}
}

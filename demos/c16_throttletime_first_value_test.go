package demos

import (
	"testing"
	"time"

	"github.com/samber/ro"
)

// C16/C04 (fixed in /repo, 51b7af0): ThrottleTime compared `lastAt + interval < now` with lastAt = 0 and a monotonic
// clock that counts from process start: until the process was older than the interval every value was dropped.
func TestC16ThrottleTimeFirstValuePasses(t *testing.T) {
	vals, err := ro.Collect(ro.Pipe1(ro.Just(1, 2, 3), ro.ThrottleTime[int](time.Hour)))
	if err != nil {
		t.Fatal(err)
	}
	if len(vals) != 1 || vals[0] != 1 {
		t.Fatalf("got %v, want [1]", vals)
	}
}

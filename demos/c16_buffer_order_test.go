package demos

import (
	"sync"
	"sync/atomic"
	"testing"
	"time"

	"github.com/samber/ro"
)

// C16 (fixed in /repo, 5f6e392; takes 4 s): BufferWithTimeOrCount's flush took the buffer under its mutex and
// delivered it after releasing it, on two goroutines (count-triggered on the source's, time-triggered on the
// ticker's): a buffer taken later could be delivered first - 10 to 26 out-of-order values per run before the repair.
func TestC16BufferWithTimeOrCountKeepsSourceOrder(t *testing.T) {
	var bad int64

	var wg sync.WaitGroup

	for p := 0; p < 32; p++ {
		wg.Add(1)

		go func() {
			defer wg.Done()

			source := ro.NewObservable(func(destination ro.Observer[int]) ro.Teardown {
				stop := int32(0)

				go func() { // one producer, values 0, 1, 2, ...
					for i := 0; atomic.LoadInt32(&stop) == 0; i++ {
						destination.Next(i)
					}
				}()

				return func() { atomic.StoreInt32(&stop, 1) }
			})

			last := -1

			sub := ro.Pipe1(source, ro.BufferWithTimeOrCount[int](3, time.Millisecond)).Subscribe(ro.NewObserver(
				func(vs []int) {
					for _, v := range vs {
						if v < last {
							atomic.AddInt64(&bad, 1)
						}

						last = v
					}
				},
				func(error) {},
				func() {},
			))

			time.Sleep(4 * time.Second)
			sub.Unsubscribe()
		}()
	}

	wg.Wait()

	if bad > 0 {
		t.Fatalf("ro.BufferWithTimeOrCount: %d values came out before a value the source had emitted earlier", bad)
	}
}

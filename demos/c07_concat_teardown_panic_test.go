package demos

import (
	"errors"
	"testing"
	"time"

	. "github.com/samber/ro"
)

func TestDemoC07ConcatAllErrorLostWhenTeardownPanics(t *testing.T) {
	boom := errors.New("boom")
	inner := NewPublishSubject[int]()
	outer := NewObservable(func(destination Observer[Observable[int]]) Teardown {
		go func() {
			time.Sleep(10 * time.Millisecond)
			destination.Next(inner.AsObservable())
		}()
		return func() { panic("outer teardown failed") }
	})
	got := make(chan error, 1)
	ConcatAll[int]()(outer).Subscribe(NewObserver(
		func(int) {},
		func(err error) { got <- err },
		func() {},
	))
	time.Sleep(100 * time.Millisecond)
	inner.Error(boom)
	select {
	case err := <-got:
		if !errors.Is(err, boom) {
			t.Fatalf("unexpected error %v", err)
		}
	case <-time.After(2 * time.Second):
		t.Fatalf("the inner error was never delivered to the subscriber")
	}
}

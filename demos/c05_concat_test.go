package demos

import (
	"errors"
	"testing"

	"github.com/samber/ro"
)

// C05 (fixed in /repo): ConcatAll subscribed the next inner observable although the previous one had failed (or
// downstream had unsubscribed) whenever the outer observable emits synchronously (Concat, FlatMap over Just/FromSlice):
// the outer subscription is not yet registered when the inner error arrives, so the outer went on emitting.
// "concat subscribes to the next source only after the previous completed".
func TestC05ConcatDoesNotSubscribeNextSourceAfterAnError(t *testing.T) {
	subscribed := 0
	next := ro.NewObservable(func(d ro.Observer[int]) ro.Teardown {
		subscribed++
		d.Next(7)
		d.Complete()
		return nil
	})
	vals, err := ro.Collect(ro.Concat[int](ro.Throw[int](errors.New("boom")), next))
	if err == nil || len(vals) != 0 {
		t.Fatalf("unexpected output %v %v", vals, err)
	}
	if subscribed != 0 {
		t.Fatalf("the source after the failed one was subscribed %d time(s)", subscribed)
	}

}

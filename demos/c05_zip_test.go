package demos

import (
	"fmt"
	"testing"
	"time"

	"github.com/samber/lo"
	"github.com/samber/ro"
)

// C05 (fixed in /repo): zipInnerSubscription unsubscribed every source as soon as one source completed, even when
// that source still had queued values waiting for partners. The partners were cut off, the queued values were never
// paired and the output neither emitted nor terminated.  Zip must complete "once a finished source's queue is drained".
func TestC05ZipKeepsOtherSourcesWhileQueueNotDrained(t *testing.T) {
	a := ro.Just(1, 2)                                                   // finishes at once, two values queued
	b := ro.Pipe1(ro.Interval(5*time.Millisecond), ro.Take[int64](5)) // partners arrive later
	done := make(chan struct{})
	var got []string
	ro.Zip2(a, b).Subscribe(ro.NewObserver(
		func(v lo.Tuple2[int, int64]) { got = append(got, fmt.Sprint(v.A, "/", v.B)) },
		func(err error) { got = append(got, "error"); close(done) },
		func() { got = append(got, "complete"); close(done) },
	))
	select {
	case <-done:
	case <-time.After(time.Second):
		t.Fatalf("Zip2(Just(1,2), Interval.Take(5)) never terminated; received %v", got)
	}
	want := "[1/0 2/1 complete]"
	if fmt.Sprint(got) != want {
		t.Fatalf("got %v want %v", got, want)
	}
}

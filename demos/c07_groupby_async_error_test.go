package demos

import (
	"errors"
	"sync"
	"testing"

	"github.com/samber/ro"
)

// C07/C05 (fixed in /repo, 87bc9c3): GroupBy's error callback sent the error to the destination before its groups. With
// an asynchronous source the teardown is already registered: it ran inside that notification, completed the groups,
// and the Error meant for them was dropped — the failure reached the group subscribers as Complete.
func TestC07GroupByAsyncSourceErrorReachesGroupsAsError(t *testing.T) {
	boom := errors.New("boom")
	subject := ro.NewPublishSubject[int]()

	var mu sync.Mutex
	var groupErr, outerErr error
	groupCompleted := false

	ro.Pipe1(
		subject.AsObservable(),
		ro.GroupBy(func(v int) int { return v % 2 }),
	).Subscribe(ro.NewObserver(
		func(g ro.Observable[int]) {
			g.Subscribe(ro.NewObserver(
				func(int) {},
				func(e error) { mu.Lock(); groupErr = e; mu.Unlock() },
				func() { mu.Lock(); groupCompleted = true; mu.Unlock() },
			))
		},
		func(e error) { outerErr = e },
		func() {},
	))

	subject.Next(1)
	subject.Error(boom)

	if !errors.Is(outerErr, boom) {
		t.Fatalf("outer: expected boom, got %v", outerErr)
	}
	mu.Lock()
	defer mu.Unlock()
	if groupCompleted || !errors.Is(groupErr, boom) {
		t.Fatalf("group: expected Error(boom); got err=%v completed=%v", groupErr, groupCompleted)
	}
}

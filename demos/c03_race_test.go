package demos

import (
	"testing"

	"github.com/samber/ro"
)

// C03/C14 (fixed in /repo): when a source won the race during its own Subscribe call (a source that notifies
// synchronously, e.g. a BehaviorSubject), RaceWith neither stored nor released that subscription: unsubscribing the
// race left the winner subscribed for ever.
func TestC03RaceReleasesWinnerThatWonDuringSubscribe(t *testing.T) {
	winner := ro.NewBehaviorSubject(1) // emits its current value inside Subscribe
	other := ro.NewPublishSubject[int]()
	sub := ro.Race[int](winner, other).Subscribe(ro.NoopObserver[int]())
	if n := winner.CountObservers(); n != 1 {
		t.Fatalf("winner should be subscribed, observers=%d", n)
	}
	sub.Unsubscribe()
	if n := winner.CountObservers(); n != 0 {
		t.Fatalf("the race was unsubscribed but its winning source still has %d observer(s): upstream subscription leaked", n)
	}
}

package demos

import (
	"fmt"
	"testing"
	"time"

	"github.com/samber/ro"
)

// C05 (fixed in /repo): ZipAll completed its output as soon as the outer observable had been drained, i.e. right
// after subscribing the inner observables. With inner observables that emit later, every value was lost:
// ZipAll(Just(a, b)) with asynchronous a and b emitted nothing and completed at once.
func TestC05ZipAllWaitsForItsInnerObservables(t *testing.T) {
	a := ro.Pipe1(ro.Interval(5*time.Millisecond), ro.Take[int64](2))
	b := ro.Pipe1(ro.Interval(7*time.Millisecond), ro.Take[int64](2))
	vals, err := ro.Collect(ro.ZipAll[int64]()(ro.Just(a, b)))
	if err != nil || fmt.Sprint(vals) != "[[0 0] [1 1]]" {
		t.Fatalf("ZipAll of two asynchronous sources: got %v %v, want [[0 0] [1 1]]", vals, err)
	}
	// unchanged behaviour: synchronous inner observables, no inner observable at all
	vals, err = ro.Collect(ro.ZipAll[int64]()(ro.Just(ro.Just[int64](1, 2), ro.Just[int64](3, 4))))
	if err != nil || fmt.Sprint(vals) != "[[1 3] [2 4]]" {
		t.Fatalf("sync: %v %v", vals, err)
	}
	vals, err = ro.Collect(ro.ZipAll[int64]()(ro.Empty[ro.Observable[int64]]()))
	if err != nil || len(vals) != 0 {
		t.Fatalf("empty: %v %v", vals, err)
	}
}

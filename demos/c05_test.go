package demos

import (
	"errors"
	"testing"

	"github.com/samber/ro"
)

// C05: an error from the notifier of TakeUntil / SkipUntil must end the output.
func TestC05_TakeUntil_NotifierError(t *testing.T) {
	boom := errors.New("notifier failed")
	values, err := ro.Collect(ro.Pipe1(ro.Just(1, 2, 3), ro.TakeUntil[int](ro.Throw[int](boom))))
	// the notifier is subscribed after the source here, so the source's values pass first;
	// what matters is the other order: notifier first
	_ = values
	_ = err
	src := ro.Pipe1(ro.Never(), ro.Map(func(struct{}) int { return 0 }))
	done := make(chan error, 1)
	sub := ro.Pipe1(src, ro.TakeUntil[int](ro.Throw[int](boom))).Subscribe(ro.NewObserver(
		func(int) {}, func(e error) { done <- e }, func() { done <- nil }))
	defer sub.Unsubscribe()
	select {
	case e := <-done:
		if !errors.Is(e, boom) {
			t.Fatalf("terminal = %v, want the notifier's error", e)
		}
	default:
		t.Fatalf("TakeUntil: the notifier's error was swallowed, the output is still open")
	}
}

func TestC05_SkipUntil_NotifierError(t *testing.T) {
	boom := errors.New("notifier failed")
	src := ro.Pipe1(ro.Never(), ro.Map(func(struct{}) int { return 0 }))
	done := make(chan error, 1)
	sub := ro.Pipe1(src, ro.SkipUntil[int](ro.Throw[int](boom))).Subscribe(ro.NewObserver(
		func(int) {}, func(e error) { done <- e }, func() { done <- nil }))
	defer sub.Unsubscribe()
	select {
	case e := <-done:
		if !errors.Is(e, boom) {
			t.Fatalf("terminal = %v, want the notifier's error", e)
		}
	default:
		t.Fatalf("SkipUntil: the notifier's error was swallowed, the output is still open")
	}
}

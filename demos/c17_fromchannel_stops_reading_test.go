package demos

import (
	"testing"
	"time"

	"github.com/samber/ro"
)

// C17 (fixed in /repo, cedd78a): "FromChannel ... stops reading when unsubscribed". The reader's select had the caller's
// channel and the done channel as equal cases: after an unsubscription from inside the Next callback both were ready
// and Go picked one at random — a buffered value was received and thrown away in about half of the rounds.
func TestC17FromChannelStopsReadingAfterUnsubscribe(t *testing.T) {
	stolen := 0
	const rounds = 200
	for r := 0; r < rounds; r++ {
		in := make(chan int, 8)
		in <- 1
		in <- 2
		in <- 3
		in <- 4

		var sub ro.Subscription
		ready := make(chan struct{})
		unsubscribed := make(chan struct{})
		sub = ro.FromChannel(in).Subscribe(ro.NewObserver(
			func(v int) {
				<-ready
				sub.Unsubscribe()
				close(unsubscribed)
			},
			func(err error) {},
			func() {},
		))
		close(ready)
		<-unsubscribed
		time.Sleep(2 * time.Millisecond)
		if got := len(in); got != 3 {
			stolen++
		}
	}
	if stolen > 0 {
		t.Fatalf("FromChannel received from its channel after Unsubscribe() returned in %d/%d rounds", stolen, rounds)
	}
}

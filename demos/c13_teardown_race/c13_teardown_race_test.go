package c13_teardown_race

import (
	"sync"
	"testing"
	"time"

	"github.com/samber/ro"
)

// C13 (fixed in /repo, c1bfa13 and 40b57e6; run with -race): Subscription.Unsubscribe is goroutine-safe API and runs
// the operator's teardown on the caller's goroutine while the producer may be inside a callback. GroupBy's teardown
// overwrote its sync.Map (groups = sync.Map{}: data race, and "fatal error: sync: unlock of unlocked mutex");
// BufferWithCount's teardown reset the buffer the producer appends to.

// ro.BufferWithCount: the teardown does `sub.Unsubscribe(); buffer = []T{}`
// (operator_transformations.go:592-596) while the Next callback does
// `buffer = append(buffer, value)` (operator_transformations.go:575).
func TestC13BufferWithCountTeardownRace(t *testing.T) {
	for iter := 0; iter < 200; iter++ {
		subject := ro.NewPublishSubject[int]()
		sub := ro.Pipe1[int, []int](subject, ro.BufferWithCount[int](1000)).Subscribe(ro.NoopObserver[[]int]())

		var wg sync.WaitGroup

		wg.Add(1)

		stop := make(chan struct{})

		go func() {
			defer wg.Done()

			for i := 0; ; i++ {
				select {
				case <-stop:
					return
				default:
				}

				subject.Next(i)
			}
		}()

		time.Sleep(200 * time.Microsecond)
		sub.Unsubscribe() // "thread-safe" API, called from a goroutine that is not the producer
		close(stop)
		wg.Wait()
	}
}

// ro.GroupBy: the teardown (and nothing else synchronises with it) overwrites the
// whole registry with `groups = sync.Map{}` (operator_transformations.go:383-387)
// while the Next callback is using it: `groups.Load(key)` / `groups.Store(key, subject)`
// (operator_transformations.go:357-362). A plain struct assignment over a sync.Map
// that another goroutine is operating on is a data race (and can corrupt the
// internal mutex of the map). The in-flight callback also creates a group in the
// fresh map after the teardown completed all groups: that group is never completed.
//
// The key function sleeps a little so that a notification is in flight when the
// consumer unsubscribes.
func TestC13GroupByTeardownRace(t *testing.T) {
	for iter := 0; iter < 200; iter++ {
		subject := ro.NewPublishSubject[int]()
		sub := ro.Pipe1[int, ro.Observable[int]](
			subject,
			ro.GroupBy(func(v int) int {
				time.Sleep(300 * time.Microsecond)
				return v
			}),
		).Subscribe(ro.NoopObserver[ro.Observable[int]]())

		var wg sync.WaitGroup

		wg.Add(1)

		stop := make(chan struct{})

		go func() {
			defer wg.Done()

			for i := 0; ; i++ {
				select {
				case <-stop:
					return
				default:
				}

				subject.Next(i)
			}
		}()

		time.Sleep(200 * time.Microsecond)
		sub.Unsubscribe()
		close(stop)
		wg.Wait()
	}
}

package demos

import (
	"context"
	"errors"
	"testing"

	"github.com/samber/ro"
)

type ctxKey string

// C09 (fixed in /repo, 0b5d903 and 73e1457): values attached to the context upstream must be visible on the terminal
// notification as well. Retry re-issued its final error with the subscriber context; Last completed with the stored
// context of its last value.
func TestC09RetryFinalErrorKeepsTheAttachedValue(t *testing.T) {
	boom := errors.New("boom")
	var got any
	ro.Pipe2(
		ro.Throw[int](boom),
		ro.ContextWithValue[int](ctxKey("k"), "v"),
		ro.RetryWithConfig[int](ro.RetryConfig{MaxRetries: 1}),
	).SubscribeWithContext(context.Background(), ro.NewObserverWithContext(
		func(ctx context.Context, v int) {},
		func(ctx context.Context, err error) { got = ctx.Value(ctxKey("k")) },
		func(ctx context.Context) {},
	))
	if got != "v" {
		t.Fatalf("the value attached between the source and Retry is lost on the Error: %v", got)
	}
}

func TestC09LastCompletesWithTheCompletionContext(t *testing.T) {
	source := ro.NewObservableWithContext(func(ctx context.Context, destination ro.Observer[int]) ro.Teardown {
		destination.NextWithContext(ctx, 1)
		destination.CompleteWithContext(context.WithValue(ctx, ctxKey("done"), "yes"))
		return nil
	})
	var got any
	ro.Pipe1(source, ro.Last(func(int) bool { return true })).SubscribeWithContext(context.Background(), ro.NewObserverWithContext(
		func(ctx context.Context, v int) {},
		func(ctx context.Context, err error) {},
		func(ctx context.Context) { got = ctx.Value(ctxKey("done")) },
	))
	if got != "yes" {
		t.Fatalf("the value attached to the completion is lost: %v", got)
	}
}

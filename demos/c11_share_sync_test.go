package demos

import (
	"context"
	"fmt"
	"strings"
	"sync"
	"testing"
	"time"

	"github.com/samber/ro"
)

// C11 (fixed in /repo): Share read the shared `sourceSubscription` variable after subscribing the source. A source
// that terminates synchronously resets that variable to nil first, so the subscribe function panicked with a nil
// dereference (recovered into a dropped Error), never returned its teardown, and the reference count stayed one too
// high for ever: when the *next* execution's last subscriber left, the source was not unsubscribed.
func TestC11ShareSynchronousSourceKeepsRefCount(t *testing.T) {
	var mu sync.Mutex
	dropped := []string{}
	old := ro.OnDroppedNotification
	ro.OnDroppedNotification = func(ctx context.Context, n fmt.Stringer) {
		mu.Lock()
		dropped = append(dropped, n.String())
		mu.Unlock()
	}
	defer func() { ro.OnDroppedNotification = old }()

	executions := 0
	released := make(chan struct{}, 1)
	// first execution: completes synchronously; second execution: runs until unsubscribed
	source := ro.NewObservable(func(d ro.Observer[int]) ro.Teardown {
		executions++
		if executions == 1 {
			d.Next(1)
			d.Complete()
			return nil
		}
		d.Next(2)
		return func() { released <- struct{}{} }
	})
	shared := ro.Pipe1(source, ro.Share[int]())

	vals, err := ro.Collect(shared)
	if err != nil || len(vals) != 1 {
		t.Fatalf("first execution: %v %v", vals, err)
	}
	mu.Lock()
	for _, d := range dropped {
		if strings.Contains(d, "nil pointer") {
			t.Errorf("Share's subscribe function panicked: %s", d)
		}
	}
	mu.Unlock()

	sub := shared.Subscribe(ro.NoopObserver[int]())
	sub.Unsubscribe() // the last (only) subscriber leaves: the source must be unsubscribed
	select {
	case <-released:
	case <-time.After(500 * time.Millisecond):
		t.Errorf("the last subscriber left but the source subscription of the second execution is still live (reference count leaked by the first execution)")
	}
}

package demos

import (
	"testing"
	"time"

	"github.com/samber/ro"
)

// C06 (known finding, still FAILS on the current tree): GroupBy's teardown completes the open groups
// synchronously. The consumer of a group receives its notifications under the non-reentrant mutex of its safe
// subscriber; when that consumer unsubscribes the grouped stream from inside its Next callback, the teardown runs on
// the same goroutine, sends Complete to the group and blocks on the mutex held further up the stack:
// "Unsubscribe may be called ... from inside a callback" does not hold, the call never returns.
func TestC06GroupByUnsubscribeFromInsideGroupCallbackReturns(t *testing.T) {
	source := ro.NewPublishSubject[int64]()

	var outer ro.Subscription

	returned := make(chan struct{})

	outer = ro.Pipe1(
		source.AsObservable(),
		ro.GroupBy(func(v int64) int64 { return v % 2 }),
	).Subscribe(ro.OnNext(func(group ro.Observable[int64]) {
		group.Subscribe(ro.OnNext(func(v int64) {
			outer.Unsubscribe()
			close(returned)
		}))
	}))

	go source.Next(42)

	select {
	case <-returned:
	case <-time.After(3 * time.Second):
		t.Fatalf("Unsubscribe() called from inside the group observer never returned (dead-lock on the consumer's subscriber mutex)")
	}
}

// The same through operators only: Take(2) downstream of MergeAll completes - and unsubscribes GroupBy - from inside
// the callback of the consumer of a group; the producer stays blocked in source.Next and Collect never returns.
func TestC06GroupByDownstreamTakeFromInsideGroupCallback(t *testing.T) {
	source := ro.NewPublishSubject[int64]()
	obs := ro.Pipe3(
		source.AsObservable(),
		ro.GroupBy(func(v int64) int64 { return v % 2 }),
		ro.MergeAll[int64](),
		ro.Take[int64](2),
	)
	done := make(chan []int64, 1)
	go func() {
		values, _ := ro.Collect(obs)
		done <- values
	}()
	deadline := time.Now().Add(2 * time.Second)
	for !source.HasObserver() {
		if time.Now().After(deadline) {
			t.Fatalf("chain not subscribed")
		}
		time.Sleep(time.Millisecond)
	}
	go func() {
		source.Next(0)
		source.Next(1)
	}()
	select {
	case values := <-done:
		if len(values) != 2 {
			t.Fatalf("expected 2 values, got %v", values)
		}
	case <-time.After(3 * time.Second):
		t.Fatalf("Collect() still blocked 3s after Take(2) completed the stream")
	}
}

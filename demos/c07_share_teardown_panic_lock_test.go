package demos

import (
	"testing"
	"time"

	"github.com/samber/ro"
)

// C07/C11 (fixed in /repo, 05d8c6c): Share unsubscribed from its source between mu.Lock() and an explicit
// mu.Unlock(). Unsubscribe re-raises the panics of the teardowns it runs: a panicking upstream teardown left Share's
// mutex locked and every later subscription to the shared observable hung.
func TestC07SharePanickingUpstreamTeardownDoesNotWedgeShare(t *testing.T) {
	source := ro.NewObservable(func(destination ro.Observer[int]) ro.Teardown {
		return func() { panic("teardown failed") }
	})
	shared := ro.Share[int]()(source)

	sub1 := shared.Subscribe(ro.NoopObserver[int]())
	func() {
		defer func() { _ = recover() }() // the teardown panic is re-thrown by Unsubscribe: by design
		sub1.Unsubscribe()
	}()

	done := make(chan struct{})
	go func() {
		defer close(done)
		sub2 := shared.Subscribe(ro.NoopObserver[int]())
		defer func() { _ = recover() }()
		sub2.Unsubscribe()
	}()
	select {
	case <-done:
	case <-time.After(2 * time.Second):
		t.Fatalf("subscribing to the shared observable hangs after an upstream teardown panicked")
	}
}

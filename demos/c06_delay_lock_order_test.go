package demos

import (
	"testing"
	"time"

	"github.com/samber/ro"
)

// C06 (fixed in /repo, 1e3aab5): a Delay timer callback held the queue lock while it waited for the delivery lock, and
// Delay's teardown takes the queue lock. Take(1) completing inside a delayed notification ran the teardown under the
// delivery lock while a second timer held the queue lock and waited for the delivery lock: Collect hung although the
// observer had already received Complete.
func TestC06DelayThenTakeCollectReturns(t *testing.T) {
	for i := 0; i < 50; i++ {
		done := make(chan []int, 1)
		go func() {
			values, _ := ro.Collect(ro.Pipe2(ro.Just(1, 2, 3, 4, 5, 6), ro.Delay[int](5*time.Millisecond), ro.Take[int](1)))
			done <- values
		}()
		select {
		case values := <-done:
			if len(values) != 1 || values[0] != 1 {
				t.Fatalf("unexpected values: %v", values)
			}
		case <-time.After(2 * time.Second):
			t.Fatalf("iteration %d: Collect hangs although the stream completed", i)
		}
	}
}

package demosplugins

import (
	"encoding/csv"
	"errors"
	"testing"

	"github.com/samber/ro"
	rocsv "github.com/samber/ro/plugins/encoding/csv"
)

type failingWriter struct{ err error }

func (w failingWriter) Write(p []byte) (int, error) { return 0, w.err }

// C18/C07 (fixed in /repo, ee60206): csv.Writer buffers, so an I/O failure shows up at Flush time only and is reported
// through writer.Error(). NewCSVWriter flushed and completed without asking: nothing could be written, yet the sink
// emitted the row count and Complete.
func TestC18_CSVWriter_FlushErrorReachesTheSubscriber(t *testing.T) {
	boom := errors.New("disk full")
	w := csv.NewWriter(failingWriter{err: boom})
	values, err := ro.Collect(rocsv.NewCSVWriter(w)(ro.Just([]string{"a", "b"}, []string{"c", "d"})))
	if !errors.Is(err, boom) {
		t.Fatalf("nothing could be written, yet the sink reports success: values=%v err=%v", values, err)
	}
}

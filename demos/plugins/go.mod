module demosplugins

go 1.18

require (
	github.com/samber/ro v0.0.0
	github.com/samber/ro/plugins/bytes v0.0.0
	github.com/samber/ro/plugins/encoding/csv v0.0.0
	github.com/samber/ro/plugins/sort v0.0.0
	github.com/samber/ro/plugins/stdio v0.0.0
	github.com/samber/ro/plugins/strings v0.0.0
	golang.org/x/exp v0.0.0-20240613232115-7f521ea00fb8
)

require (
	github.com/samber/lo v1.52.0 // indirect
	golang.org/x/text v0.22.0 // indirect
)

replace github.com/samber/ro => /repo

replace github.com/samber/ro/plugins/bytes => /repo/plugins/bytes

replace github.com/samber/ro/plugins/strings => /repo/plugins/strings

replace github.com/samber/ro/plugins/sort => /repo/plugins/sort

replace github.com/samber/ro/plugins/stdio => /repo/plugins/stdio

replace github.com/samber/ro/plugins/encoding/csv => /repo/plugins/encoding/csv

package demosplugins

import (
	"bytes"
	"strings"
	"testing"

	"github.com/samber/ro"
	robytes "github.com/samber/ro/plugins/bytes"
	rosort "github.com/samber/ro/plugins/sort"
	rostdio "github.com/samber/ro/plugins/stdio"
	rostrings "github.com/samber/ro/plugins/strings"
)

type item struct{ key, seq int }

// C18: SortStableFunc must keep the input order of elements that compare equal.
func TestC18_SortStableFunc_IsStable(t *testing.T) {
	var in []item
	for i := 0; i < 200; i++ {
		in = append(in, item{key: i % 3, seq: i})
	}
	out, err := ro.Collect(ro.Pipe1(ro.FromSlice(in), rosort.SortStableFunc(func(a, b item) int { return a.key - b.key })))
	if err != nil {
		t.Fatal(err)
	}
	for i := 1; i < len(out); i++ {
		if out[i-1].key == out[i].key && out[i-1].seq > out[i].seq {
			t.Fatalf("elements with equal key %d were reordered: seq %d before seq %d", out[i].key, out[i-1].seq, out[i].seq)
		}
	}
}

// C18: the byte reader must not overwrite a chunk it has already delivered.
func TestC18_NewIOReader_DeliveredChunkNotOverwritten(t *testing.T) {
	input := strings.Repeat("a", rostdio.IOReaderBufferSize) + strings.Repeat("b", rostdio.IOReaderBufferSize)
	chunks, err := ro.Collect(rostdio.NewIOReader(strings.NewReader(input)))
	if err != nil {
		t.Fatal(err)
	}
	var all []byte
	for _, c := range chunks {
		all = append(all, c...)
	}
	if string(all) != input {
		t.Fatalf("concatenation of the delivered chunks differs from the input: first chunk now starts with %q", chunks[0][:4])
	}
}

// C18: Ellipsis must not modify the value it was handed.
func TestC18_BytesEllipsis_DoesNotMutateInput(t *testing.T) {
	in := []byte("hello world")
	orig := string(in)
	_, err := ro.Collect(ro.Pipe1(ro.Just(in), robytes.Ellipsis[[]byte](8)))
	if err != nil {
		t.Fatal(err)
	}
	if string(in) != orig {
		t.Fatalf("input was modified: %q -> %q", orig, in)
	}
}

// C18: the byte and the string flavour of Words agree on the same text.
func TestC18_Words_FlavoursAgree(t *testing.T) {
	text := "héllo wörld"
	sw, _ := ro.Collect(ro.Pipe1(ro.Just(text), rostrings.Words[string]()))
	bw, _ := ro.Collect(ro.Pipe1(ro.Just([]byte(text)), robytes.Words[[]byte]()))
	var s, b []string
	for _, w := range sw[0] {
		s = append(s, w)
	}
	for _, w := range bw[0] {
		b = append(b, string(w))
	}
	if strings.Join(s, "|") != strings.Join(b, "|") {
		t.Fatalf("strings.Words=%q bytes.Words=%q", s, b)
	}
	_ = bytes.Equal
}

package demosplugins

import (
	"errors"
	"strings"
	"testing"
	"testing/iotest"

	"github.com/samber/ro"
	rostdio "github.com/samber/ro/plugins/stdio"
)

type dataThenErr struct {
	done bool
	err  error
}

func (r *dataThenErr) Read(p []byte) (int, error) {
	if r.done {
		return 0, r.err
	}
	r.done = true
	return copy(p, "hello"), r.err
}

// C18 (fixed in /repo, 25a6526): NewIOReader tested the error of Read before looking at the bytes read, so the last
// chunk of a reader that returns data together with io.EOF (or with a failure) was dropped: "the byte and line readers
// emit chunks whose concatenation is the input".
func TestC18_IOReader_DataReturnedWithEOF(t *testing.T) {
	values, err := ro.Collect(rostdio.NewIOReader(iotest.DataErrReader(strings.NewReader("hello"))))
	if err != nil {
		t.Fatal(err)
	}
	got := ""
	for _, v := range values {
		got += string(v)
	}
	if got != "hello" {
		t.Fatalf("expected hello, got %q", got)
	}
}

func TestC18_IOReader_DataReturnedWithFailure(t *testing.T) {
	boom := errors.New("disk failure")
	values, err := ro.Collect(rostdio.NewIOReader(&dataThenErr{err: boom}))
	if !errors.Is(err, boom) {
		t.Fatalf("expected boom, got %v", err)
	}
	got := ""
	for _, v := range values {
		got += string(v)
	}
	if got != "hello" {
		t.Fatalf("the bytes read before the failure are lost: got %q", got)
	}
}

package demosplugins

import (
	"strings"
	"testing"

	"github.com/samber/ro"
	rostdio "github.com/samber/ro/plugins/stdio"
)

// C18 (fixed in /repo, 2db6559): NewIOReaderLine discarded the isPrefix result of (*bufio.Reader).ReadLine: a line
// longer than the reader's buffer (4096 bytes) was emitted as several lines.
func TestC18_IOReaderLine_LongLineIsOneLine(t *testing.T) {
	long := strings.Repeat("x", 10000)
	values, err := ro.Collect(rostdio.NewIOReaderLine(strings.NewReader(long + "\nshort\n")))
	if err != nil {
		t.Fatal(err)
	}
	if len(values) != 2 || string(values[0]) != long || string(values[1]) != "short" {
		lens := []int{}
		for _, v := range values {
			lens = append(lens, len(v))
		}
		t.Fatalf("expected 2 lines (10000 and 5 bytes), got %d lines of lengths %v", len(values), lens)
	}
}

package demos

import (
	"context"
	"errors"
	"sync/atomic"
	"testing"
	"time"

	"github.com/samber/ro"
)

// subscribeReturns reports whether Subscribe on obs returns within d.
func subscribeReturns(obs ro.Observable[int64], d time.Duration) bool {
	done := make(chan struct{})
	go func() {
		sub := obs.Subscribe(ro.NoopObserver[int64]())
		_ = sub
		close(done)
	}()
	select {
	case <-done:
		return true
	case <-time.After(d):
		return false
	}
}

// C14 (known findings): operators that wait inside Subscribe are not cancelled by an
// early-completing downstream operator.
func TestC14_Concat_Take(t *testing.T) {
	p := ro.Pipe1(ro.Concat(ro.Interval(time.Millisecond), ro.Just[int64](7)), ro.Take[int64](2))
	if !subscribeReturns(p, 500*time.Millisecond) {
		t.Fatalf("Concat(Interval, ...) | Take(2): Subscribe is still blocked 500ms after Take completed")
	}
}

func TestC14_Retry_Take(t *testing.T) {
	var subs int64
	src := ro.NewUnsafeObservableWithContext(func(ctx context.Context, d ro.Observer[int64]) ro.Teardown {
		atomic.AddInt64(&subs, 1)
		d.NextWithContext(ctx, 1)
		d.ErrorWithContext(ctx, errors.New("again"))
		return nil
	})
	p := ro.Pipe2(src, ro.Retry[int64](), ro.Take[int64](1))
	if !subscribeReturns(p, 500*time.Millisecond) {
		t.Fatalf("Retry | Take(1): Subscribe still running after Take completed; %d upstream subscriptions so far", atomic.LoadInt64(&subs))
	}
}

func TestC14_RepeatWith_Take(t *testing.T) {
	p := ro.Pipe2(ro.Interval(time.Millisecond), ro.RepeatWith[int64](2), ro.Take[int64](2))
	if !subscribeReturns(p, 500*time.Millisecond) {
		t.Fatalf("Interval | RepeatWith(2) | Take(2): Subscribe is still blocked after Take completed")
	}
}

func TestC14_SubscribeOn_Take(t *testing.T) {
	p := ro.Pipe2(ro.Interval(time.Millisecond), ro.SubscribeOn[int64](4), ro.Take[int64](2))
	if !subscribeReturns(p, 500*time.Millisecond) {
		t.Fatalf("Interval | SubscribeOn | Take(2): Subscribe is still blocked after Take completed")
	}
}

package demos

import (
	"testing"
	"time"

	"github.com/samber/ro"
)

// C07 (fixed in /repo, 94e2a8b): publish/behavior/replay/async subjects broadcast their terminal notification under
// s.mu and released it with an explicit Unlock. A subscriber runs its teardowns inside the terminal notification and
// Unsubscribe re-raises their panics: one panicking teardown left the subject mutex held for ever ("never leaves a
// lock held or a subject ... unusable").
func TestC07SubjectUsableAfterTeardownPanicInsideComplete(t *testing.T) {
	for name, subject := range map[string]ro.Subject[int]{
		"publish":  ro.NewPublishSubject[int](),
		"behavior": ro.NewBehaviorSubject(0),
		"replay":   ro.NewReplaySubject[int](2),
		"async":    ro.NewAsyncSubject[int](),
	} {
		subject.Subscribe(ro.NoopObserver[int]()).Add(func() { panic("boom") })

		func() {
			defer func() { _ = recover() }()
			subject.Complete()
		}()

		if !returnsWithin(2*time.Second, func() { _ = subject.IsCompleted() }) {
			t.Errorf("%s: subject mutex never released after a subscriber's teardown panicked inside Complete()", name)
		}
	}
}

package demos

import (
	"fmt"
	"testing"
	"time"

	"github.com/samber/lo"
	"github.com/samber/ro"
)

// C06/C03 (fixed in /repo): Zip's onUpdate sent Complete to the destination while holding its mutex, and Zip's
// teardown takes the same mutex ("free memory"). When the completion comes from a source that notifies after the
// subscribe function returned (any asynchronous source), the destination runs the teardown synchronously inside
// Complete: the goroutine dead-locks, the subscription never closes, Wait/Collect hang on a terminated stream.
func TestC06ZipCompletionDoesNotDeadlockItsTeardown(t *testing.T) {
	type result struct {
		vals []lo.Tuple2[int, int64]
		err  error
	}
	out := make(chan result, 1)
	go func() {
		a := ro.Just(1, 2)
		b := ro.Pipe1(ro.Interval(5*time.Millisecond), ro.Take[int64](5))
		vals, err := ro.Collect(ro.Zip2(a, b))
		out <- result{vals, err}
	}()
	select {
	case r := <-out:
		if r.err != nil || fmt.Sprint(r.vals) != "[{1 0} {2 1}]" {
			t.Fatalf("got %v %v", r.vals, r.err)
		}
	case <-time.After(2 * time.Second):
		t.Fatalf("Collect(Zip2(Just(1,2), Interval.Take(5))) did not return: the stream completed but its subscription never closed (teardown dead-locked on the operator's own mutex)")
	}
}

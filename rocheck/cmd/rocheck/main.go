// Command rocheck decides the /verif properties of samber/ro by static analysis of /repo.
package main

import (
	"encoding/json"
	"flag"
	"fmt"
	"os"
	"path/filepath"
	"sort"
	"strconv"
	"strings"
	"time"

	"rocheck/internal/check"
	"rocheck/internal/load"
	"rocheck/internal/model"
	"rocheck/internal/rules"
)

func main() {
	prop := flag.String("prop", "", "property id (C01..C20)")
	tier := flag.String("tier", "quick", "quick|thorough")
	repo := flag.String("repo", "/repo", "repository root")
	verif := flag.String("verif", "", "verif root (default: directory containing bin/)")
	dump := flag.String("dump", "", "dump the model of SCs whose name contains this string ('all')")
	explain := flag.String("explain", "", "print a report file")
	noControls := flag.Bool("no-controls", false, "do not inject positive controls (debug)")
	verbose := flag.Bool("v", false, "print every non-ok obligation")
	all := flag.Bool("all", false, "print every obligation")
	exploreKind := flag.String("explore-kind", "swap", "swap|delete")
	explorePkg := flag.String("explore-pkg", "", "explore packages whose path contains this string instead of package ro (e.g. plugins/, ee/plugins/prometheus)")
	explore := flag.String("explore", "", "development aid: statement-swap mutants of functions whose name contains this string ('all'); prints the ones no rule reports")
	listRules := flag.Bool("list-rules", false, "print property id -> rule names as JSON and exit")
	flag.Parse()

	if *listRules {
		out := map[string][]string{}
		for _, id := range rules.IDs() {
			for _, r := range rules.ByID(id).Rules {
				out[id] = append(out[id], r.Name)
			}
		}
		b, _ := json.MarshalIndent(out, "", " ")
		os.Stdout.Write(b)
		return
	}
	if *explain != "" {
		b, err := os.ReadFile(*explain)
		if err != nil {
			fmt.Println(err)
			os.Exit(2)
		}
		os.Stdout.Write(b)
		return
	}
	vroot := *verif
	if vroot == "" {
		exe, _ := os.Executable()
		vroot = filepath.Dir(filepath.Dir(exe))
	}
	if env := os.Getenv("VERIF_TIER"); env != "" && *tier == "" {
		*tier = env
	}
	seed := int64(0)
	if s := os.Getenv("VERIF_SEED"); s != "" {
		seed, _ = strconv.ParseInt(s, 10, 64)
	}

	if *explore != "" {
		pats := rules.CorePatterns
		if *explorePkg != "" {
			pats = rules.AllPatterns()
		}
		prog, err := load.Load(load.Config{Repo: *repo, Patterns: pats})
		die(err)
		m, err := model.Build(prog)
		die(err)
		f := *explore
		if f == "all" {
			f = ""
		}
		rules.Explore(m, *repo, f, *exploreKind, *explorePkg)
		return
	}
	if *dump != "" {
		prog, err := load.Load(load.Config{Repo: *repo, Patterns: rules.AllPatterns()})
		die(err)
		m, err := model.Build(prog)
		die(err)
		for _, sc := range m.SCs {
			if *dump == "all" || strings.Contains(sc.String(), *dump) {
				dumpSC(m, sc)
			}
		}
		return
	}

	p := rules.ByID(*prop)
	if p == nil {
		fmt.Printf("unknown property %q; known: %s\n", *prop, strings.Join(rules.IDs(), " "))
		os.Exit(2)
	}
	t0 := time.Now()
	overlay := map[string][]byte{}
	if !*noControls {
		for rel, src := range p.Controls {
			overlay[filepath.Join(*repo, rel)] = []byte(src)
		}
	}
	prog, err := load.Load(load.Config{Repo: *repo, Patterns: p.Patterns, Overlay: overlay})
	if err != nil {
		fail(p.ID, vroot, "load failed: "+err.Error())
	}
	m, err := model.Build(prog)
	if err != nil {
		fail(p.ID, vroot, "model failed: "+err.Error())
	}
	known, err := check.LoadKnown(filepath.Join(vroot, "KNOWN_FINDINGS.txt"))
	if err != nil {
		fail(p.ID, vroot, err.Error())
	}
	out := check.Run(p, m, *tier, known)
	if *tier == "thorough" && p.Thorough != nil {
		p.Thorough(out, m, *repo, seed)
	}
	report, err := out.WriteReport(filepath.Join(vroot, "reports"))
	die(err)
	die(out.WriteEvidence(filepath.Join(vroot, "evidence", p.ID+".json"), seed, time.Since(t0)))

	nOK := 0
	for _, o := range out.Obs {
		if o.Verdict == check.OK && !o.Control {
			nOK++
		}
	}
	fmt.Printf("%s tier=%s packages=%d SCs=%d obligations=%d ok=%d violations=%d known=%d undecided=%d wall=%.1fs\n",
		p.ID, *tier, len(prog.Roots), len(m.SCs), len(out.Obs), nOK, len(out.Violations), len(out.KnownHit), len(out.Undecided), time.Since(t0).Seconds())
	var rn []string
	for _, r := range p.Rules {
		rn = append(rn, fmt.Sprintf("%s(ctl=%d)", r.Name, out.ControlHits[r.Name]))
	}
	fmt.Println("rules:", strings.Join(rn, " "))
	keys := make([]string, 0, len(out.Count))
	for k := range out.Count {
		keys = append(keys, k)
	}
	sort.Strings(keys)
	for _, k := range keys {
		fmt.Printf("  count %s=%d\n", k, out.Count[k])
	}
	for _, k := range out.KnownHit {
		kn := ""
		for _, e := range known {
			if e.Key == k.Key && e.Property == p.ID {
				kn = e.Text
			}
		}
		fmt.Printf("KNOWN-FINDING: property=%s %s at %s — %s\n", p.ID, k.Key, k.Pos, kn)
	}
	for _, s := range out.Stale {
		fmt.Printf("STALE: listed finding no longer observed: property=%s key=%s\n", s.Property, s.Key)
	}
	if *verbose || out.Failed() {
		for _, o := range out.Violations {
			fmt.Printf("  violation [%s] %s at %s: %s\n", o.Rule, o.Key, o.Pos, o.Msg)
		}
		for _, o := range out.Undecided {
			fmt.Printf("  undecided [%s] %s at %s: %s\n", o.Rule, o.Key, o.Pos, o.Msg)
		}
		for _, b := range out.Broken {
			fmt.Printf("  broken: %s\n", b)
		}
	}
	if *all {
		for _, o := range out.Obs {
			fmt.Printf("  %s [%s] %s at %s: %s\n", o.Verdict, o.Rule, o.Key, o.Pos, o.Msg)
		}
	}
	if *verbose {
		for _, o := range out.Obs {
			if o.Verdict == check.Info && !o.Control {
				fmt.Printf("  info [%s] %s at %s: %s\n", o.Rule, o.Key, o.Pos, o.Msg)
			}
		}
	}
	if out.Failed() {
		fmt.Printf("VIOLATION property=%s replay=%s\n", p.ID, report)
		os.Exit(1)
	}
}

func die(err error) {
	if err != nil {
		fmt.Println("rocheck:", err)
		os.Exit(2)
	}
}

// fail reports a framework failure as a failing check (never a silent pass).
func fail(id, vroot, msg string) {
	dir := filepath.Join(vroot, "reports")
	_ = os.MkdirAll(dir, 0o755)
	path := filepath.Join(dir, id+".txt")
	_ = os.WriteFile(path, []byte("BROKEN CHECK: "+msg+"\n"), 0o644)
	fmt.Println("rocheck:", msg)
	fmt.Printf("VIOLATION property=%s replay=%s\n", id, path)
	os.Exit(1)
}

func dumpSC(m *model.Model, sc *model.SC) {
	fmt.Printf("== %s mode=%s ctor=%s at %s app=%v frames=%d\n", sc, sc.Mode, sc.Ctor.Fn.Name(), m.Prog.Rel(sc.Lit.Pos()), sc.App != nil, sc.Frames)
	for _, c := range sc.Ctxs {
		fmt.Printf("   ctx %d %s parent=%v pslot=%d loop=%v awaited=%v rec=%v\n", c.ID, c.Kind, c.Parent != nil && true, c.ParentSlot, c.InLoop, c.Awaited, c.Recovered)
	}
	for _, s := range sc.SubSites {
		obs := "?"
		if s.Observer != nil {
			obs = fmt.Sprint(s.Observer.Kind)
		}
		fmt.Printf("   sub  %s %s src=%d obs=%s pass=%v loop=%v at %s\n", s.Key, s.Method, s.Src.ID, obs, s.PassThru, s.InLoop, m.Prog.Rel(s.Pos))
	}
	for _, e := range sc.Emits {
		fmt.Printf("   emit %s dest=%v fwd=%v defer=%v loop=%v at %s\n", e.Key, e.ToDest, e.Forwarder, e.Deferred, e.InLoop, m.Prog.Rel(e.Pos))
	}
	for _, u := range sc.UserCalls {
		fmt.Printf("   user %s at %s\n", u.Key, m.Prog.Rel(u.Pos))
	}
	for _, g := range sc.Gos {
		fmt.Printf("   go   ctx=%s rec=%v at %s\n", model.CtxKey(g.Ctx, g.Slot), g.Recovered, m.Prog.Rel(g.Pos))
	}
	for _, t := range sc.Timers {
		fmt.Printf("   timer %s ctx=%s at %s\n", t.Fn, model.CtxKey(t.Ctx, t.Slot), m.Prog.Rel(t.Pos))
	}
	for _, b := range sc.Blocks {
		fmt.Printf("   block %s ctx=%s loop=%v at %s\n", b.What, model.CtxKey(b.Ctx, b.Slot), b.InLoop, m.Prog.Rel(b.Pos))
	}
	for _, o := range sc.SubOps {
		fmt.Printf("   subop %s ctx=%s at %s\n", o.Method, model.CtxKey(o.Ctx, o.Slot), m.Prog.Rel(o.Pos))
	}
	for _, t := range sc.Teardowns {
		fmt.Printf("   teardown kind=%d at %s\n", t.Val.Kind, m.Prog.Rel(t.Pos))
	}
	for _, d := range sc.Inlined {
		fmt.Printf("   inlined %s\n", d.Name.Name)
	}
	for _, u := range sc.Unknown {
		fmt.Printf("   UNKNOWN %s\n", u)
	}
}

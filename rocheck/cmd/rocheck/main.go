package main

import (
	"flag"
	"fmt"
	"os"
	"strings"
	"time"

	"rocheck/internal/load"
	"rocheck/internal/model"
)

var corePatterns = []string{"github.com/samber/ro", "github.com/samber/ro/internal/..."}
var pluginPatterns = []string{
	"github.com/samber/ro/ee/plugins/prometheus",
	"github.com/samber/ro/plugins/bytes", "github.com/samber/ro/plugins/strings", "github.com/samber/ro/plugins/strconv",
	"github.com/samber/ro/plugins/regexp", "github.com/samber/ro/plugins/time", "github.com/samber/ro/plugins/template",
	"github.com/samber/ro/plugins/encoding/base64", "github.com/samber/ro/plugins/encoding/json", "github.com/samber/ro/plugins/encoding/gob",
	"github.com/samber/ro/plugins/encoding/csv", "github.com/samber/ro/plugins/sort", "github.com/samber/ro/plugins/stdio",
	"github.com/samber/ro/plugins/ratelimit/native", "github.com/samber/ro/plugins/ratelimit/ulule",
}

func main() {
	dump := flag.String("dump", "", "dump the model of SCs whose name contains this string ('all' for everything)")
	flag.Parse()
	t0 := time.Now()
	prog, err := load.Load(load.Config{Patterns: append(append([]string{}, corePatterns...), pluginPatterns...)})
	if err != nil {
		fmt.Println("ERR", err)
		os.Exit(2)
	}
	m, err := model.Build(prog)
	if err != nil {
		fmt.Println("ERR", err)
		os.Exit(2)
	}
	fmt.Println(len(prog.ByPath), "packages", len(m.SCs), "SCs", time.Since(t0))
	if *dump != "" {
		for _, sc := range m.SCs {
			if *dump != "all" && !strings.Contains(sc.String(), *dump) {
				continue
			}
			dumpSC(m, sc)
		}
	}
}

func dumpSC(m *model.Model, sc *model.SC) {
	fmt.Printf("== %s mode=%s ctor=%s at %s app=%v frames=%d\n", sc, sc.Mode, sc.Ctor.Fn.Name(), m.Prog.Rel(sc.Lit.Pos()), sc.App != nil, sc.Frames)
	for _, c := range sc.Ctxs {
		fmt.Printf("   ctx %d %s parent=%v pslot=%d loop=%v awaited=%v rec=%v\n", c.ID, c.Kind, c.Parent != nil && true, c.ParentSlot, c.InLoop, c.Awaited, c.Recovered)
	}
	for _, s := range sc.SubSites {
		obs := "?"
		if s.Observer != nil {
			obs = fmt.Sprint(s.Observer.Kind)
		}
		fmt.Printf("   sub  %s %s src=%d obs=%s pass=%v loop=%v at %s\n", s.Key, s.Method, s.Src.ID, obs, s.PassThru, s.InLoop, m.Prog.Rel(s.Pos))
	}
	for _, e := range sc.Emits {
		fmt.Printf("   emit %s dest=%v fwd=%v defer=%v loop=%v at %s\n", e.Key, e.ToDest, e.Forwarder, e.Deferred, e.InLoop, m.Prog.Rel(e.Pos))
	}
	for _, u := range sc.UserCalls {
		fmt.Printf("   user %s at %s\n", u.Key, m.Prog.Rel(u.Pos))
	}
	for _, g := range sc.Gos {
		fmt.Printf("   go   ctx=%s rec=%v at %s\n", model.CtxKey(g.Ctx, g.Slot), g.Recovered, m.Prog.Rel(g.Pos))
	}
	for _, t := range sc.Timers {
		fmt.Printf("   timer %s ctx=%s at %s\n", t.Fn, model.CtxKey(t.Ctx, t.Slot), m.Prog.Rel(t.Pos))
	}
	for _, b := range sc.Blocks {
		fmt.Printf("   block %s ctx=%s loop=%v at %s\n", b.What, model.CtxKey(b.Ctx, b.Slot), b.InLoop, m.Prog.Rel(b.Pos))
	}
	for _, o := range sc.SubOps {
		fmt.Printf("   subop %s ctx=%s at %s\n", o.Method, model.CtxKey(o.Ctx, o.Slot), m.Prog.Rel(o.Pos))
	}
	for _, t := range sc.Teardowns {
		fmt.Printf("   teardown kind=%d at %s\n", t.Val.Kind, m.Prog.Rel(t.Pos))
	}
	for _, d := range sc.Inlined {
		fmt.Printf("   inlined %s\n", d.Name.Name)
	}
	for _, u := range sc.Unknown {
		fmt.Printf("   UNKNOWN %s\n", u)
	}
}

// Package check is the rule framework: obligations keyed by rule+construct, verdicts,
// positive controls, known findings, evidence.
package check

import (
	"bufio"
	"encoding/json"
	"fmt"
	"go/token"
	"os"
	"path/filepath"
	"sort"
	"strings"
	"time"

	"rocheck/internal/load"
	"rocheck/internal/model"
)

type Verdict string

const (
	OK        Verdict = "ok"
	Violation Verdict = "violation"
	Undecided Verdict = "undecided"
	Info      Verdict = "info"
)

// Obligation is one rule instance.
type Obligation struct {
	Rule    string  `json:"rule"`
	Key     string  `json:"key"` // rule + construct; never a line number
	Pos     string  `json:"pos"`
	Verdict Verdict `json:"verdict"`
	Msg     string  `json:"msg,omitempty"`
	Control bool    `json:"control,omitempty"`
}

// Rule is a named check over the model.
type Rule struct {
	Name        string
	Doc         string
	Run         func(c *Ctx)
	NeedControl bool     // the rule must report at least one violation on the injected control code
	FamilyShape bool     // recognises one coding pattern: absence is not an alarm, no floor
	ExtraScope  []string // packages armed for this rule in addition to the property's scope
}

// Property groups the rules that decide (a clause of) one property.
type Property struct {
	ID          string
	Title       string
	Patterns    []string // packages to load
	Scope       []string // armed package paths; others are INFO only
	Rules       []Rule
	Explanation string
	NotDecided  string
	Assumptions []string
	Floors      map[string]int    // model-level counts that must be reached (vacuity guard)
	Controls    map[string]string // overlay files (path relative to the repo -> source) with deliberately violating code
	// Thorough, when set, runs the deeper exploration of the thorough tier (mutation sweep) and
	// records its results into the outcome.
	Thorough func(out *Outcome, m *model.Model, repo string, seed int64)
}

// Ctx is what a rule sees.
type Ctx struct {
	M     *model.Model
	Prog  *load.Program
	Prop  *Property
	Tier  string
	Scope map[string]bool
	rule  *Rule
	Obs   []Obligation
	Count map[string]int
	Notes []string
}

const ControlPrefix = "verifControl"

// IsControlName reports whether a declaration name belongs to injected control code.
func IsControlName(name string) bool { return strings.Contains(name, ControlPrefix) }

func (c *Ctx) add(v Verdict, key string, pos token.Pos, format string, args ...any) {
	o := Obligation{Rule: c.rule.Name, Key: c.rule.Name + ":" + key, Pos: c.Prog.Rel(pos), Verdict: v, Msg: fmt.Sprintf(format, args...)}
	o.Control = IsControlName(key)
	c.Obs = append(c.Obs, o)
}

func (c *Ctx) OK(key string, pos token.Pos, format string, args ...any) {
	c.add(OK, key, pos, format, args...)
}
func (c *Ctx) Violation(key string, pos token.Pos, format string, args ...any) {
	c.add(Violation, key, pos, format, args...)
}
func (c *Ctx) Undecided(key string, pos token.Pos, format string, args ...any) {
	c.add(Undecided, key, pos, format, args...)
}
func (c *Ctx) Info(key string, pos token.Pos, format string, args ...any) {
	c.add(Info, key, pos, format, args...)
}

// Report adds a violation when armed (package in scope), an info otherwise.
func (c *Ctx) Report(armed bool, key string, pos token.Pos, format string, args ...any) {
	if armed || IsControlName(key) {
		c.add(Violation, key, pos, format, args...)
	} else {
		c.add(Info, key, pos, "(out of armed scope) "+format, args...)
	}
}

// Armed reports whether the SC's package is in the armed scope of the property.
func (c *Ctx) Armed(sc *model.SC) bool { return c.ArmedPkg(sc.Pkg.PkgPath) }

// ArmedPkg reports whether a package path is armed.
func (c *Ctx) ArmedPkg(path string) bool {
	if c.Scope[path] {
		return true
	}
	if c.rule != nil {
		for _, p := range c.rule.ExtraScope {
			if p == path {
				return true
			}
		}
	}
	return false
}

// Inc increments a model-level counter (printed in the evidence, checked against floors).
func (c *Ctx) Inc(name string, n int) { c.Count[name] += n }

// Note adds a free-text line to the evidence.
func (c *Ctx) Note(format string, args ...any) {
	c.Notes = append(c.Notes, fmt.Sprintf(format, args...))
}

// ---------------------------------------------------------------------------
// known findings

type Known struct {
	Kind     string // finding | fixed
	Property string
	Key      string
	Text     string
}

func LoadKnown(path string) ([]Known, error) {
	f, err := os.Open(path)
	if err != nil {
		if os.IsNotExist(err) {
			return nil, nil
		}
		return nil, err
	}
	defer f.Close()
	var out []Known
	sc := bufio.NewScanner(f)
	sc.Buffer(make([]byte, 1<<20), 1<<20)
	for sc.Scan() {
		line := strings.TrimSpace(sc.Text())
		if line == "" || strings.HasPrefix(line, "#") {
			continue
		}
		var k Known
		switch {
		case strings.HasPrefix(line, "finding:"):
			k.Kind = "finding"
			line = strings.TrimSpace(strings.TrimPrefix(line, "finding:"))
		case strings.HasPrefix(line, "fixed:"):
			k.Kind = "fixed"
			line = strings.TrimSpace(strings.TrimPrefix(line, "fixed:"))
		default:
			return nil, fmt.Errorf("known findings: unparsable line %q", line)
		}
		fields := strings.Fields(line)
		rest := []string{}
		for _, fl := range fields {
			switch {
			case strings.HasPrefix(fl, "property=") && k.Property == "":
				k.Property = strings.TrimPrefix(fl, "property=")
			case strings.HasPrefix(fl, "key=") && k.Key == "" && k.Kind == "finding":
				k.Key = strings.TrimPrefix(fl, "key=")
			default:
				rest = append(rest, fl)
			}
		}
		k.Text = strings.Join(rest, " ")
		if k.Property == "" || (k.Kind == "finding" && k.Key == "") {
			return nil, fmt.Errorf("known findings: line lacks property=/key=: %q", line)
		}
		out = append(out, k)
	}
	return out, sc.Err()
}

// ---------------------------------------------------------------------------
// running a property

type Outcome struct {
	Prop        *Property
	Tier        string
	Obs         []Obligation
	Count       map[string]int
	Notes       []string
	Violations  []Obligation // not listed as known
	KnownHit    []Obligation
	Undecided   []Obligation
	Broken      []string // framework failures: missing control hits, floors, load errors
	Stale       []Known
	ControlHits map[string]int
	Wall        time.Duration
	Extra       map[string]any
}

// Run executes all rules of a property over the model.
func Run(p *Property, m *model.Model, tier string, known []Known) *Outcome {
	t0 := time.Now()
	c := &Ctx{M: m, Prog: m.Prog, Prop: p, Tier: tier, Scope: map[string]bool{}, Count: map[string]int{}}
	for _, s := range p.Scope {
		c.Scope[s] = true
	}
	out := &Outcome{Prop: p, Tier: tier, ControlHits: map[string]int{}, Extra: map[string]any{}}
	for i := range p.Rules {
		r := &p.Rules[i]
		c.rule = r
		func() {
			defer func() {
				if e := recover(); e != nil {
					out.Broken = append(out.Broken, fmt.Sprintf("rule %s panicked: %v", r.Name, e))
				}
			}()
			r.Run(c)
		}()
	}
	out.Obs, out.Count, out.Notes = c.Obs, c.Count, c.Notes
	sort.SliceStable(out.Obs, func(i, j int) bool { return out.Obs[i].Key < out.Obs[j].Key })
	knownKeys := map[string]*Known{}
	hit := map[string]bool{}
	for i := range known {
		if known[i].Kind == "finding" && known[i].Property == p.ID {
			knownKeys[known[i].Key] = &known[i]
		}
	}
	for _, o := range out.Obs {
		if o.Control {
			if o.Verdict == Violation {
				out.ControlHits[o.Rule]++
			}
			continue
		}
		switch o.Verdict {
		case Violation:
			if knownKeys[o.Key] != nil {
				hit[o.Key] = true
				out.KnownHit = append(out.KnownHit, o)
			} else {
				out.Violations = append(out.Violations, o)
			}
		case Undecided:
			out.Undecided = append(out.Undecided, o)
		}
	}
	for k, kn := range knownKeys {
		if !hit[k] {
			out.Stale = append(out.Stale, *kn)
		}
	}
	for _, r := range p.Rules {
		if r.NeedControl && out.ControlHits[r.Name] == 0 {
			out.Broken = append(out.Broken, fmt.Sprintf("rule %s did not fire on its positive control", r.Name))
		}
	}
	for name, floor := range p.Floors {
		if out.Count[name] < floor {
			out.Broken = append(out.Broken, fmt.Sprintf("model count %s=%d below floor %d (vacuity guard)", name, out.Count[name], floor))
		}
	}
	out.Wall = time.Since(t0)
	return out
}

// Failed reports whether the check must exit non-zero.
func (o *Outcome) Failed() bool {
	return len(o.Violations) > 0 || len(o.Undecided) > 0 || len(o.Broken) > 0
}

// WriteReport writes the human-readable report; returns its path.
func (o *Outcome) WriteReport(dir string) (string, error) {
	if err := os.MkdirAll(dir, 0o755); err != nil {
		return "", err
	}
	path := filepath.Join(dir, o.Prop.ID+".txt")
	var sb strings.Builder
	fmt.Fprintf(&sb, "property %s — %s (tier %s)\n\n", o.Prop.ID, o.Prop.Title, o.Tier)
	sec := func(title string, obs []Obligation) {
		if len(obs) == 0 {
			return
		}
		fmt.Fprintf(&sb, "%s (%d)\n", title, len(obs))
		for _, ob := range obs {
			fmt.Fprintf(&sb, "  [%s] %s\n      at %s\n      %s\n", ob.Rule, ob.Key, ob.Pos, ob.Msg)
		}
		sb.WriteString("\n")
	}
	sec("VIOLATIONS (not listed in KNOWN_FINDINGS.txt)", o.Violations)
	sec("UNDECIDED (construct the rule does not understand; fails closed)", o.Undecided)
	if len(o.Broken) > 0 {
		fmt.Fprintf(&sb, "BROKEN CHECK (%d)\n", len(o.Broken))
		for _, b := range o.Broken {
			fmt.Fprintf(&sb, "  %s\n", b)
		}
		sb.WriteString("\n")
	}
	sec("KNOWN FINDINGS still observed", o.KnownHit)
	var infos []Obligation
	for _, ob := range o.Obs {
		if ob.Verdict == Info && !ob.Control {
			infos = append(infos, ob)
		}
	}
	sec("INFO", infos)
	fmt.Fprintf(&sb, "rules:\n")
	for _, r := range o.Prop.Rules {
		fmt.Fprintf(&sb, "  %s — %s\n", r.Name, r.Doc)
	}
	return path, os.WriteFile(path, []byte(sb.String()), 0o644)
}

// Evidence writes evidence/<id>.json.
func (o *Outcome) WriteEvidence(path string, seed int64, total time.Duration) error {
	type sample struct {
		Rule    string `json:"rule"`
		Key     string `json:"key"`
		Pos     string `json:"pos"`
		Verdict string `json:"verdict"`
		Msg     string `json:"msg,omitempty"`
	}
	perRule := map[string]map[string]int{}
	distinct := map[string]bool{}
	nObl, nOK := 0, 0
	var samples []sample
	perRuleSample := map[string]int{}
	for _, ob := range o.Obs {
		if perRule[ob.Rule] == nil {
			perRule[ob.Rule] = map[string]int{}
		}
		perRule[ob.Rule][string(ob.Verdict)]++
		if ob.Control {
			perRule[ob.Rule]["control"]++
			continue
		}
		if ob.Verdict == Info {
			continue
		}
		nObl++
		if ob.Verdict == OK {
			nOK++
		}
		distinct[ob.Key] = true
		lim := 3
		if ob.Verdict != OK {
			lim = 50
		}
		if perRuleSample[ob.Rule+string(ob.Verdict)] < lim {
			perRuleSample[ob.Rule+string(ob.Verdict)]++
			samples = append(samples, sample{ob.Rule, ob.Key, ob.Pos, string(ob.Verdict), ob.Msg})
		}
	}
	rules := []map[string]any{}
	for _, r := range o.Prop.Rules {
		rules = append(rules, map[string]any{"name": r.Name, "doc": r.Doc, "verdicts": perRule[r.Name], "family_shape": r.FamilyShape,
			"control_hits": o.ControlHits[r.Name]})
	}
	var known []string
	for _, k := range o.KnownHit {
		known = append(known, k.Key)
	}
	cov := map[string]any{
		"explanation":         o.Prop.Explanation + " NOT DECIDED: " + o.Prop.NotDecided,
		"obligations":         nObl,
		"discharged":          nOK,
		"evaluations":         nObl,
		"distinct_nontrivial": len(distinct),
		"rule":                "one obligation per rule instance (rule + construct key); distinct = distinct keys; obligations come from the structural model of /repo's current source, not from executions",
		"samples":             samples,
		"rules":               rules,
		"model_counts":        o.Count,
		"known_findings_hit":  known,
		"undecided":           len(o.Undecided),
		"broken":              o.Broken,
		"notes":               o.Notes,
		"packages_loaded":     len(o.Prop.Patterns),
		"exhaustive":          true,
	}
	for k, v := range o.Extra {
		cov[k] = v
	}
	ev := map[string]any{
		"property_id": o.Prop.ID,
		"tier":        o.Tier,
		"seed":        seed,
		"level":       "other",
		"coverage":    cov,
		"assumptions": o.Prop.Assumptions,
		"wall_s":      total.Seconds(),
		"violations":  len(o.Violations),
	}
	if err := os.MkdirAll(filepath.Dir(path), 0o755); err != nil {
		return err
	}
	b, err := json.MarshalIndent(ev, "", " ")
	if err != nil {
		return err
	}
	return os.WriteFile(path, append(b, '\n'), 0o644)
}

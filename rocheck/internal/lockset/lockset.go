// Package lockset computes, per function, the set of mutexes held at every statement:
// a forward data-flow over go/cfg with must- (intersection) and may- (union) sets.
// Lock identity is the root object plus the field path of the receiver expression of
// Lock/Unlock (s.mu, mu, muQueue, *mu).
package lockset

import (
	"fmt"
	"go/ast"
	"go/token"
	"go/types"
	"sort"
	"strings"

	"golang.org/x/tools/go/cfg"
	"golang.org/x/tools/go/types/typeutil"
)

// Set is a set of lock keys.
type Set map[string]bool

func (s Set) Clone() Set {
	o := Set{}
	for k := range s {
		o[k] = true
	}
	return o
}

func (s Set) String() string {
	var ks []string
	for k := range s {
		ks = append(ks, Short(k))
	}
	sort.Strings(ks)
	return "{" + strings.Join(ks, ",") + "}"
}

// Short strips the position from a key for display.
func Short(k string) string {
	if i := strings.IndexByte(k, '@'); i >= 0 {
		j := strings.IndexByte(k[i:], '.')
		if j < 0 {
			return k[:i]
		}
		return k[:i] + k[i+j:]
	}
	return k
}

func inter(a, b Set) Set {
	o := Set{}
	for k := range a {
		if b[k] {
			o[k] = true
		}
	}
	return o
}

func union(a, b Set) Set {
	o := a.Clone()
	for k := range b {
		o[k] = true
	}
	return o
}

func equal(a, b Set) bool {
	if len(a) != len(b) {
		return false
	}
	for k := range a {
		if !b[k] {
			return false
		}
	}
	return true
}

type state struct {
	must, may Set
	deferred  Set // locks with a deferred Unlock
	valid     bool
}

func (s state) clone() state {
	return state{s.must.Clone(), s.may.Clone(), s.deferred.Clone(), s.valid}
}

// Op is a lock operation found in a function.
type Op struct {
	Node   ast.Node
	Call   *ast.CallExpr
	Key    string
	Kind   string // Lock, Unlock, TryLock, RLock, RUnlock
	Defer  bool
	Before Set // must-set before the operation
}

// Exit is a function exit with the locks that may still be held (not covered by a deferred unlock).
type Exit struct {
	Node ast.Node // *ast.ReturnStmt or nil for fall-off-the-end
	Pos  token.Pos
	Held Set // locks that may still be held and have no deferred unlock
	Must Set // locks that are certainly held when the exit is reached (before deferred calls run)
}

// Result of analysing one function body.
type Result struct {
	Fn     ast.Node
	Before map[ast.Node]Set // must-held set before each CFG node (statement or condition)
	May    map[ast.Node]Set
	// Undeferred: locks that may be held before the node and have no deferred unlock yet
	Undeferred map[ast.Node]Set
	nodes      []ast.Node // CFG nodes sorted by position for lookup
	Ops        []Op
	Exits      []Exit
	Double     []Op // Lock while the same key may already be held
}

// KeyOf renders the lock key of a receiver expression, or "" when it is not understood.
// Alias, when set, maps a local variable that is nothing but another name (`lock := &s.mu`, `dest := destination`:
// one definition, never written again) to the expression it stands for.
var Alias func(o types.Object) ast.Expr

func KeyOf(info *types.Info, e ast.Expr) string {
	var path []string
	for hops := 0; ; {
		switch x := e.(type) {
		case *ast.ParenExpr:
			e = x.X
		case *ast.StarExpr:
			e = x.X
		case *ast.UnaryExpr:
			if x.Op != token.AND {
				return ""
			}
			e = x.X
		case *ast.SelectorExpr:
			path = append([]string{x.Sel.Name}, path...)
			e = x.X
		case *ast.Ident:
			o := info.Uses[x]
			if o == nil {
				o = info.Defs[x]
			}
			if o == nil {
				return ""
			}
			if Alias != nil && hops < 4 && info.Defs[x] == nil {
				if a := Alias(o); a != nil {
					hops++
					e = a
					continue
				}
			}
			k := fmt.Sprintf("%s@%d", x.Name, o.Pos())
			if len(path) > 0 {
				k += "." + strings.Join(path, ".")
			}
			return k
		default:
			return ""
		}
	}
}

// LockCall classifies a call as a lock operation.
func LockCall(info *types.Info, call *ast.CallExpr) (key, kind string, ok bool) {
	sel, isSel := ast.Unparen(call.Fun).(*ast.SelectorExpr)
	if !isSel {
		return "", "", false
	}
	switch sel.Sel.Name {
	case "Lock", "Unlock", "TryLock", "RLock", "RUnlock", "TryRLock":
	default:
		return "", "", false
	}
	fn, _ := typeutil.Callee(info, call).(*types.Func)
	if fn == nil || fn.Pkg() == nil {
		return "", "", false
	}
	pp := fn.Pkg().Path()
	if pp != "sync" && !strings.HasSuffix(pp, "/internal/xsync") {
		return "", "", false
	}
	k := KeyOf(info, sel.X)
	if k == "" {
		return "", "", false
	}
	return k, sel.Sel.Name, true
}

// Analyze runs the data-flow on body with the given entry set.
func Analyze(info *types.Info, fn ast.Node, body *ast.BlockStmt, entry Set) *Result {
	res := &Result{Fn: fn, Before: map[ast.Node]Set{}, May: map[ast.Node]Set{}, Undeferred: map[ast.Node]Set{}}
	if body == nil {
		return res
	}
	g := cfg.New(body, func(*ast.CallExpr) bool { return true })
	in := make([]state, len(g.Blocks))
	if len(g.Blocks) == 0 {
		return res
	}
	if entry == nil {
		entry = Set{}
	}
	in[0] = state{must: entry.Clone(), may: entry.Clone(), deferred: Set{}, valid: true}
	work := []int{0}
	inWork := map[int]bool{0: true}
	// transfer of one node
	apply := func(st *state, n ast.Node, record bool) {
		// lock operations inside the node, in source order, not descending into literals
		var calls []*ast.CallExpr
		isDefer := false
		if d, ok := n.(*ast.DeferStmt); ok {
			isDefer = true
			calls = append(calls, d.Call)
		} else if _, ok := n.(*ast.GoStmt); ok {
			return
		} else {
			ast.Inspect(n, func(c ast.Node) bool {
				switch x := c.(type) {
				case *ast.FuncLit:
					return false
				case *ast.CallExpr:
					calls = append(calls, x)
				}
				return true
			})
		}
		for _, call := range calls {
			key, kind, ok := LockCall(info, call)
			if !ok {
				continue
			}
			if record {
				res.Ops = append(res.Ops, Op{Node: n, Call: call, Key: key, Kind: kind, Defer: isDefer, Before: st.must.Clone()})
			}
			// a read lock is held under a key of its own (key#r): it does not exclude other readers, so it protects reads
			// against writers but never a write
			if kind == "RLock" || kind == "RUnlock" || kind == "TryRLock" {
				key += "#r"
			}
			switch kind {
			case "Lock", "RLock":
				if isDefer {
					continue
				}
				if record && st.may[key] {
					res.Double = append(res.Double, Op{Node: n, Call: call, Key: key, Kind: kind, Before: st.must.Clone()})
				}
				st.must[key] = true
				st.may[key] = true
			case "Unlock", "RUnlock":
				if isDefer {
					st.deferred[key] = true
					continue
				}
				delete(st.must, key)
				delete(st.may, key)
			case "TryLock", "TryRLock":
				// handled on the branch edges
			}
		}
	}
	// tryLockCond: the condition is [!]X.TryLock()
	tryLockCond := func(n ast.Node) (key string, negated bool, ok bool) {
		e, isExpr := n.(ast.Expr)
		if !isExpr {
			return "", false, false
		}
		e = ast.Unparen(e)
		if u, isU := e.(*ast.UnaryExpr); isU && u.Op == token.NOT {
			negated = true
			e = ast.Unparen(u.X)
		}
		call, isCall := e.(*ast.CallExpr)
		if !isCall {
			return "", false, false
		}
		k, kind, isLock := LockCall(info, call)
		if !isLock || (kind != "TryLock" && kind != "TryRLock") {
			return "", false, false
		}
		return k, negated, true
	}
	flow := func(record bool) {
		for len(work) > 0 {
			bi := work[0]
			work = work[1:]
			inWork[bi] = false
			b := g.Blocks[bi]
			st := in[bi].clone()
			for _, n := range b.Nodes {
				if record {
					res.Before[n] = st.must.Clone()
					res.May[n] = st.may.Clone()
				}
				apply(&st, n, record)
			}
			for si, succ := range b.Succs {
				out := st.clone()
				if len(b.Succs) == 2 && len(b.Nodes) > 0 {
					if key, neg, ok := tryLockCond(b.Nodes[len(b.Nodes)-1]); ok {
						acquiredOnTrue := !neg
						if (si == 0) == acquiredOnTrue {
							out.must[key] = true
							out.may[key] = true
						}
					}
				}
				idx := int(succ.Index)
				old := in[idx]
				var nw state
				if !old.valid {
					nw = out
					nw.valid = true
				} else {
					nw = state{must: inter(old.must, out.must), may: union(old.may, out.may), deferred: inter(old.deferred, out.deferred), valid: true}
				}
				if !old.valid || !equal(old.must, nw.must) || !equal(old.may, nw.may) || !equal(old.deferred, nw.deferred) {
					in[idx] = nw
					if !inWork[idx] {
						work = append(work, idx)
						inWork[idx] = true
					}
				}
			}
		}
	}
	flow(false)
	// final recording pass over all reachable blocks with the fixed-point in-states
	for bi, b := range g.Blocks {
		if !in[bi].valid {
			continue
		}
		st := in[bi].clone()
		for _, n := range b.Nodes {
			res.Before[n] = st.must.Clone()
			res.May[n] = st.may.Clone()
			und := Set{}
			for k := range st.may {
				if !st.deferred[k] {
					und[k] = true
				}
			}
			res.Undeferred[n] = und
			apply(&st, n, true)
			res.nodes = append(res.nodes, n)
		}
		if len(b.Succs) == 0 {
			held := Set{}
			for k := range st.may {
				if !st.deferred[k] {
					held[k] = true
				}
			}
			var rn ast.Node
			pos := body.End()
			if len(b.Nodes) > 0 {
				last := b.Nodes[len(b.Nodes)-1]
				if r, ok := last.(*ast.ReturnStmt); ok {
					rn = r
				}
				pos = last.Pos()
				// a block ending in a panic call is not a normal exit
				if es, ok := last.(*ast.ExprStmt); ok {
					if call, ok := es.X.(*ast.CallExpr); ok {
						if id, ok := call.Fun.(*ast.Ident); ok && id.Name == "panic" {
							continue
						}
					}
				}
			}
			res.Exits = append(res.Exits, Exit{Node: rn, Pos: pos, Held: held, Must: st.must.Clone()})
		}
	}
	sort.Slice(res.nodes, func(i, j int) bool { return res.nodes[i].Pos() < res.nodes[j].Pos() })
	return res
}

// At returns the must-held set before the innermost CFG node that contains n.
func (r *Result) At(n ast.Node) (Set, bool) {
	var best ast.Node
	for _, c := range r.nodes {
		if c.Pos() <= n.Pos() && n.End() <= c.End() {
			if best == nil || (c.End()-c.Pos()) < (best.End()-best.Pos()) {
				best = c
			}
		}
	}
	if best == nil {
		return nil, false
	}
	return r.Before[best], true
}

// MayAt is At for the may-held set.
func (r *Result) MayAt(n ast.Node) (Set, bool) {
	var best ast.Node
	for _, c := range r.nodes {
		if c.Pos() <= n.Pos() && n.End() <= c.End() {
			if best == nil || (c.End()-c.Pos()) < (best.End()-best.Pos()) {
				best = c
			}
		}
	}
	if best == nil {
		return nil, false
	}
	return r.May[best], true
}

// HeldByDeferred returns the locks certainly held while the deferred call d runs: the locks
// held at every exit, minus those whose deferred unlock was registered after d (deferred
// calls run last-in first-out).
func (r *Result) HeldByDeferred(d *ast.DeferStmt) Set {
	var common Set
	for _, ex := range r.Exits {
		if common == nil {
			common = ex.Must.Clone()
		} else {
			common = inter(common, ex.Must)
		}
	}
	if common == nil {
		return Set{}
	}
	for _, op := range r.Ops {
		if op.Defer && (op.Kind == "Unlock" || op.Kind == "RUnlock") && op.Node.Pos() > d.Pos() {
			delete(common, op.Key)
		}
	}
	return common
}

// UndeferredAt returns the locks that may be held, without a deferred unlock, before the
// innermost CFG node containing n.
func (r *Result) UndeferredAt(n ast.Node) Set {
	var best ast.Node
	for _, c := range r.nodes {
		if c.Pos() <= n.Pos() && n.End() <= c.End() {
			if best == nil || (c.End()-c.Pos()) < (best.End()-best.Pos()) {
				best = c
			}
		}
	}
	if best == nil {
		return Set{}
	}
	return r.Undeferred[best]
}

// Effective returns the locks of held that protect an access: an exclusive lock protects reads and writes, a read lock
// (key#r) protects reads only and is reported under the plain key.
func Effective(held Set, write bool) Set {
	out := Set{}
	for k := range held {
		if strings.HasSuffix(k, "#r") {
			if !write {
				out[strings.TrimSuffix(k, "#r")] = true
			}
			continue
		}
		out[k] = true
	}
	return out
}

package rules

import (
	"fmt"
	"go/ast"
	"go/token"
	"go/types"
	"golang.org/x/tools/go/packages"
	"os"
	"runtime"
	"sort"
	"strings"

	"rocheck/internal/check"
	"rocheck/internal/load"
	"rocheck/internal/model"
)

// Explore is a development aid (not a registered check): it generates statement-order mutants of package ro
// (two adjacent simple statements swapped), runs the union of all rules on them and prints the mutants no rule
// reports. Many of those are equivalent (the statements commute); the rest point at ordering premises no rule covers.
func Explore(m *model.Model, repo, filter, kind, pkgFilter string) {
	up := &check.Property{ID: "ALL", Patterns: CorePatterns, Scope: []string{ro}}
	if pkgFilter != "" {
		up.Patterns = AllPatterns()
		up.Scope = nil
		for _, p := range m.Pkgs {
			if strings.Contains(p.PkgPath, pkgFilter) {
				up.Scope = append(up.Scope, p.PkgPath)
			}
		}
	}
	explorePkgFilter = pkgFilter
	seen := map[string]bool{}
	for _, id := range IDs() {
		for _, r := range registry[id]().Rules {
			if !seen[r.Name] {
				seen[r.Name] = true
				up.Rules = append(up.Rules, r)
			}
		}
	}
	base := nonOKKeys(check.Run(up, m, "thorough", nil))
	var muts []mutant
	switch kind {
	case "delete":
		muts = genDeletes(m, filter)
	case "negate":
		muts = genNegates(m, filter)
	case "wrongvar":
		muts = genWrongVars(m, filter)
	case "weaken":
		muts = genWeaken(m, filter, false)
	case "boundary":
		muts = genWeaken(m, filter, true)
	default:
		muts = genSwaps(m, filter)
	}
	fmt.Printf("explore: %d %s mutants, %d rules\n", len(muts), kind, len(up.Rules))
	remaining := muts
	killed, compiled, nocompile := 0, 0, 0
	var survivors []mutant
	for len(remaining) > 0 {
		var batch, rest []mutant
		used := map[string]bool{}
		for _, mu := range remaining {
			if used[mu.Group] || used["*solo*"] || (mu.Expect == "" && len(batch) > 0) {
				rest = append(rest, mu)
				continue
			}
			used[mu.Group] = true
			if mu.Expect == "" {
				used["*solo*"] = true
			}
			batch = append(batch, mu)
		}
		remaining = rest
		var run func(b []mutant)
		run = func(b []mutant) {
			if len(b) == 0 {
				return
			}
			k, ok := runBatch(up, repo, b, base)
			runtime.GC()
			if !ok {
				if len(b) == 1 {
					nocompile++
					return
				}
				run(b[:len(b)/2])
				run(b[len(b)/2:])
				return
			}
			for _, mu := range b {
				compiled++
				if k[mu.ID] {
					killed++
				} else {
					survivors = append(survivors, mu)
				}
			}
		}
		run(batch)
		fmt.Fprintf(os.Stderr, "explore: %d remaining, %d compiled, %d reported\n", len(remaining), compiled, killed)
	}
	sort.Slice(survivors, func(i, j int) bool { return survivors[i].ID < survivors[j].ID })
	fmt.Printf("explore: compiled=%d reported=%d not-compiling=%d unreported=%d\n", compiled, killed, nocompile, len(survivors))
	for _, s := range survivors {
		fmt.Printf("UNREPORTED %s\n", s.Desc)
	}
}

var explorePkgFilter string

func explorePkgs(m *model.Model) []*packages.Package {
	if explorePkgFilter == "" {
		return []*packages.Package{m.Obj.Ro}
	}
	var out []*packages.Package
	for _, p := range m.Pkgs {
		if strings.Contains(p.PkgPath, explorePkgFilter) {
			out = append(out, p)
		}
	}
	return out
}

func genSwaps(m *model.Model, filter string) []mutant {
	var out []mutant
	for _, p := range explorePkgs(m) {
		out = append(out, genSwapsPkg(m, p, filter)...)
	}
	return out
}

func genSwapsPkg(m *model.Model, p *packages.Package, filter string) []mutant {
	info := p.TypesInfo
	var out []mutant
	simple := func(s ast.Stmt) bool {
		switch s.(type) {
		case *ast.ExprStmt, *ast.AssignStmt, *ast.IncDecStmt, *ast.DeferStmt, *ast.SendStmt:
			return true
		}
		return false
	}
	for _, f := range p.Syntax {
		fname := m.Prog.Fset.Position(f.Pos()).Filename
		if strings.HasSuffix(fname, "_test.go") || strings.Contains(fname, "zz_verif") {
			continue
		}
		src, err := os.ReadFile(fname)
		if err != nil {
			continue
		}
		for _, d := range f.Decls {
			fd, ok := d.(*ast.FuncDecl)
			if !ok || fd.Body == nil {
				continue
			}
			name := fd.Name.Name
			expect := model.ShortPkg(p.PkgPath) + "." + name
			group := ""
			if fd.Recv != nil && len(fd.Recv.List) == 1 {
				tn := load.RecvTypeName(fd.Recv.List[0].Type)
				name = tn + "." + name
				expect = model.ShortPkg(p.PkgPath) + "." + tn
				group = tn
			}
			if filter != "" && !strings.Contains(name, filter) {
				continue
			}
			if fd.Recv == nil && !fd.Name.IsExported() {
				expect = "" // helper shared by several operators: any new report counts; such mutants run alone
			}
			ast.Inspect(fd.Body, func(x ast.Node) bool {
				bl, ok := x.(*ast.BlockStmt)
				var list []ast.Stmt
				if ok {
					list = bl.List
				} else if cc, ok := x.(*ast.CaseClause); ok {
					list = cc.Body
				} else if cc, ok := x.(*ast.CommClause); ok {
					list = cc.Body
				}
				for i := 0; i+1 < len(list); i++ {
					a, b := list[i], list[i+1]
					if !simple(a) || !simple(b) {
						continue
					}
					// b must not use what a defines
					defs := map[interface{}]bool{}
					if as, ok := a.(*ast.AssignStmt); ok && as.Tok == token.DEFINE {
						for _, l := range as.Lhs {
							if id, ok := l.(*ast.Ident); ok {
								defs[info.Defs[id]] = true
							}
						}
					}
					uses := false
					ast.Inspect(b, func(y ast.Node) bool {
						if id, ok := y.(*ast.Ident); ok && info.Uses[id] != nil && defs[info.Uses[id]] {
							uses = true
						}
						return !uses
					})
					if uses {
						continue
					}
					off := func(pos token.Pos) int { return m.Prog.Fset.Position(pos).Offset }
					ta, tb, sep := string(src[off(a.Pos()):off(a.End())]), string(src[off(b.Pos()):off(b.End())]), string(src[off(a.End()):off(b.Pos())])
					if ta == tb {
						continue
					}
					pos := m.Prog.Fset.Position(a.Pos())
					id := fmt.Sprintf("swap:%s:%d", name, pos.Line)
					out = append(out, mutant{ID: id, Op: "swap", Group: groupOr(group, name), File: fname,
						Edits:  []edit{{off(a.Pos()), off(b.End()), tb + sep + ta}},
						Expect: expect,
						Desc:   fmt.Sprintf("%s %s:%d  swap [%s] <-> [%s]", name, m.Prog.Rel(a.Pos()), pos.Line, oneLine(ta), oneLine(tb))})
				}
				return true
			})
		}
	}
	return out
}

func oneLine(s string) string {
	s = strings.Join(strings.Fields(s), " ")
	if len(s) > 70 {
		s = s[:70] + "…"
	}
	return s
}

// genDeletes: every expression statement that is a call is removed.
func genDeletes(m *model.Model, filter string) []mutant {
	var out []mutant
	for _, p := range explorePkgs(m) {
		out = append(out, genDeletesPkg(m, p, filter)...)
	}
	return out
}

func genDeletesPkg(m *model.Model, p *packages.Package, filter string) []mutant {
	var out []mutant
	for _, f := range p.Syntax {
		fname := m.Prog.Fset.Position(f.Pos()).Filename
		if strings.HasSuffix(fname, "_test.go") || strings.Contains(fname, "zz_verif") {
			continue
		}
		src, err := os.ReadFile(fname)
		if err != nil {
			continue
		}
		for _, d := range f.Decls {
			fd, ok := d.(*ast.FuncDecl)
			if !ok || fd.Body == nil {
				continue
			}
			name := fd.Name.Name
			expect := model.ShortPkg(p.PkgPath) + "." + name
			group := ""
			if fd.Recv != nil && len(fd.Recv.List) == 1 {
				tn := load.RecvTypeName(fd.Recv.List[0].Type)
				name = tn + "." + name
				expect = model.ShortPkg(p.PkgPath) + "." + tn
				group = tn
			}
			if filter != "" && !strings.Contains(name, filter) {
				continue
			}
			if fd.Recv == nil && !fd.Name.IsExported() {
				expect = ""
			}
			ast.Inspect(fd.Body, func(x ast.Node) bool {
				var st ast.Stmt
				switch y := x.(type) {
				case *ast.ExprStmt:
					if _, isCall := y.X.(*ast.CallExpr); isCall {
						st = y
					}
				case *ast.DeferStmt:
					st = y
				case *ast.IncDecStmt:
					st = y
				}
				if st == nil {
					return true
				}
				off := func(pos token.Pos) int { return m.Prog.Fset.Position(pos).Offset }
				pos := m.Prog.Fset.Position(st.Pos())
				txt := string(src[off(st.Pos()):off(st.End())])
				out = append(out, mutant{ID: fmt.Sprintf("delete:%s:%d:%d", name, pos.Line, pos.Column), Op: "delete", Group: groupOr(group, name), File: fname,
					Edits:  []edit{{off(st.Pos()), off(st.End()), "{}"}},
					Expect: expect,
					Desc:   fmt.Sprintf("%s %s  delete [%s]", name, m.Prog.Rel(st.Pos()), oneLine(txt))})
				return true
			})
		}
	}
	return out
}

func groupOr(g, name string) string {
	if g != "" {
		return g
	}
	return name
}

// genNegates: the condition of every if statement is negated.
func genNegates(m *model.Model, filter string) []mutant {
	var out []mutant
	for _, p := range explorePkgs(m) {
		for _, f := range p.Syntax {
			fname := m.Prog.Fset.Position(f.Pos()).Filename
			if strings.HasSuffix(fname, "_test.go") || strings.Contains(fname, "zz_verif") {
				continue
			}
			src, err := os.ReadFile(fname)
			if err != nil {
				continue
			}
			for _, d := range f.Decls {
				fd, ok := d.(*ast.FuncDecl)
				if !ok || fd.Body == nil {
					continue
				}
				name := fd.Name.Name
				expect := model.ShortPkg(p.PkgPath) + "." + name
				group := ""
				if fd.Recv != nil && len(fd.Recv.List) == 1 {
					tn := load.RecvTypeName(fd.Recv.List[0].Type)
					name = tn + "." + name
					expect = model.ShortPkg(p.PkgPath) + "." + tn
					group = tn
				}
				if filter != "" && !strings.Contains(name, filter) {
					continue
				}
				if fd.Recv == nil && !fd.Name.IsExported() {
					expect = ""
				}
				ast.Inspect(fd.Body, func(x ast.Node) bool {
					ifs, ok := x.(*ast.IfStmt)
					if !ok {
						return true
					}
					off := func(pos token.Pos) int { return m.Prog.Fset.Position(pos).Offset }
					pos := m.Prog.Fset.Position(ifs.Cond.Pos())
					txt := string(src[off(ifs.Cond.Pos()):off(ifs.Cond.End())])
					out = append(out, mutant{ID: fmt.Sprintf("negate:%s:%d:%d", name, pos.Line, pos.Column), Op: "negate", Group: groupOr(group, name), File: fname,
						Edits:  []edit{{off(ifs.Cond.Pos()), off(ifs.Cond.End()), "!(" + txt + ")"}},
						Expect: expect,
						Desc:   fmt.Sprintf("%s %s  negate [%s]", name, m.Prog.Rel(ifs.Cond.Pos()), oneLine(txt))})
					return true
				})
			}
		}
	}
	return out
}

// genWrongVars: the receiver of a method call, or an identifier argument, is replaced by another variable of the
// identical type that is visible at that point (the "wrong variable" slip).
func genWrongVars(m *model.Model, filter string) []mutant {
	var out []mutant
	for _, p := range explorePkgs(m) {
		info := p.TypesInfo
		for _, f := range p.Syntax {
			fname := m.Prog.Fset.Position(f.Pos()).Filename
			if strings.HasSuffix(fname, "_test.go") || strings.Contains(fname, "zz_verif") {
				continue
			}
			for _, d := range f.Decls {
				fd, ok := d.(*ast.FuncDecl)
				if !ok || fd.Body == nil {
					continue
				}
				name := fd.Name.Name
				expect := model.ShortPkg(p.PkgPath) + "." + name
				group := ""
				if fd.Recv != nil && len(fd.Recv.List) == 1 {
					tn := load.RecvTypeName(fd.Recv.List[0].Type)
					name = tn + "." + name
					expect = model.ShortPkg(p.PkgPath) + "." + tn
					group = tn
				}
				if filter != "" && !strings.Contains(name, filter) {
					continue
				}
				if fd.Recv == nil && !fd.Name.IsExported() {
					expect = ""
				}
				off := func(pos token.Pos) int { return m.Prog.Fset.Position(pos).Offset }
				seen := map[token.Pos]bool{}
				try := func(id *ast.Ident) {
					if seen[id.Pos()] {
						return
					}
					seen[id.Pos()] = true
					v, ok := info.Uses[id].(*types.Var)
					if !ok || v.IsField() {
						return
					}
					switch v.Type().Underlying().(type) {
					case *types.Basic:
						return // counters and flags: value level
					}
					inner := p.Types.Scope().Innermost(id.Pos())
					n := 0
					for sc := inner; sc != nil && sc != types.Universe && n < 2; sc = sc.Parent() {
						for _, nm := range sc.Names() {
							o, ok := sc.Lookup(nm).(*types.Var)
							if !ok || o == v || o.Name() == "_" || o.Pos() > id.Pos() && sc != p.Types.Scope() {
								continue
							}
							if sc == p.Types.Scope() {
								continue // package-level variables are hooks, not state
							}
							if !types.Identical(o.Type(), v.Type()) {
								continue
							}
							// must resolve to o at this position
							if _, found := inner.LookupParent(o.Name(), id.Pos()); found != types.Object(o) {
								continue
							}
							n++
							pos := m.Prog.Fset.Position(id.Pos())
							out = append(out, mutant{ID: fmt.Sprintf("wrongvar:%s:%d:%d:%s", name, pos.Line, pos.Column, o.Name()), Op: "wrongvar", Group: groupOr(group, name), File: fname,
								Edits:  []edit{{off(id.Pos()), off(id.End()), o.Name()}},
								Expect: expect,
								Desc:   fmt.Sprintf("%s %s:%d  %s -> %s", name, m.Prog.Rel(id.Pos()), pos.Column, id.Name, o.Name())})
							if n >= 2 {
								break
							}
						}
					}
				}
				ast.Inspect(fd.Body, func(x ast.Node) bool {
					call, ok := x.(*ast.CallExpr)
					if !ok {
						return true
					}
					if sel, ok := ast.Unparen(call.Fun).(*ast.SelectorExpr); ok {
						if id, ok := ast.Unparen(sel.X).(*ast.Ident); ok {
							try(id)
						}
					}
					for _, a := range call.Args {
						if id, ok := ast.Unparen(a).(*ast.Ident); ok {
							try(id)
						}
						if u, ok := ast.Unparen(a).(*ast.UnaryExpr); ok && u.Op == token.AND {
							if id, ok := ast.Unparen(u.X).(*ast.Ident); ok {
								try(id)
							}
						}
					}
					return true
				})
			}
		}
	}
	return out
}

// genWeaken: every `a && b` / `a || b` is replaced by `a` and by `b` (a conjunct or disjunct lost); with boundary,
// every ordered comparison moves its boundary by one (`<` <-> `<=`, `>` <-> `>=`).
func genWeaken(m *model.Model, filter string, boundary bool) []mutant {
	var out []mutant
	for _, p := range explorePkgs(m) {
		for _, f := range p.Syntax {
			fname := m.Prog.Fset.Position(f.Pos()).Filename
			if strings.HasSuffix(fname, "_test.go") || strings.Contains(fname, "zz_verif") {
				continue
			}
			src, err := os.ReadFile(fname)
			if err != nil {
				continue
			}
			for _, d := range f.Decls {
				fd, ok := d.(*ast.FuncDecl)
				if !ok || fd.Body == nil {
					continue
				}
				name := fd.Name.Name
				expect := model.ShortPkg(p.PkgPath) + "." + name
				group := ""
				if fd.Recv != nil && len(fd.Recv.List) == 1 {
					tn := load.RecvTypeName(fd.Recv.List[0].Type)
					name = tn + "." + name
					expect = model.ShortPkg(p.PkgPath) + "." + tn
					group = tn
				}
				if filter != "" && !strings.Contains(name, filter) {
					continue
				}
				if fd.Recv == nil && !fd.Name.IsExported() {
					expect = ""
				}
				off := func(pos token.Pos) int { return m.Prog.Fset.Position(pos).Offset }
				ast.Inspect(fd.Body, func(x ast.Node) bool {
					be, ok := x.(*ast.BinaryExpr)
					if !ok {
						return true
					}
					pos := m.Prog.Fset.Position(be.OpPos)
					txt := string(src[off(be.Pos()):off(be.End())])
					add := func(tag, repl string) {
						out = append(out, mutant{ID: fmt.Sprintf("%s:%s:%d:%d:%s", map[bool]string{false: "weaken", true: "boundary"}[boundary], name, pos.Line, pos.Column, tag), Op: "weaken", Group: groupOr(group, name), File: fname,
							Edits:  []edit{{off(be.Pos()), off(be.End()), "(" + repl + ")"}},
							Expect: expect,
							Desc:   fmt.Sprintf("%s %s  [%s] -> [%s]", name, m.Prog.Rel(be.OpPos), oneLine(txt), oneLine(repl))})
					}
					l := string(src[off(be.X.Pos()):off(be.X.End())])
					r := string(src[off(be.Y.Pos()):off(be.Y.End())])
					if !boundary && (be.Op == token.LAND || be.Op == token.LOR) {
						add("L", l)
						add("R", r)
					}
					if boundary {
						if to, ok := map[token.Token]string{token.LSS: "<=", token.LEQ: "<", token.GTR: ">=", token.GEQ: ">"}[be.Op]; ok {
							add("B", l+" "+to+" "+r)
						}
					}
					return true
				})
			}
		}
	}
	return out
}

package rules

import (
	"fmt"
	"go/ast"
	"go/token"
	"go/types"
	"strings"

	"rocheck/internal/check"
	"rocheck/internal/lockset"
	"rocheck/internal/model"
)

// ADD-AFTER-CLOSE: a contradiction rule. Handing a subscription to a composite says "cancel this with the rest";
// unsubscribing the composite first makes that hand-over cancel the newcomer at once.
func ruleAddAfterClose() check.Rule {
	return check.Rule{
		Name:        "ADD-AFTER-CLOSE",
		Doc:         "inside one function of an operator, no Add/AddUnsubscribable on a subscription X is reachable after X.Unsubscribe() in the same invocation: a closed subscription runs what is added to it at once, so a fallback or next source subscribed there is cancelled the moment it is created and the output never ends",
		NeedControl: true,
		Run: func(c *check.Ctx) {
			m := c.M
			for _, sc := range m.SCs {
				armed := c.Armed(sc)
				cnt := 0
				for _, u := range sc.SubOps {
					if u.Method != "Unsubscribe" || u.Call == nil || u.InDefer {
						continue
					}
					fn := innermostFunc(m, u.Pkg, u.Call)
					body := funcBody(fn)
					if body == nil {
						continue
					}
					un := resNode(u.Pkg.TypesInfo, nil, u.RecvExpr)
					if un == "" {
						continue
					}
					for _, a := range sc.SubOps {
						if (a.Method != "Add" && a.Method != "AddUnsubscribable") || a.Call == nil || innermostFunc(m, a.Pkg, a.Call) != fn {
							continue
						}
						if resNode(a.Pkg.TypesInfo, nil, a.RecvExpr) != un {
							continue
						}
						if reachableAfter(body, u.Call, a.Call) {
							cnt++
							c.Report(armed, fmt.Sprintf("%s/%s/add-after-close#%d", sc, model.CtxKey(a.Ctx, a.Slot), cnt), a.Pos, "%s is handed something after it has been unsubscribed at %s in the same invocation: what is added to a closed subscription is cancelled at once", types.ExprString(a.RecvExpr), c.Prog.Rel(u.Pos))
						}
					}
				}
				if cnt == 0 && armed && len(sc.SubOps) > 0 {
					c.OK(sc.String()+"/add-after-close", sc.Lit.Pos(), "nothing is added to a subscription after it was unsubscribed in the same invocation")
				}
			}
		},
	}
}

// TERMINAL-CALL-AGREEMENT: sibling cross-check of the constant arguments with which the terminal callbacks of an
// operator call one of its local closures.
func ruleTerminalCallAgreement() check.Rule {
	return check.Rule{
		Name: "TERMINAL-CALL-AGREEMENT",
		Doc:  "sibling cross-check: when three or more error/complete callbacks of one operator (over all its sources) call the same local closure with constant arguments (`flush(ctx, true)`), the constants agree: a terminal callback that passes the value its next-callback sibling passes treats the end of a source like an ordinary boundary (an extra window that never completes, a buffer that is not flushed)",
		Run: func(c *check.Ctx) {
			m := c.M
			n := 0
			for _, sc := range m.SCs {
				armed := c.Armed(sc)
				info := sc.Pkg.TypesInfo
				type use struct {
					call *ast.CallExpr
					sig  string
					slot string
				}
				byClosure := map[types.Object][]use{}
				for _, s := range sc.SubSites {
					if s.Observer == nil || s.Observer.Kind != model.AVObserver {
						continue
					}
					for k := 1; k < 3; k++ {
						sl := s.Observer.Slots[k]
						if sl == nil || sl.Lit == nil {
							continue
						}
						ast.Inspect(sl.Lit.Body, func(x ast.Node) bool {
							call, ok := x.(*ast.CallExpr)
							if !ok {
								return true
							}
							id, ok := ast.Unparen(call.Fun).(*ast.Ident)
							if !ok {
								return true
							}
							v, ok := objOf(info, id).(*types.Var)
							if !ok {
								return true
							}
							if _, isSig := v.Type().Underlying().(*types.Signature); !isSig {
								return true
							}
							var consts []string
							for _, a := range call.Args {
								if tv, ok := info.Types[a]; ok && tv.Value != nil {
									consts = append(consts, tv.Value.String())
								}
							}
							if len(consts) == 0 {
								return true
							}
							byClosure[v] = append(byClosure[v], use{call, strings.Join(consts, ","), s.Key + "." + model.SlotNames[k]})
							return true
						})
					}
				}
				for v, uses := range byClosure {
					if len(uses) < 3 {
						continue
					}
					count := map[string]int{}
					for _, u := range uses {
						count[u.sig]++
					}
					best, bestN := "", 0
					for sig, k := range count {
						if k > bestN {
							best, bestN = sig, k
						}
					}
					n++
					for _, u := range uses {
						key := fmt.Sprintf("%s/terminal-call-%s", u.slot, v.Name())
						if u.sig == best || bestN*2 <= len(uses) {
							if armed {
								c.OK(key, u.call.Pos(), "%s(%s) like its siblings", v.Name(), u.sig)
							}
						} else {
							c.Report(armed, key, u.call.Pos(), "this terminal callback calls %s with constant argument(s) %s while %d of its %d sibling terminal callbacks pass %s", v.Name(), u.sig, bestN, len(uses)-1, best)
						}
					}
				}
			}
			c.Inc("terminal_closure_families", n)
		},
	}
}

// TIMER-DEQUEUE-COUPLED: timer callbacks run concurrently with each other; a callback that takes the head of a queue
// under one lock and delivers it after releasing that lock must already hold the delivery lock when it lets go of the
// queue lock.
func ruleTimerDequeueCoupled() check.Rule {
	return check.Rule{
		Name:        "TIMER-DEQUEUE-COUPLED",
		FamilyShape: true,
		Doc:         "in a function that runs as a timer callback (time.AfterFunc: several may run at once), drops the head of a queue while holding lock A and sends the removed notification to the destination after A has been released (Delay), the send is made under a second lock B that was acquired while A was still held (lock coupling): otherwise two callbacks can take elements 1 and 2 in order and deliver them as 2, 1; and the head is not taken in a loop (one timer releases one notification)",
		Run: func(c *check.Ctx) {
			m := c.M
			h := newHeldDB(m)
			n := 0
			for _, sc := range m.SCs {
				armed := c.Armed(sc)
				info := sc.Pkg.TypesInfo
				seenLit := map[*ast.FuncLit]bool{}
				for _, t := range sc.Timers {
					if t.Fn != "AfterFunc" || len(t.Call.Args) != 2 {
						continue
					}
					// the callback: a literal or a local closure variable
					var lit *ast.FuncLit
					switch a := ast.Unparen(t.Call.Args[1]).(type) {
					case *ast.FuncLit:
						lit = a
					case *ast.Ident:
						for _, d := range m.Defs[objOf(info, a)] {
							if l, ok := ast.Unparen(d.Expr).(*ast.FuncLit); ok && d.Expr != nil {
								lit = l
							}
						}
					}
					if lit == nil || seenLit[lit] {
						continue
					}
					seenLit[lit] = true
					// head drop q = q[k:] in the callback
					var drop *ast.AssignStmt
					ast.Inspect(lit.Body, func(x ast.Node) bool {
						if as, ok := x.(*ast.AssignStmt); ok && len(as.Lhs) == 1 && len(as.Rhs) == 1 {
							if se, ok := ast.Unparen(as.Rhs[0]).(*ast.SliceExpr); ok && se.Low != nil && se.High == nil && queueKey(info, se.X) != "" && queueKey(info, se.X) == queueKey(info, as.Lhs[0]) {
								drop = as
							}
						}
						return true
					})
					// a timer callback that empties a queue wholesale releases everything that is pending at once
					ast.Inspect(lit.Body, func(x ast.Node) bool {
						as, ok := x.(*ast.AssignStmt)
						if !ok || len(as.Lhs) != 1 || len(as.Rhs) != 1 {
							return true
						}
						k := queueKey(info, as.Lhs[0])
						if k == "" {
							return true
						}
						// is it a queue of the operator (appended to somewhere in the subscribe closure)?
						isQueue := false
						ast.Inspect(sc.Lit.Body, func(y ast.Node) bool {
							if a2, ok := y.(*ast.AssignStmt); ok && len(a2.Lhs) == 1 && len(a2.Rhs) == 1 && queueKey(info, a2.Lhs[0]) == k {
								if call, ok := ast.Unparen(a2.Rhs[0]).(*ast.CallExpr); ok {
									if id, ok := ast.Unparen(call.Fun).(*ast.Ident); ok && id.Name == "append" {
										isQueue = true
									}
								}
							}
							return !isQueue
						})
						if !isQueue {
							return true
						}
						switch r := ast.Unparen(as.Rhs[0]).(type) {
						case *ast.SliceExpr:
							_ = r
						case *ast.CallExpr:
							if id, ok := ast.Unparen(r.Fun).(*ast.Ident); ok && id.Name == "append" {
								return true
							}
							n++
							c.Report(armed, fmt.Sprintf("%s/timer-callback/one-per-timer", sc), as.Pos(), "the timer callback replaces the whole queue: a timer armed for one notification releases every notification that is pending, before their own delay has elapsed")
						default:
							n++
							c.Report(armed, fmt.Sprintf("%s/timer-callback/one-per-timer", sc), as.Pos(), "the timer callback replaces the whole queue: a timer armed for one notification releases every notification that is pending, before their own delay has elapsed")
						}
						return true
					})
					if drop == nil {
						continue
					}
					// one timer, one notification: the head is not taken in a loop
					for cn := m.Parent(sc.Pkg, drop); cn != nil && cn != ast.Node(lit); cn = m.Parent(sc.Pkg, cn) {
						switch cn.(type) {
						case *ast.ForStmt, *ast.RangeStmt:
							n++
							c.Report(armed, fmt.Sprintf("%s/timer-callback/one-per-timer", sc), drop.Pos(), "the timer callback takes queued notifications in a loop: a timer armed for one notification also releases the ones queued after it, before their own delay has elapsed")
						}
					}
					heldAtDrop := h.heldAt(sc.Pkg, drop)
					res := h.resultOf(sc.Pkg, lit)
					// deliveries from this callback: calls that hand the destination on, or emissions
					ast.Inspect(lit.Body, func(x ast.Node) bool {
						call, ok := x.(*ast.CallExpr)
						if !ok || call.Pos() < drop.Pos() {
							return true
						}
						delivers := false
						for _, a := range call.Args {
							if id, ok := ast.Unparen(a).(*ast.Ident); ok && sc.Dest != nil && objOf(info, id) == types.Object(sc.Dest) {
								delivers = true
							}
						}
						if name, isObs := m.Obj.ObserverMethods[model.Callee(info, call)]; isObs && notifKind(name) >= 0 {
							delivers = true
						}
						if !delivers {
							return true
						}
						n++
						key := fmt.Sprintf("%s/timer-callback/dequeue-deliver#%d", sc, n)
						heldAtSend := h.heldAt(sc.Pkg, call)
						stillQueueLock := false
						for k := range heldAtDrop {
							if heldAtSend[k] {
								stillQueueLock = true
							}
						}
						if stillQueueLock {
							if armed {
								c.OK(key, call.Pos(), "delivered while the queue lock is still held")
							}
							return true
						}
						coupled := false
						for _, op := range res.Ops {
							if op.Kind != "Lock" || !heldAtSend[op.Key] {
								continue
							}
							for k := range heldAtDrop {
								if op.Before[k] {
									coupled = true
								}
							}
						}
						if coupled {
							if armed {
								c.OK(key, call.Pos(), "the delivery lock is taken while the queue lock is still held (lock coupling): deliveries keep the order of the queue")
							}
						} else {
							c.Report(armed, key, call.Pos(), "the head of the queue is removed under %s and delivered after that lock was released, under no lock that was taken before the release (held at the delivery: %s): two timer callbacks running at once can deliver in the opposite order", lockset.Short(firstKey(heldAtDrop)), heldAtSend)
						}
						return true
					})
				}
			}
			c.Inc("timer_dequeue_deliveries", n)
			c.Note("TIMER-DEQUEUE-COUPLED recognised=%d deliveries", n)
		},
	}
}

func firstKey(s lockset.Set) string {
	best := ""
	for k := range s {
		if best == "" || k < best {
			best = k
		}
	}
	return best
}

// INNER-FILLED-BEFORE-HANDOVER: a group/window subject gets its opening value before downstream sees it.
func ruleInnerFilledBeforeHandover() check.Rule {
	return check.Rule{
		Name:        "INNER-FILLED-BEFORE-HANDOVER",
		NeedControl: true,
		Doc:         "in a callback of a higher-order operator that creates an inner subject, pushes the current value into it and emits the subject to the destination (GroupBy's first value of a key), the push precedes the emission on every path: the emission runs the downstream synchronously, and a downstream that ends the stream of inner observables during the hand-over (Take(n) on the groups) makes the operator's teardown complete the inner subject — a value pushed afterwards is refused and lost",
		Run: func(c *check.Ctx) {
			m := c.M
			n := 0
			for _, sc := range m.SCs {
				armed := c.Armed(sc)
				info := sc.Pkg.TypesInfo
				ast.Inspect(sc.Lit.Body, func(x ast.Node) bool {
					lit, ok := x.(*ast.FuncLit)
					if !ok {
						return true
					}
					// inner subjects created in this literal
					created := map[types.Object]bool{}
					ast.Inspect(lit.Body, func(y ast.Node) bool {
						if l, ok := y.(*ast.FuncLit); ok && l != lit {
							return false
						}
						as, ok := y.(*ast.AssignStmt)
						if !ok || as.Tok != token.DEFINE || len(as.Lhs) != 1 || len(as.Rhs) != 1 {
							return true
						}
						call, ok := ast.Unparen(as.Rhs[0]).(*ast.CallExpr)
						if !ok {
							return true
						}
						if t := info.TypeOf(call); t != nil && m.Obj.Subject != nil {
							if nt, ok := t.(*types.Named); ok && nt.Origin().Obj() == m.Obj.Subject {
								if id, ok := as.Lhs[0].(*ast.Ident); ok {
									created[info.Defs[id]] = true
								}
							}
						}
						return true
					})
					if len(created) == 0 {
						return true
					}
					for s := range created {
						var pushes, emits []ast.Node
						ast.Inspect(lit.Body, func(y ast.Node) bool {
							if l, ok := y.(*ast.FuncLit); ok && l != lit {
								return false
							}
							call, ok := y.(*ast.CallExpr)
							if !ok {
								return true
							}
							name, isObs := m.Obj.ObserverMethods[model.Callee(info, call)]
							if !isObs || notifKind(name) != model.EmitNext {
								return true
							}
							sel, ok := ast.Unparen(call.Fun).(*ast.SelectorExpr)
							if !ok {
								return true
							}
							if id, ok := ast.Unparen(sel.X).(*ast.Ident); ok && objOf(info, id) == s {
								pushes = append(pushes, call)
								return true
							}
							for _, a := range call.Args {
								if id, ok := ast.Unparen(a).(*ast.Ident); ok && objOf(info, id) == s {
									emits = append(emits, call)
								}
							}
							return true
						})
						for _, e := range emits {
							for _, p := range pushes {
								n++
								key := fmt.Sprintf("%s/inner-%s/filled-before-handover#%d", sc, s.Name(), n)
								if reachableAfter(lit.Body, e, p) {
									c.Report(armed, key, p.Pos(), "the value is pushed into the new inner subject %s after the subject has been emitted to the destination: a downstream that ends the outer stream during that emission makes the teardown complete %s first, and the value is lost", s.Name(), s.Name())
								} else if armed {
									c.OK(key, p.Pos(), "the inner subject receives its opening value before it is handed downstream")
								}
							}
						}
					}
					return true
				})
			}
			c.Inc("inner_handover_pairs", n)
		},
	}
}

// NO-TRYLOCK-SKIP: an operator never gives up its work because a lock is busy.
func ruleNoTryLockSkip() check.Rule {
	return check.Rule{
		Name:        "NO-TRYLOCK-SKIP",
		NeedControl: true,
		Doc:         "inside the subscribe closures of operators no `TryLock()` decides whether work is done: an operator that returns when a lock is busy leaves the value it was given in a buffer to be delivered later by another goroutine (Next returns before downstream has seen its output, the buffer is unbounded) or drops a flush. Dropping under contention is the documented behaviour of the eventually-safe subscriber only (subscriberImpl, outside this rule)",
		Run: func(c *check.Ctx) {
			m := c.M
			n := 0
			for _, sc := range m.SCs {
				armed := c.Armed(sc)
				info := sc.Pkg.TypesInfo
				k := 0
				ast.Inspect(sc.Lit.Body, func(x ast.Node) bool {
					call, ok := x.(*ast.CallExpr)
					if !ok {
						return true
					}
					sel, ok := ast.Unparen(call.Fun).(*ast.SelectorExpr)
					if !ok || sel.Sel.Name != "TryLock" || len(call.Args) != 0 {
						return true
					}
					if t := info.TypeOf(call); t == nil || !types.Identical(t.Underlying(), types.Typ[types.Bool]) {
						return true
					}
					n++
					k++
					c.Report(armed, fmt.Sprintf("%s/trylock#%d", sc, k), call.Pos(), "TryLock inside an operator: when the lock is busy the work this call stands for (a flush, a delivery) is skipped or left to another goroutine, so Next returns before downstream has received the output it gives rise to")
					return true
				})
			}
			// the subjects: neither their methods nor the teardowns they register give up an update of the subject's state
			// because the mutex is busy (an observer removal that is skipped leaves a dead observer registered for ever:
			// unicast then refuses every later subscriber)
			p := m.Obj.Ro
			for _, tname := range subjectTypes(m) {
				for _, fd := range methodsOf(p, tname) {
					if fd.Body == nil {
						continue
					}
					k := 0
					ast.Inspect(fd.Body, func(x ast.Node) bool {
						call, ok := x.(*ast.CallExpr)
						if !ok {
							return true
						}
						sel, ok := ast.Unparen(call.Fun).(*ast.SelectorExpr)
						if !ok || sel.Sel.Name != "TryLock" || len(call.Args) != 0 {
							return true
						}
						n++
						k++
						c.Violation(fmt.Sprintf("ro.%s.%s/trylock#%d", tname, fd.Name.Name, k), call.Pos(), "TryLock in a subject: when the mutex is busy (a producer inside Next, a query) the update this call stands for is skipped — an observer removal that is skipped leaves the closed subscriber registered, later values go to it and every later Subscribe is refused")
						return true
					})
				}
			}
			c.Inc("trylock_sites", n)
		},
	}
}

const controlsC05c = `
func verifControlGroupHandover[T any]() func(Observable[T]) Observable[Observable[T]] {
	return func(source Observable[T]) Observable[Observable[T]] {
		return NewUnsafeObservableWithContext(func(subscriberCtx context.Context, destination Observer[Observable[T]]) Teardown {
			var mu sync.Mutex
			sub := source.SubscribeWithContext(subscriberCtx, NewObserverWithContext(
				func(ctx context.Context, value T) {
					if !mu.TryLock() {
						return
					}
					defer mu.Unlock()
					group := NewUnicastSubject[T](UnicastSubjectUnlimitedBufferSize)
					destination.NextWithContext(ctx, group)
					group.NextWithContext(ctx, value)
				},
				destination.ErrorWithContext,
				destination.CompleteWithContext,
			))
			return sub.Unsubscribe
		})
	}
}
`

// NO-DUPLICATE-FORWARD: one value in, at most one copy out per receiver on any path.
func ruleNoDuplicateForward() check.Rule {
	return check.Rule{
		Name:        "NO-DUPLICATE-FORWARD",
		NeedControl: true,
		Doc:         "in the next callback of an upstream observer, the callback's own value parameter is not sent twice to the same kind of receiver on one path: two distinct Next calls that carry the unmodified value parameter, through the same receiver variable, one reachable from the other (a value re-sent to the window that replaced a closed one, after it was already delivered to the closed one's consumer) duplicate the value downstream. Loops that repeat one call site are a different construct and are not judged",
		Run: func(c *check.Ctx) {
			m := c.M
			n := 0
			for _, sc := range m.SCs {
				armed := c.Armed(sc)
				info := sc.Pkg.TypesInfo
				for _, s := range sc.SubSites {
					if s.Observer == nil || s.Observer.Kind != model.AVObserver {
						continue
					}
					slot := s.Observer.Slots[model.SlotNext]
					if slot == nil || slot.Lit == nil || slot.Lit.Type.Params == nil {
						continue
					}
					// the value parameter: the last parameter that is not a context
					var valueParam types.Object
					for _, f := range slot.Lit.Type.Params.List {
						for _, id := range f.Names {
							if v, ok := info.Defs[id].(*types.Var); ok && !model.IsContext(v.Type()) {
								valueParam = v
							}
						}
					}
					if valueParam == nil {
						continue
					}
					type send struct {
						call *ast.CallExpr
						recv types.Object
					}
					var sends []send
					ast.Inspect(slot.Lit.Body, func(x ast.Node) bool {
						if l, ok := x.(*ast.FuncLit); ok && l != slot.Lit {
							return false
						}
						call, ok := x.(*ast.CallExpr)
						if !ok {
							return true
						}
						name, isObs := m.Obj.ObserverMethods[model.Callee(info, call)]
						if !isObs || notifKind(name) != model.EmitNext || len(call.Args) == 0 {
							return true
						}
						last, ok := ast.Unparen(call.Args[len(call.Args)-1]).(*ast.Ident)
						if !ok || objOf(info, last) != valueParam {
							return true
						}
						sel, ok := ast.Unparen(call.Fun).(*ast.SelectorExpr)
						if !ok {
							return true
						}
						if rid, _ := rootIdent(sel.X); rid != nil {
							sends = append(sends, send{call, objOf(info, rid)})
						}
						return true
					})
					for i, a := range sends {
						for j, b := range sends {
							if i == j || a.recv == nil || a.recv != b.recv || a.call.Pos() >= b.call.Pos() {
								continue
							}
							n++
							key := fmt.Sprintf("%s/next/duplicate-%s#%d", s.Key, a.recv.Name(), n)
							if reachableAfter(slot.Lit.Body, a.call, b.call) {
								c.Report(armed, key, b.call.Pos(), "the value received by this callback was already sent through %s at %s on a path that reaches this second send: it is delivered twice", a.recv.Name(), m.Prog.Rel(a.call.Pos()))
							} else if armed {
								c.OK(key, b.call.Pos(), "the two sends of the value are on exclusive paths")
							}
						}
					}
				}
			}
			c.Inc("value_send_pairs", n)
		},
	}
}

// GET-OR-CREATE: the create half runs on the miss edge of the lookup only.
func ruleGetOrCreate() check.Rule {
	return check.Rule{
		Name:        "GET-OR-CREATE",
		NeedControl: true,
		Doc:         "in a callback that looks a key up in a table it keeps (`v, ok := table.Load(key)` on a sync.Map, or the comma-ok index of a map) and stores a freshly created value under the same key in the same function, the store is reached only on the miss edge of that lookup (`!ok`): a creation that also runs when the key is present — because a second condition was folded into the test — replaces the live entry, so the key gets a second group / window / limiter with fresh state",
		Run: func(c *check.Ctx) {
			m := c.M
			n := 0
			for _, sc := range m.SCs {
				armed := c.Armed(sc)
				info := sc.Pkg.TypesInfo
				ast.Inspect(sc.Lit.Body, func(x ast.Node) bool {
					lit, ok := x.(*ast.FuncLit)
					if !ok {
						return true
					}
					// lookups in this literal
					ast.Inspect(lit.Body, func(y ast.Node) bool {
						if l, ok := y.(*ast.FuncLit); ok && l != lit {
							return false
						}
						as, ok := y.(*ast.AssignStmt)
						if !ok || len(as.Lhs) != 2 || len(as.Rhs) != 1 {
							return true
						}
						okID, isID := as.Lhs[1].(*ast.Ident)
						if !isID || okID.Name == "_" {
							return true
						}
						var table types.Object
						var keyExpr ast.Expr
						switch r := ast.Unparen(as.Rhs[0]).(type) {
						case *ast.CallExpr:
							if model.IsMethod(model.Callee(info, r), "sync", "Map", "Load") && len(r.Args) == 1 {
								if sel, ok := ast.Unparen(r.Fun).(*ast.SelectorExpr); ok {
									if id, _ := rootIdent(sel.X); id != nil {
										table, keyExpr = objOf(info, id), r.Args[0]
									}
								}
							}
						case *ast.IndexExpr:
							if t := info.TypeOf(r.X); t != nil {
								if _, isMap := t.Underlying().(*types.Map); isMap {
									if id, _ := rootIdent(r.X); id != nil {
										table, keyExpr = objOf(info, id), r.Index
									}
								}
							}
						}
						okObj := objOf(info, okID)
						if table == nil || okObj == nil {
							return true
						}
						// stores under the same key in the same literal
						ast.Inspect(lit.Body, func(z ast.Node) bool {
							if l, ok := z.(*ast.FuncLit); ok && l != lit {
								return false
							}
							var storeKey ast.Expr
							var storeNode ast.Node
							switch st := z.(type) {
							case *ast.CallExpr:
								if model.IsMethod(model.Callee(info, st), "sync", "Map", "Store") && len(st.Args) == 2 {
									if sel, ok := ast.Unparen(st.Fun).(*ast.SelectorExpr); ok {
										if id, _ := rootIdent(sel.X); id != nil && objOf(info, id) == table {
											storeKey, storeNode = st.Args[0], st
										}
									}
								}
							case *ast.AssignStmt:
								if len(st.Lhs) == 1 {
									if ix, ok := ast.Unparen(st.Lhs[0]).(*ast.IndexExpr); ok {
										if id, _ := rootIdent(ix.X); id != nil && objOf(info, id) == table {
											storeKey, storeNode = ix.Index, st
										}
									}
								}
							}
							if storeNode == nil || storeNode.Pos() < as.Pos() || types.ExprString(storeKey) != types.ExprString(keyExpr) {
								return true
							}
							n++
							key := fmt.Sprintf("%s/get-or-create-%s#%d", sc, table.Name(), n)
							miss := func(e ast.Expr) int {
								if id, ok := ast.Unparen(e).(*ast.Ident); ok && objOf(info, id) == okObj {
									return -1 // ok being false is the miss
								}
								return 0
							}
							if guardedBy(lit.Body, storeNode, miss) {
								if armed {
									c.OK(key, storeNode.Pos(), "the entry is created on the miss edge of the lookup only")
								}
							} else {
								c.Report(armed, key, storeNode.Pos(), "a new entry is stored under %s on a path where the lookup of that key may have succeeded: the live entry is replaced and the key gets a second value with fresh state", types.ExprString(keyExpr))
							}
							return true
						})
						return true
					})
					return true
				})
			}
			c.Inc("get_or_create_sites", n)
		},
	}
}

const controlsC05d = `
func verifControlDuplicateAndRecreate[T any](keyOf func(T) string) func(Observable[T]) Observable[Observable[T]] {
	return func(source Observable[T]) Observable[Observable[T]] {
		return NewUnsafeObservableWithContext(func(subscriberCtx context.Context, destination Observer[Observable[T]]) Teardown {
			var groups sync.Map
			sub := source.SubscribeWithContext(subscriberCtx, NewObserverWithContext(
				func(ctx context.Context, value T) {
					key := keyOf(value)
					g, ok := groups.Load(key)
					if ok && !g.(Subject[T]).IsClosed() {
						g.(Observer[T]).NextWithContext(ctx, value)
					} else {
						subject := NewUnicastSubject[T](UnicastSubjectUnlimitedBufferSize)
						groups.Store(key, subject)
						subject.NextWithContext(ctx, value)
						destination.NextWithContext(ctx, subject)
						if subject.IsClosed() {
							subject.NextWithContext(ctx, value)
						}
					}
				},
				destination.ErrorWithContext,
				destination.CompleteWithContext,
			))
			return sub.Unsubscribe
		})
	}
}
`

package rules

import (
	"fmt"
	"go/ast"
	"go/token"
	"go/types"
	"golang.org/x/tools/go/packages"
	"sort"
	"strings"

	"rocheck/internal/check"
	"rocheck/internal/model"
)

// TWIN-AGREEMENT: plugins/bytes and plugins/strings implement the same helpers twice.
func ruleTwinAgreement() check.Rule {
	return check.Rule{
		Name:        "TWIN-AGREEMENT",
		FamilyShape: true,
		Doc:         "sibling cross-check (Engler / Min et al.): every function that exists under the same name in plugins/bytes and plugins/strings decides the same cases — the multiset of its branch conditions (if / for / case expressions) is the same in both once conversions (`rune(x)`, `string(x)`, `[]byte(x)`, `T(x)`) are stripped and the bytes / strings package qualifiers are identified — and calls the same library functions by name (bytes.X ~ strings.X; builtins ignored). A condition weakened, inverted or dropped in one flavour makes the two flavours of one documented helper disagree on the same text",
		Run: func(c *check.Ctx) {
			m := c.M
			var pb, ps *pkgFuncs
			for _, p := range m.Pkgs {
				switch p.PkgPath {
				case ro + "/plugins/bytes":
					pb = collectPkgFuncs(m, p.Syntax, p.TypesInfo)
				case ro + "/plugins/strings":
					ps = collectPkgFuncs(m, p.Syntax, p.TypesInfo)
				}
			}
			if pb == nil || ps == nil {
				c.Info("plugins/twins", token.NoPos, "plugins/bytes and plugins/strings are not both loaded")
				return
			}
			var names []string
			for n := range pb.conds {
				if _, ok := ps.conds[n]; ok {
					names = append(names, n)
				}
			}
			sort.Strings(names)
			c.Inc("twin_functions", len(names))
			for _, n := range names {
				key := "plugins/bytes." + n + "/twin-of/plugins/strings." + n
				dc := diffMultiset(pb.conds[n], ps.conds[n])
				dl := diffMultiset(pb.calls[n], ps.calls[n])
				if dc == "" && dl == "" {
					c.OK(key, pb.pos[n], fmt.Sprintf("same %d branch conditions and same %d library calls in both flavours", len(pb.conds[n]), len(pb.calls[n])))
					continue
				}
				if dc != "" {
					c.Violation(key+"/conditions", pb.pos[n], "the bytes and the strings flavour of %s do not decide the same cases: %s", n, dc)
				}
				if dl != "" {
					c.Violation(key+"/calls", pb.pos[n], "the bytes and the strings flavour of %s do not call the same library functions: %s", n, dl)
				}
			}
		},
	}
}

type pkgFuncs struct {
	conds map[string][]string
	calls map[string][]string
	pos   map[string]token.Pos
}

func collectPkgFuncs(m *model.Model, files []*ast.File, info *types.Info) *pkgFuncs {
	out := &pkgFuncs{conds: map[string][]string{}, calls: map[string][]string{}, pos: map[string]token.Pos{}}
	for _, f := range files {
		fname := m.Prog.Fset.Position(f.Pos()).Filename
		if strings.HasSuffix(fname, "_test.go") || strings.Contains(fname, "zz_verif") {
			continue
		}
		for _, d := range f.Decls {
			fd, ok := d.(*ast.FuncDecl)
			if !ok || fd.Body == nil || fd.Recv != nil {
				continue
			}
			name := fd.Name.Name
			out.pos[name] = fd.Pos()
			out.conds[name] = []string{}
			out.calls[name] = []string{}
			ast.Inspect(fd.Body, func(x ast.Node) bool {
				switch y := x.(type) {
				case *ast.IfStmt:
					out.conds[name] = append(out.conds[name], "if "+normTwin(info, y.Cond))
				case *ast.ForStmt:
					if y.Cond != nil {
						out.conds[name] = append(out.conds[name], "for "+normTwin(info, y.Cond))
					}
				case *ast.CaseClause:
					for _, e := range y.List {
						out.conds[name] = append(out.conds[name], "case "+normTwin(info, e))
					}
				case *ast.CallExpr:
					if tv, ok := info.Types[y.Fun]; ok && tv.IsType() {
						return true // conversion
					}
					cl := model.Callee(info, y)
					if cl == nil || cl.Pkg() == nil {
						return true
					}
					pp := cl.Pkg().Path()
					if pp == "bytes" || pp == "strings" {
						pp = "text"
					}
					if strings.HasPrefix(pp, ro) {
						pp = "ro"
						if strings.Contains(cl.Pkg().Path(), "/plugins/") {
							pp = "self"
						}
					}
					out.calls[name] = append(out.calls[name], pp+"."+flavourless(cl.Name()))
				}
				return true
			})
		}
	}
	return out
}

// normTwin prints an expression with conversions stripped and the bytes/strings qualifiers identified.
func normTwin(info *types.Info, e ast.Expr) string {
	var pr func(e ast.Expr) string
	pr = func(e ast.Expr) string {
		switch x := ast.Unparen(e).(type) {
		case *ast.CallExpr:
			if tv, ok := info.Types[x.Fun]; ok && tv.IsType() && len(x.Args) == 1 {
				return pr(x.Args[0])
			}
			var args []string
			for _, a := range x.Args {
				args = append(args, pr(a))
			}
			return pr(x.Fun) + "(" + strings.Join(args, ", ") + ")"
		case *ast.SelectorExpr:
			if id, ok := x.X.(*ast.Ident); ok {
				if pn, ok := info.Uses[id].(*types.PkgName); ok {
					q := pn.Imported().Path()
					if q == "bytes" || q == "strings" {
						q = "text"
					}
					return q + "." + x.Sel.Name
				}
			}
			return pr(x.X) + "." + x.Sel.Name
		case *ast.BinaryExpr:
			return "(" + pr(x.X) + " " + x.Op.String() + " " + pr(x.Y) + ")"
		case *ast.UnaryExpr:
			return x.Op.String() + pr(x.X)
		case *ast.IndexExpr:
			return pr(x.X) + "[" + pr(x.Index) + "]"
		case *ast.SliceExpr:
			s := pr(x.X) + "["
			if x.Low != nil {
				s += pr(x.Low)
			}
			s += ":"
			if x.High != nil {
				s += pr(x.High)
			}
			return s + "]"
		case *ast.BasicLit:
			// 'a' and "a" denote the same text in the two flavours
			return strings.Trim(x.Value, "'\"`")
		case *ast.Ident:
			return x.Name
		}
		return types.ExprString(e)
	}
	return pr(e)
}

func diffMultiset(a, b []string) string {
	cnt := map[string]int{}
	for _, x := range a {
		cnt[x]++
	}
	for _, x := range b {
		cnt[x]--
	}
	var onlyA, onlyB []string
	for k, v := range cnt {
		for ; v > 0; v-- {
			onlyA = append(onlyA, k)
		}
		for ; v < 0; v++ {
			onlyB = append(onlyB, k)
		}
	}
	sort.Strings(onlyA)
	sort.Strings(onlyB)
	if len(onlyA) == 0 && len(onlyB) == 0 {
		return ""
	}
	return fmt.Sprintf("only in bytes: %v; only in strings: %v", onlyA, onlyB)
}

// flavourless strips the suffix by which the standard library names the flavour of one operation
// (ReplaceAll / ReplaceAllString, WriteByte / WriteRune, Bytes() / String()).
func flavourless(name string) string {
	for _, suf := range []string{"String", "Bytes", "Byte", "Rune"} {
		if name == suf {
			return "<value>"
		}
		if strings.HasSuffix(name, suf) {
			return strings.TrimSuffix(name, suf)
		}
	}
	return name
}

// HOMONYM-CALLED: a lift that is named after a library function calls it.
func ruleHomonymCalled() check.Rule {
	return check.Rule{
		Name: "HOMONYM-CALLED",
		Doc:  "for every plugin package and every library package L that at least one of its exported functions lifts under its own name (F calls L.F): every exported function G of the plugin for which L.G exists as a function reaches a call of L.G — in its own body, or through the exported or unexported functions of the plugin it delegates to. A lift re-implemented on top of a sibling (`Parse` through `ParseInLocation(layout, time.UTC)`) no longer returns what the function it is named after returns",
		Run: func(c *check.Ctx) {
			m := c.M
			n := 0
			for _, p := range m.Pkgs {
				if !c.ArmedPkg(p.PkgPath) {
					continue
				}
				info := p.TypesInfo
				var fds []*ast.FuncDecl
				for _, f := range p.Syntax {
					if strings.HasSuffix(c.Prog.Fset.Position(f.Pos()).Filename, "_test.go") {
						continue
					}
					for _, d := range f.Decls {
						if fd, ok := d.(*ast.FuncDecl); ok && fd.Body != nil && fd.Recv == nil && !check.IsControlName(fd.Name.Name) {
							fds = append(fds, fd)
						}
					}
				}
				// library packages lifted under their own names
				lifts := map[*types.Package]int{}
				for _, fd := range fds {
					if !fd.Name.IsExported() {
						continue
					}
					seen := map[*types.Package]bool{}
					ast.Inspect(fd.Body, func(x ast.Node) bool {
						if call, ok := x.(*ast.CallExpr); ok {
							if cl := model.Callee(info, call); cl != nil && cl.Pkg() != nil && cl.Pkg() != p.Types && !strings.HasPrefix(cl.Pkg().Path(), ro) {
								if sig, _ := cl.Type().(*types.Signature); sig != nil && sig.Recv() == nil && cl.Name() == fd.Name.Name && !seen[cl.Pkg()] {
									seen[cl.Pkg()] = true
									lifts[cl.Pkg()]++
								}
							}
						}
						return true
					})
				}
				for lib, cnt := range lifts {
					if cnt < 1 {
						continue
					}
					for _, fd := range fds {
						if !fd.Name.IsExported() {
							continue
						}
						hom, ok := lib.Scope().Lookup(fd.Name.Name).(*types.Func)
						if !ok || !hom.Exported() {
							continue
						}
						n++
						key := fmt.Sprintf("%s.%s/calls-%s.%s", model.ShortPkg(p.PkgPath), fd.Name.Name, lib.Name(), hom.Name())
						// a call of the homonym, or the homonym handed on as a function value (ro.Map(strconv.Itoa))
						var refs func(q *packages.Package, root ast.Node, depth int) bool
						refs = func(q *packages.Package, root ast.Node, depth int) bool {
							found := false
							ast.Inspect(root, func(x ast.Node) bool {
								if found {
									return false
								}
								switch y := x.(type) {
								case *ast.Ident:
									if q.TypesInfo.Uses[y] == types.Object(hom) {
										found = true
									}
								case *ast.CallExpr:
									if depth > 0 {
										for _, b := range calleeBodies(m, q, y) {
											if refs(b.Pkg, b.Body, depth-1) {
												found = true
											}
										}
									}
								}
								return !found
							})
							return found
						}
						if refs(p, fd.Body, 3) {
							c.OK(key, fd.Pos(), "reaches a call of the function it is named after")
						} else {
							c.Violation(key, fd.Pos(), "%s is named after %s.%s (the package its siblings lift under their own names) but never calls it: what it emits is not what that function returns", fd.Name.Name, lib.Name(), hom.Name())
						}
					}
				}
			}
			c.Inc("homonym_functions", n)
		},
	}
}

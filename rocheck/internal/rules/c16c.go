package rules

import (
	"fmt"
	"go/ast"
	"go/token"
	"go/types"
	"strings"

	"golang.org/x/tools/go/packages"

	"rocheck/internal/check"
	"rocheck/internal/model"
)

// TIMER-RESET-DRAINED: the documented contract of (*time.Timer).Reset for channel timers.
//
// Package time: "For a chan-based timer created with NewTimer, [before Go 1.23] Reset should be
// invoked only on stopped or expired timers with drained channels". Which semantics a program gets
// is decided by the go directive of its main module, so a library whose own go directive is below
// 1.23 has to respect the contract. A Reset of a running (or fired and unread) channel timer leaves
// the old tick in the channel: the next receive returns at once, i.e. the delayed notification is
// delivered before its delay. Timers created with time.AfterFunc have no channel and may be Reset
// freely (Timeout), as may Tickers.
func ruleTimerResetDrained() check.Rule {
	return check.Rule{
		Name:        "TIMER-RESET-DRAINED",
		NeedControl: true,
		Doc:         "every (*time.Timer).Reset in an armed package whose go directive is below 1.23 is either on a timer all of whose definitions are time.AfterFunc calls (no channel), or lexically inside the select/receive clause that has just consumed that timer's tick, or preceded in the same function by the stop-and-drain idiom (if !t.Stop() { <-t.C } in plain or select form): a channel timer of any other provenance (a pool, a field, a parameter, time.NewTimer) that is Reset while running or unread keeps a stale tick in its channel and the next receive fires immediately (a recycled timer makes Timer(d) emit after microseconds)",
		Run: func(c *check.Ctx) {
			m := c.M
			n := 0
			for _, p := range m.Pkgs {
				if goVersionAtLeast(p.Types.GoVersion(), 1, 23) {
					continue
				}
				armed := c.ArmedPkg(p.PkgPath)
				info := p.TypesInfo
				for _, f := range p.Syntax {
					if strings.HasSuffix(c.Prog.Fset.Position(f.Pos()).Filename, "_test.go") {
						continue
					}
					for _, d := range f.Decls {
						fd, ok := d.(*ast.FuncDecl)
						if !ok || fd.Body == nil {
							continue
						}
						var stack []ast.Node
						ast.Inspect(fd.Body, func(x ast.Node) bool {
							if x == nil {
								stack = stack[:len(stack)-1]
								return true
							}
							stack = append(stack, x)
							call, ok := x.(*ast.CallExpr)
							if !ok {
								return true
							}
							fn := model.Callee(info, call)
							if fn == nil || fn.Name() != "Reset" || model.FuncKey(fn) != "time.(Timer).Reset" {
								return true
							}
							sel := callSelector(info, call)
							if sel == nil {
								return true
							}
							n++
							key := fmt.Sprintf("%s.%s/reset-%s", model.ShortPkg(p.PkgPath), model.DeclName(fd), types.ExprString(sel.X))
							switch {
							case timerIsFuncTimer(m, p, sel.X):
								if armed {
									c.OK(key, call.Pos(), "every definition of the timer is a time.AfterFunc call: no channel, Reset is unconditional")
								}
							case resetInsideTickClause(info, stack, sel.X):
								if armed {
									c.OK(key, call.Pos(), "the Reset is inside the clause that has just received the timer's tick: expired and drained")
								}
							case drainedBefore(info, fd.Body, sel.X, call.Pos()):
								if armed {
									c.OK(key, call.Pos(), "preceded by the stop-and-drain idiom")
								}
							default:
								c.Report(armed, key, call.Pos(), "Reset of the channel timer %s (go directive %s: pre-1.23 timer channels) that was neither created by time.AfterFunc, nor just received from, nor stopped and drained: a stale tick makes the next receive return immediately, before the delay", types.ExprString(sel.X), p.Types.GoVersion())
							}
							return true
						})
					}
				}
			}
			c.Inc("timer_resets", n)
		},
	}
}

func goVersionAtLeast(v string, major, minor int) bool {
	v = strings.TrimPrefix(v, "go")
	if v == "" {
		return false // unknown: assume the old semantics (the stricter contract)
	}
	var a, b int
	if _, err := fmt.Sscanf(v, "%d.%d", &a, &b); err != nil {
		return false
	}
	return a > major || (a == major && b >= minor)
}

// timerIsFuncTimer: every value the expression can hold was produced by time.AfterFunc.
func timerIsFuncTimer(m *model.Model, p *packages.Package, e ast.Expr) bool {
	info := p.TypesInfo
	isAfterFunc := func(x ast.Expr) bool {
		call, ok := ast.Unparen(x).(*ast.CallExpr)
		return ok && model.IsPkgFunc(model.Callee(info, call), "time", "AfterFunc")
	}
	switch y := ast.Unparen(e).(type) {
	case *ast.Ident:
		o := objOf(info, y)
		defs := m.Defs[o]
		if len(defs) == 0 {
			return false
		}
		for _, d := range defs {
			if d.Expr == nil || !isAfterFunc(d.Expr) {
				return false
			}
		}
		return true
	case *ast.SelectorExpr:
		s := info.Selections[y]
		if s == nil || s.Kind() != types.FieldVal {
			return false
		}
		field := s.Obj()
		found, all := 0, true
		for _, f := range p.Syntax {
			ast.Inspect(f, func(x ast.Node) bool {
				switch z := x.(type) {
				case *ast.AssignStmt:
					for i, l := range z.Lhs {
						ls, ok := ast.Unparen(l).(*ast.SelectorExpr)
						if !ok || info.Selections[ls] == nil || info.Selections[ls].Obj() != field {
							continue
						}
						found++
						if len(z.Rhs) != len(z.Lhs) || !isAfterFunc(z.Rhs[i]) {
							all = false
						}
					}
				case *ast.KeyValueExpr:
					if id, ok := z.Key.(*ast.Ident); ok && info.Uses[id] == field {
						found++
						if !isAfterFunc(z.Value) {
							all = false
						}
					}
				}
				return true
			})
		}
		return found > 0 && all
	}
	return false
}

// sameTimerChan: e is <timer>.C for the timer expression t (compared by resolved root and path).
func sameTimerChan(info *types.Info, e, t ast.Expr) bool {
	s, ok := ast.Unparen(e).(*ast.SelectorExpr)
	if !ok || s.Sel.Name != "C" {
		return false
	}
	return sameLvalue(info, s.X, t)
}

func sameLvalue(info *types.Info, a, b ast.Expr) bool {
	a, b = ast.Unparen(a), ast.Unparen(b)
	switch x := a.(type) {
	case *ast.Ident:
		y, ok := b.(*ast.Ident)
		return ok && objOf(info, x) != nil && objOf(info, x) == objOf(info, y)
	case *ast.SelectorExpr:
		y, ok := b.(*ast.SelectorExpr)
		return ok && x.Sel.Name == y.Sel.Name && sameLvalue(info, x.X, y.X)
	}
	return false
}

func receivesFrom(info *types.Info, n ast.Node, t ast.Expr) bool {
	found := false
	ast.Inspect(n, func(x ast.Node) bool {
		if u, ok := x.(*ast.UnaryExpr); ok && u.Op == token.ARROW && sameTimerChan(info, u.X, t) {
			found = true
		}
		return !found
	})
	return found
}

// resetInsideTickClause: an enclosing select clause's communication receives from t.C.
func resetInsideTickClause(info *types.Info, stack []ast.Node, t ast.Expr) bool {
	for _, n := range stack {
		if cc, ok := n.(*ast.CommClause); ok && cc.Comm != nil && receivesFrom(info, cc.Comm, t) {
			return true
		}
	}
	return false
}

// drainedBefore: `if !t.Stop() { ... <-t.C ... }` occurs in body before pos.
func drainedBefore(info *types.Info, body ast.Node, t ast.Expr, pos token.Pos) bool {
	found := false
	ast.Inspect(body, func(x ast.Node) bool {
		is, ok := x.(*ast.IfStmt)
		if !ok || is.Pos() >= pos || found {
			return !found
		}
		not, ok := ast.Unparen(is.Cond).(*ast.UnaryExpr)
		if !ok || not.Op != token.NOT {
			return true
		}
		call, ok := ast.Unparen(not.X).(*ast.CallExpr)
		if !ok {
			return true
		}
		s, ok := ast.Unparen(call.Fun).(*ast.SelectorExpr)
		if !ok || s.Sel.Name != "Stop" || !sameLvalue(info, s.X, t) {
			return true
		}
		if receivesFrom(info, is.Body, t) {
			found = true
		}
		return !found
	})
	return found
}

const controlsTimerReset = `
func verifControlTimerReset(t *time.Timer, d time.Duration) {
	t.Reset(d)
	<-t.C
}
`

// TICKER-ARG-POSITIVE (belief rule): a function that handles a zero duration does not hand it to time.NewTicker.
func ruleTickerArgPositive() check.Rule {
	return check.Rule{
		Name:        "TICKER-ARG-POSITIVE",
		NeedControl: true,
		Doc:         "time.NewTicker panics for a non-positive duration. Contradiction rule: when a function of an armed package tests a duration parameter against zero (`d == 0`, `d <= 0`, `d != 0`, `d > 0`: it believes d may be zero) and passes an expression built from that parameter to time.NewTicker, the call is guarded by a condition that excludes zero — otherwise the zero case the function goes on to handle never gets that far (IntervalWithInitial(0, d) fails with \"non-positive interval for NewTicker\" instead of emitting its first value at once)",
		Run: func(c *check.Ctx) {
			m := c.M
			n := 0
			for _, p := range m.Pkgs {
				armed := c.ArmedPkg(p.PkgPath)
				info := p.TypesInfo
				for _, fn := range funcNodes(p) {
					body := funcBody(fn)
					if body == nil {
						continue
					}
					// duration parameters of the enclosing functions that are tested against zero somewhere in body
					tested := map[types.Object]bool{}
					ast.Inspect(body, func(x ast.Node) bool {
						be, ok := x.(*ast.BinaryExpr)
						if !ok {
							return true
						}
						switch be.Op {
						case token.EQL, token.NEQ, token.LEQ, token.GTR, token.LSS, token.GEQ:
						default:
							return true
						}
						for _, side := range [][2]ast.Expr{{be.X, be.Y}, {be.Y, be.X}} {
							id, ok := ast.Unparen(side[0]).(*ast.Ident)
							if !ok {
								continue
							}
							v, ok := objOf(info, id).(*types.Var)
							if !ok || !isParamVar(m, v) || v.Type().String() != "time.Duration" {
								continue
							}
							if tv, ok := info.Types[side[1]]; ok && tv.Value != nil && tv.Value.String() == "0" {
								tested[v] = true
							}
						}
						return true
					})
					if len(tested) == 0 {
						continue
					}
					ast.Inspect(body, func(x ast.Node) bool {
						if l, ok := x.(*ast.FuncLit); ok && ast.Node(l) != fn {
							return false
						}
						call, ok := x.(*ast.CallExpr)
						if !ok || !model.IsPkgFunc(model.Callee(info, call), "time", "NewTicker") || len(call.Args) != 1 {
							return true
						}
						var param types.Object
						ast.Inspect(call.Args[0], func(z ast.Node) bool {
							if id, ok := z.(*ast.Ident); ok && tested[objOf(info, id)] {
								param = objOf(info, id)
							}
							return true
						})
						if param == nil {
							return true
						}
						n++
						key := fmt.Sprintf("%s/newticker-%s-positive", chainKey(m, p, m.EnclosingFuncs(p, fn), scLits(m)), param.Name())
						guarded := guardedByEdge(body, call, func(cond ast.Expr, polarity bool) bool {
							return excludesZero(info, cond, polarity, param)
						})
						if guarded {
							if armed {
								c.OK(key, call.Pos(), "guarded by a condition that excludes %s == 0", param.Name())
							}
						} else {
							c.Report(armed, key, call.Pos(), "time.NewTicker receives a duration built from %s, which this function tests against zero elsewhere, without a guard that excludes zero: NewTicker panics for a non-positive duration, so the zero case the function handles is never reached", param.Name())
						}
						return true
					})
				}
			}
			c.Inc("newticker_on_tested_params", n)
		},
	}
}

// excludesZero: (cond == polarity) implies param != 0 (param > 0, param != 0, !(param == 0), !(param <= 0)).
func excludesZero(info *types.Info, cond ast.Expr, polarity bool, param types.Object) bool {
	cond = ast.Unparen(cond)
	if u, ok := cond.(*ast.UnaryExpr); ok && u.Op == token.NOT {
		return excludesZero(info, u.X, !polarity, param)
	}
	be, ok := cond.(*ast.BinaryExpr)
	if !ok {
		return false
	}
	switch be.Op {
	case token.LAND:
		if polarity {
			return excludesZero(info, be.X, true, param) || excludesZero(info, be.Y, true, param)
		}
		return false
	case token.LOR:
		if !polarity {
			return excludesZero(info, be.X, false, param) || excludesZero(info, be.Y, false, param)
		}
		return false
	}
	isP := func(e ast.Expr) bool {
		id, ok := ast.Unparen(e).(*ast.Ident)
		return ok && objOf(info, id) == param
	}
	isZ := func(e ast.Expr) bool {
		tv, ok := info.Types[e]
		return ok && tv.Value != nil && tv.Value.String() == "0"
	}
	op := be.Op
	x, y := be.X, be.Y
	if isZ(x) && isP(y) { // 0 < p  ->  p > 0
		x, y = y, x
		switch op {
		case token.LSS:
			op = token.GTR
		case token.GTR:
			op = token.LSS
		case token.LEQ:
			op = token.GEQ
		case token.GEQ:
			op = token.LEQ
		}
	}
	if !isP(x) || !isZ(y) {
		return false
	}
	switch op {
	case token.GTR, token.NEQ:
		return polarity
	case token.EQL, token.LEQ:
		return !polarity
	}
	return false
}

const controlsTickerArg = `
func verifControlTickerZero(d time.Duration) *time.Ticker {
	t := time.NewTicker(d * 2)
	if d == 0 {
		t.Reset(time.Second)
	}
	return t
}
`

// CLOCK-ORIGIN: a timestamp that is compared with clock readings never starts from a constant.
func ruleClockOrigin() check.Rule {
	return check.Rule{
		Name:        "CLOCK-ORIGIN",
		NeedControl: true,
		Doc:         "a variable of an armed package that is assigned clock readings (the result of a function named Now*, of package time or of the repository's clock package, possibly through a local) and is declared with a constant value is not used in an arithmetic comparison with a clock reading: the clock's origin is arbitrary (monotonic nanoseconds since process start), so `last + interval < now` with last = 0 measures the age of the process — ThrottleTime drops every value until the process is older than the interval",
		Run: func(c *check.Ctx) {
			m := c.M
			n := 0
			for _, p := range m.Pkgs {
				armed := c.ArmedPkg(p.PkgPath)
				info := p.TypesInfo
				isClockCall := func(e ast.Expr) bool {
					found := false
					ast.Inspect(e, func(x ast.Node) bool {
						if call, ok := x.(*ast.CallExpr); ok {
							if fn := model.Callee(info, call); fn != nil && strings.HasPrefix(fn.Name(), "Now") && fn.Pkg() != nil && (fn.Pkg().Path() == "time" || strings.HasSuffix(fn.Pkg().Path(), "/xtime")) {
								found = true
							}
						}
						return !found
					})
					return found
				}
				var clockDerived func(e ast.Expr, depth int) bool
				clockDerived = func(e ast.Expr, depth int) bool {
					if isClockCall(e) {
						return true
					}
					if depth == 0 {
						return false
					}
					found := false
					ast.Inspect(e, func(x ast.Node) bool {
						if id, ok := x.(*ast.Ident); ok && !found {
							if v, ok := objOf(info, id).(*types.Var); ok {
								for _, d := range m.Defs[v] {
									if d.Expr != nil && isClockCall(d.Expr) {
										found = true
									}
								}
							}
						}
						return !found
					})
					return found
				}
				for o, defs := range m.Defs {
					v, ok := o.(*types.Var)
					if !ok || v.IsField() || v.Pkg() != p.Types || len(defs) < 2 {
						continue
					}
					var constDef *model.DefSite
					clockDef := false
					for i := range defs {
						d := &defs[i]
						if d.Expr == nil {
							continue
						}
						if tv, ok := info.Types[d.Expr]; ok && tv.Value != nil {
							constDef = d
						} else if clockDerived(d.Expr, 1) {
							clockDef = true
						}
					}
					if constDef == nil || !clockDef {
						continue
					}
					// used in a comparison together with a clock reading
					var cmp *ast.BinaryExpr
					for _, f := range p.Syntax {
						if !(f.Pos() <= v.Pos() && v.Pos() < f.End()) {
							continue
						}
						ast.Inspect(f, func(x ast.Node) bool {
							be, ok := x.(*ast.BinaryExpr)
							if !ok || cmp != nil {
								return cmp == nil
							}
							switch be.Op {
							case token.LSS, token.GTR, token.LEQ, token.GEQ:
							default:
								return true
							}
							uses := false
							ast.Inspect(be, func(z ast.Node) bool {
								if id, ok := z.(*ast.Ident); ok && objOf(info, id) == o {
									uses = true
								}
								return !uses
							})
							if uses && (clockDerived(be.X, 1) || clockDerived(be.Y, 1)) {
								cmp = be
							}
							return cmp == nil
						})
					}
					if cmp == nil {
						continue
					}
					n++
					key := fmt.Sprintf("%s.%s/clock-origin-%s", model.ShortPkg(p.PkgPath), enclosingDeclName(m, p, constDef.Node), v.Name())
					c.Report(armed, key, constDef.Pos, "%s starts from the constant %s and is compared with clock readings (%s): the clock's origin is arbitrary, so the first comparison measures the age of the process instead of the time since the last event", v.Name(), types.ExprString(constDef.Expr), c.Prog.Rel(cmp.Pos()))
				}
			}
			c.Inc("constant_started_timestamps", n)
		},
	}
}

const controlsClockOrigin = `
func verifControlClockOrigin(interval time.Duration) func() bool {
	lastAt := int64(0)
	return func() bool {
		now := time.Now().UnixNano()
		if lastAt+int64(interval) < now {
			lastAt = now
			return true
		}
		return false
	}
}
`

// SWAP-DELIVER-COUPLED: buffers taken by concurrent flushers are delivered in the order they were taken.
func ruleSwapDeliverCoupled() check.Rule {
	return check.Rule{
		Name:        "SWAP-DELIVER-COUPLED",
		NeedControl: true,
		Doc:         "a function of a subscribe closure that takes the operator's buffer out under a lock (tmp := buffer; buffer = fresh) and sends it to the destination after that lock was released, and that runs in two possibly-concurrent contexts (the source's callbacks and a ticker's, or two sources'), sends it under a second lock that was already held when the buffer was taken: otherwise flusher A takes buffer 1, flusher B takes buffer 2 and delivers it first — the buffers come out in another order than their values went in (BufferWithTimeOrCount: the count-triggered flush on the source's goroutine against the time-triggered flush on the ticker's)",
		Run: func(c *check.Ctx) {
			m := c.M
			h := newHeldDB(m)
			n := 0
			for _, sc := range m.SCs {
				if !c.Armed(sc) && !check.IsControlName(sc.Name) {
					continue
				}
				info := sc.Pkg.TypesInfo
				ast.Inspect(sc.Lit.Body, func(x ast.Node) bool {
					lit, ok := x.(*ast.FuncLit)
					if !ok || lit == sc.Lit {
						return true
					}
					// tmp := V … V = fresh, V a variable of the subscribe closure declared outside lit
					var take *ast.AssignStmt
					var tmp, shared types.Object
					for _, st := range lit.Body.List {
						as, ok := st.(*ast.AssignStmt)
						if !ok || len(as.Lhs) != 1 || len(as.Rhs) != 1 {
							continue
						}
						l, lok := as.Lhs[0].(*ast.Ident)
						r, rok := ast.Unparen(as.Rhs[0]).(*ast.Ident)
						if as.Tok == token.DEFINE && lok && rok {
							if v, ok := objOf(info, r).(*types.Var); ok && !v.IsField() && !(v.Pos() >= lit.Pos() && v.Pos() < lit.End()) {
								if _, isSlice := v.Type().Underlying().(*types.Slice); isSlice {
									take, tmp, shared = as, objOf(info, l), v
								}
							}
						}
					}
					if take == nil {
						return true
					}
					reset := false
					for _, st := range lit.Body.List {
						if as, ok := st.(*ast.AssignStmt); ok && as.Pos() > take.Pos() && len(as.Lhs) == 1 {
							if l, ok := as.Lhs[0].(*ast.Ident); ok && objOf(info, l) == shared {
								reset = true
							}
						}
					}
					if !reset {
						return true
					}
					// the delivery of tmp
					var send *ast.CallExpr
					ast.Inspect(lit.Body, func(y ast.Node) bool {
						call, ok := y.(*ast.CallExpr)
						if !ok || send != nil {
							return send == nil
						}
						if name, isObs := m.Obj.ObserverMethods[model.Callee(info, call)]; isObs && notifKind(name) == 0 {
							for _, a := range call.Args {
								if id, ok := ast.Unparen(a).(*ast.Ident); ok && objOf(info, id) == tmp {
									send = call
								}
							}
						}
						return send == nil
					})
					if send == nil {
						return true
					}
					heldAtTake := h.heldAt(sc.Pkg, take)
					heldAtSend := h.heldAt(sc.Pkg, send)
					if len(heldAtTake) == 0 {
						return true // not a locked hand-over: other rules speak about unprotected state
					}
					// runs in two possibly-concurrent contexts?
					concurrent := false
					places := sc.FnPlaces[ast.Node(lit)]
					for i := range places {
						for j := i; j < len(places); j++ {
							A := placeOfAccess(places[i], take)
							B := placeOfAccess(places[j], take)
							if i == j && !model.Multi(places[i].Ctx) {
								continue
							}
							if conc, _ := model.MayRunConcurrently(A, B); conc {
								concurrent = true
							}
						}
					}
					if !concurrent {
						return true
					}
					n++
					key := fmt.Sprintf("%s/swap-deliver-%s", sc, shared.Name())
					coupled := false
					for k := range heldAtSend {
						if heldAtTake[k] {
							coupled = true // still the same lock, or a delivery lock that was held when the buffer was taken
						}
					}
					if coupled {
						if c.Armed(sc) {
							c.OK(key, send.Pos(), "delivered under a lock that was held when the buffer was taken")
						}
					} else {
						c.Report(c.Armed(sc), key, send.Pos(), "%s is taken under %s and delivered after that lock was released, under no lock that was held when it was taken, by a function that runs in possibly-concurrent contexts: a buffer taken later can be delivered first", shared.Name(), heldAtTake)
					}
					return true
				})
			}
			c.Inc("concurrent_swap_deliver_sites", n)
		},
	}
}

const controlsSwapDeliver = `
func verifControlSwapDeliver[T any](tick Observable[int64]) func(Observable[T]) Observable[[]T] {
	return func(source Observable[T]) Observable[[]T] {
		return NewObservableWithContext(func(subscriberCtx context.Context, destination Observer[[]T]) Teardown {
			var mu sync.Mutex
			buffer := []T{}
			flush := func(ctx context.Context) {
				mu.Lock()
				tmp := buffer
				buffer = []T{}
				mu.Unlock()
				destination.NextWithContext(ctx, tmp)
			}
			subscriptions := NewSubscription(nil)
			subscriptions.AddUnsubscribable(source.SubscribeWithContext(subscriberCtx, NewObserverWithContext(
				func(ctx context.Context, v T) {
					mu.Lock()
					buffer = append(buffer, v)
					mu.Unlock()
					flush(ctx)
				},
				destination.ErrorWithContext, destination.CompleteWithContext)))
			subscriptions.AddUnsubscribable(tick.SubscribeWithContext(subscriberCtx, NewObserverWithContext(
				func(ctx context.Context, _ int64) { flush(ctx) },
				destination.ErrorWithContext, destination.CompleteWithContext)))
			return subscriptions.Unsubscribe
		})
	}
}
`

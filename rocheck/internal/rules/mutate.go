package rules

import (
	"fmt"
	"go/ast"
	"go/token"
	"go/types"
	"golang.org/x/tools/go/packages"
	"hash/fnv"
	"os"
	"runtime"
	"sort"
	"strings"
	"time"

	"rocheck/internal/check"
	"rocheck/internal/load"
	"rocheck/internal/model"
)

// Thorough tier: single-site mutation sweep generated from the model. For every
// obligation-bearing site the canonical property-breaking edit is produced as a source
// overlay; the mutated package must still type-check, and the property's rules must
// report the mutated construct. Mutants are analysed, never executed.

type edit struct {
	start, end int // byte offsets in the file
	text       string
}

type mutant struct {
	ID     string // operator + construct
	Op     string
	Group  string // constructs that must not share a batch (SC name / type name)
	File   string
	Edits  []edit
	Expect string // substring that a new non-ok obligation key must contain
	Desc   string
}

type mutOp struct {
	Name string
	Doc  string
	Gen  func(m *model.Model, scope map[string]bool) []mutant
	// Exploratory operators generate every syntactic mutant of a kind (statement swap, statement deletion, condition
	// negation). Many of those are equivalent or change values only, so a survivor is not a defect of the checker;
	// what is checked is that the share of mutants this property's rules report does not fall below the recorded floor.
	Exploratory bool
}

func offset(m *model.Model, pos token.Pos) int { return m.Prog.Fset.Position(pos).Offset }
func fileOf(m *model.Model, pos token.Pos) string {
	return m.Prog.Fset.Position(pos).Filename
}

func inScopeSC(sc *model.SC, scope map[string]bool) bool {
	return scope[sc.Pkg.PkgPath] && !check.IsControlName(sc.Name)
}

// --- operators ---------------------------------------------------------------------------

// ctx argument -> context.Background()
var mutCtxBackground = mutOp{Name: "ctx->Background", Doc: "replace the context operand of a notification / upstream subscription by context.Background()",
	Gen: func(m *model.Model, scope map[string]bool) []mutant {
		var out []mutant
		for _, sc := range m.SCs {
			if !inScopeSC(sc, scope) {
				continue
			}
			seen := map[token.Pos]bool{}
			add := func(e ast.Expr, key string, pkgInfo *types.Info) {
				if e == nil || seen[e.Pos()] {
					return
				}
				if t := pkgInfo.TypeOf(e); t == nil || !model.IsContext(t) {
					return
				}
				// only sites lexically inside the SC (helpers are shared between SCs)
				if !(sc.Lit.Pos() <= e.Pos() && e.End() <= sc.Lit.End()) {
					return
				}
				seen[e.Pos()] = true
				out = append(out, mutant{ID: "ctx->Background:" + key, Op: "ctx->Background", Group: key, File: fileOf(m, e.Pos()),
					Edits: []edit{{offset(m, e.Pos()), offset(m, e.End()), "context.Background()"}}, Expect: key + "/ctx",
					Desc: fmt.Sprintf("%s: context operand %q replaced by context.Background()", key, types.ExprString(e))})
			}
			for _, e := range sc.Emits {
				if !e.Forwarder && e.WithCtx {
					add(e.CtxArg, e.Key, e.Pkg.TypesInfo)
				}
			}
			for _, s := range sc.SubSites {
				add(s.CtxArg, s.Key, s.Pkg.TypesInfo)
			}
		}
		return out
	}}

// slot context -> subscriber context
var mutCtxSubscriber = mutOp{Name: "slotctx->subscriberctx", Doc: "replace the context operand of a notification sent from inside a source callback by the subscription-time context",
	Gen: func(m *model.Model, scope map[string]bool) []mutant {
		var out []mutant
		for _, sc := range m.SCs {
			if !inScopeSC(sc, scope) || sc.Ctx0 == nil {
				continue
			}
			seen := map[token.Pos]bool{}
			for _, e := range sc.Emits {
				if e.Forwarder || !e.WithCtx || e.CtxArg == nil || !inSourceSlot(e.Ctx) || seen[e.CtxArg.Pos()] {
					continue
				}
				if !(sc.Lit.Pos() <= e.CtxArg.Pos() && e.CtxArg.End() <= sc.Lit.End()) {
					continue
				}
				if id, ok := ast.Unparen(e.CtxArg).(*ast.Ident); ok && objOf(e.Pkg.TypesInfo, id) == types.Object(sc.Ctx0) {
					continue
				}
				// the subscriber context must not be shadowed at the use
				if inner := e.Pkg.Types.Scope().Innermost(e.CtxArg.Pos()); inner == nil {
					continue
				} else if _, o := inner.LookupParent(sc.Ctx0.Name(), e.CtxArg.Pos()); o != types.Object(sc.Ctx0) {
					continue
				}
				seen[e.CtxArg.Pos()] = true
				out = append(out, mutant{ID: "slotctx->subscriberctx:" + e.Key, Op: "slotctx->subscriberctx", Group: e.Key, File: fileOf(m, e.CtxArg.Pos()),
					Edits: []edit{{offset(m, e.CtxArg.Pos()), offset(m, e.CtxArg.End()), sc.Ctx0.Name()}}, Expect: e.Key + "/ctx",
					Desc: fmt.Sprintf("%s: context operand %q replaced by the subscriber context %s", e.Key, types.ExprString(e.CtxArg), sc.Ctx0.Name())})
			}
		}
		return out
	}}

// safe constructor -> unsafe sibling
var mutUnsafeCtor = mutOp{Name: "safe->unsafe", Doc: "replace the safe observable constructor of a multi-producer operator by its unsafe sibling",
	Gen: func(m *model.Model, scope map[string]bool) []mutant {
		var out []mutant
		for _, sc := range m.SCs {
			if !inScopeSC(sc, scope) || sc.Mode != model.ModeSafe {
				continue
			}
			// multi-producer?
			multi := false
			var emits []*model.EmitSite
			for _, e := range sc.Emits {
				if e.ToDest {
					emits = append(emits, e)
				}
			}
			for i := 0; i < len(emits) && !multi; i++ {
				for j := i; j < len(emits); j++ {
					if conc, _ := model.MayRunConcurrently(model.PlaceOf(&emits[i].Rec), model.PlaceOf(&emits[j].Rec)); conc {
						multi = true
						break
					}
				}
			}
			if !multi {
				continue
			}
			var id *ast.Ident
			switch f := ast.Unparen(sc.CtorCall.Fun).(type) {
			case *ast.Ident:
				id = f
			case *ast.SelectorExpr:
				id = f.Sel
			case *ast.IndexExpr:
				if x, ok := f.X.(*ast.Ident); ok {
					id = x
				}
			}
			if id == nil {
				continue
			}
			repl := ""
			switch id.Name {
			case "NewObservableWithContext", "NewSafeObservableWithContext":
				repl = "NewUnsafeObservableWithContext"
			case "NewObservable", "NewSafeObservable":
				repl = "NewUnsafeObservable"
			}
			if repl == "" {
				continue
			}
			out = append(out, mutant{ID: "safe->unsafe:" + sc.String(), Op: "safe->unsafe", Group: sc.String(), File: fileOf(m, id.Pos()),
				Edits: []edit{{offset(m, id.Pos()), offset(m, id.End()), repl}}, Expect: sc.String() + "/",
				Desc: fmt.Sprintf("%s: %s replaced by %s", sc, id.Name, repl)})
		}
		return out
	}}

// teardown that no longer releases
var mutDropTeardown = mutOp{Name: "teardown->noop", Doc: "replace the returned teardown x.Unsubscribe by a function that releases nothing",
	Gen: func(m *model.Model, scope map[string]bool) []mutant {
		var out []mutant
		for _, sc := range m.SCs {
			if !inScopeSC(sc, scope) {
				continue
			}
			// when every upstream subscription is awaited before the closure returns and there is no
			// timer/goroutine, the returned teardown has nothing left to release: the mutant would be
			// equivalent, not a violation
			pending := len(sc.Timers)+len(sc.Gos) > 0
			for _, s := range sc.SubSites {
				if !s.Src.Awaited {
					pending = true
				}
			}
			if !pending {
				continue
			}
			for i, tr := range sc.Teardowns {
				if tr.Depth != 0 || tr.Val == nil || tr.Val.Kind != model.AVMethodVal || tr.Val.Method == nil || tr.Val.Method.Name() != "Unsubscribe" {
					continue
				}
				sel, ok := ast.Unparen(tr.Expr).(*ast.SelectorExpr)
				if !ok {
					continue
				}
				recv := types.ExprString(sel.X)
				out = append(out, mutant{ID: fmt.Sprintf("teardown->noop:%s#%d", sc, i+1), Op: "teardown->noop", Group: sc.String(), File: fileOf(m, tr.Expr.Pos()),
					Edits: []edit{{offset(m, tr.Expr.Pos()), offset(m, tr.Expr.End()), "func() { _ = " + recv + " }"}}, Expect: sc.String() + "/",
					Desc: fmt.Sprintf("%s: teardown %s replaced by a no-op", sc, types.ExprString(tr.Expr))})
			}
		}
		return out
	}}

// error slot forwarder -> swallow
var mutSwallowError = mutOp{Name: "error-slot->swallow", Doc: "replace the error slot destination.ErrorWithContext of an upstream observer by an empty callback",
	Gen: func(m *model.Model, scope map[string]bool) []mutant {
		var out []mutant
		for _, sc := range m.SCs {
			if !inScopeSC(sc, scope) {
				continue
			}
			for _, e := range sc.Emits {
				if !e.Forwarder || !e.ToDest || e.Kind != model.EmitError || e.Slot != model.SlotError || e.Ctx.Kind != model.KSrc {
					continue
				}
				sel, ok := e.Node.(*ast.SelectorExpr)
				if !ok || !(sc.Lit.Pos() <= sel.Pos() && sel.End() <= sc.Lit.End()) {
					continue
				}
				out = append(out, mutant{ID: "error-slot->swallow:" + e.Key, Op: "error-slot->swallow", Group: sc.String(), File: fileOf(m, sel.Pos()),
					Edits: []edit{{offset(m, sel.Pos()), offset(m, sel.End()), "func(context.Context, error) {}"}}, Expect: sc.String() + "/",
					Desc: fmt.Sprintf("%s: error forwarder replaced by an empty callback", e.Key)})
			}
		}
		return out
	}}

// go in front of a value emission
var mutAsyncNext = mutOp{Name: "next->go", Doc: "start the value emission of a next slot in a new goroutine",
	Gen: func(m *model.Model, scope map[string]bool) []mutant {
		var out []mutant
		for _, sc := range m.SCs {
			if !inScopeSC(sc, scope) || len(sc.SubSites) == 0 {
				continue
			}
			for _, e := range sc.Emits {
				if e.Forwarder || !e.ToDest || e.Kind != model.EmitNext || e.Ctx.Kind != model.KSrc || e.Deferred {
					continue
				}
				call, ok := e.Node.(*ast.CallExpr)
				if !ok || !(sc.Lit.Pos() <= call.Pos() && call.End() <= sc.Lit.End()) {
					continue
				}
				if _, isStmt := m.Parent(e.Pkg, call).(*ast.ExprStmt); !isStmt {
					continue
				}
				if hasAsyncAncestor(e.Ctx) != nil {
					continue
				}
				out = append(out, mutant{ID: "next->go:" + e.Key, Op: "next->go", Group: sc.String(), File: fileOf(m, call.Pos()),
					Edits: []edit{{offset(m, call.Pos()), offset(m, call.Pos()), "go "}}, Expect: sc.String() + "/",
					Desc: fmt.Sprintf("%s: value emitted from a new goroutine", e.Key)})
			}
		}
		return out
	}}

// delete the Wait of an awaited attempt
var mutDropWait = mutOp{Name: "drop-wait", Doc: "remove the Wait on the subscription of an attempt in a re-subscribing operator",
	Gen: func(m *model.Model, scope map[string]bool) []mutant {
		var out []mutant
		for _, sc := range m.SCs {
			if !inScopeSC(sc, scope) {
				continue
			}
			for _, b := range sc.Blocks {
				if b.What != "wait" || b.Recv == nil || b.Recv.Kind != model.AVSub {
					continue
				}
				call, ok := b.Node.(*ast.CallExpr)
				if !ok || !(sc.Lit.Pos() <= call.Pos() && call.End() <= sc.Lit.End()) {
					continue
				}
				sel, ok := ast.Unparen(call.Fun).(*ast.SelectorExpr)
				if !ok {
					continue
				}
				var ed edit
				if _, isIdent := ast.Unparen(sel.X).(*ast.Ident); isIdent {
					// sub.Wait()  ->  _ = sub
					ed = edit{offset(m, call.Pos()), offset(m, call.End()), "_ = " + types.ExprString(sel.X)}
				} else {
					// <expr>.Wait() -> _ = <expr>
					ed = edit{offset(m, sel.X.End()), offset(m, call.End()), ""}
					out = append(out, mutant{ID: fmt.Sprintf("drop-wait:%s/%s", sc, model.CtxKey(b.Ctx, b.Slot)), Op: "drop-wait", Group: sc.String(), File: fileOf(m, call.Pos()),
						Edits: []edit{{offset(m, call.Pos()), offset(m, call.Pos()), "_ = "}, ed}, Expect: sc.String() + "/",
						Desc: fmt.Sprintf("%s: chained Wait removed", sc)})
					continue
				}
				out = append(out, mutant{ID: fmt.Sprintf("drop-wait:%s/%s", sc, model.CtxKey(b.Ctx, b.Slot)), Op: "drop-wait", Group: sc.String(), File: fileOf(m, call.Pos()),
					Edits: []edit{ed}, Expect: sc.String() + "/", Desc: fmt.Sprintf("%s: Wait removed", sc)})
			}
		}
		return out
	}}

// hoist a state variable of the subscribe closure to the application level
var mutHoistState = mutOp{Name: "hoist-state", Doc: "move the declaration of a per-subscription state variable out of the subscribe closure (one level up)",
	Gen: func(m *model.Model, scope map[string]bool) []mutant {
		var out []mutant
		for _, sc := range m.SCs {
			if !inScopeSC(sc, scope) {
				continue
			}
			info := sc.Pkg.TypesInfo
			// the return statement that contains the constructor call, in the enclosing function
			var ret *ast.ReturnStmt
			for n := ast.Node(sc.CtorCall); n != nil; n = m.Parent(sc.Pkg, n) {
				if r, ok := n.(*ast.ReturnStmt); ok {
					ret = r
					break
				}
				if _, isFn := n.(*ast.FuncLit); isFn && n != ast.Node(sc.Lit) {
					break
				}
			}
			if ret == nil {
				continue
			}
			for _, st := range sc.Lit.Body.List {
				as, ok := st.(*ast.AssignStmt)
				if !ok || as.Tok != token.DEFINE || len(as.Lhs) != 1 || len(as.Rhs) != 1 {
					continue
				}
				id, ok := as.Lhs[0].(*ast.Ident)
				if !ok {
					continue
				}
				v, _ := info.Defs[id].(*types.Var)
				if v == nil {
					continue
				}
				// only plain values (counters, flags, buffers): basic, slice, map
				switch v.Type().Underlying().(type) {
				case *types.Basic, *types.Slice, *types.Map:
				default:
					continue
				}
				// RHS must not mention anything declared inside the SC
				local := false
				ast.Inspect(as.Rhs[0], func(n ast.Node) bool {
					if x, ok := n.(*ast.Ident); ok {
						if o := objOf(info, x); o != nil && sc.Lit.Pos() <= o.Pos() && o.Pos() < sc.Lit.End() {
							local = true
						}
					}
					return true
				})
				if local {
					continue
				}
				// written somewhere in a nested literal?
				written := false
				ast.Inspect(sc.Lit.Body, func(n ast.Node) bool {
					if l, ok := n.(*ast.FuncLit); ok {
						for _, w := range writesIn(info, l) {
							if w.Var == v {
								written = true
							}
						}
					}
					return true
				})
				if !written {
					continue
				}
				src, err := os.ReadFile(fileOf(m, as.Pos()))
				if err != nil {
					continue
				}
				stmtText := string(src[offset(m, as.Pos()):offset(m, as.End())])
				out = append(out, mutant{ID: fmt.Sprintf("hoist-state:%s/var-%s", sc, v.Name()), Op: "hoist-state", Group: sc.String(), File: fileOf(m, as.Pos()),
					Edits: []edit{
						{offset(m, ret.Pos()), offset(m, ret.Pos()), stmtText + "\n"},
						{offset(m, as.Pos()), offset(m, as.End()), ""},
					}, Expect: sc.String() + "/",
					Desc: fmt.Sprintf("%s: state variable %s hoisted out of the subscribe closure", sc, v.Name())})
				break // one per SC
			}
		}
		return out
	}}

// remove Lock/Unlock pairs of one function of a goroutine-safe type
var mutDropLocks = mutDropLocksOf("all")

// mutDropLocksOf restricts the operator to a class of types: "subjects", "subscriber",
// "subscription", "connectable", or "all-but-subscriber" / "all".
func mutDropLocksOf(class string) mutOp {
	return mutOp{Name: "drop-locks(" + class + ")", Doc: "remove every Lock/Unlock of the type's mutex from one method of a goroutine-safe type",
		Gen: func(m *model.Model, scope map[string]bool) []mutant { return genDropLocks(m, scope, class) }}
}

func genDropLocks(m *model.Model, scope map[string]bool, class string) []mutant {
	{
		var out []mutant
		p := m.Obj.Ro
		if !scope[p.PkgPath] {
			return nil
		}
		info := p.TypesInfo
		subjects := map[string]bool{}
		for _, t := range subjectTypes(m) {
			subjects[t] = true
		}
		for _, tname := range concurrencySafeTypes(m) {
			switch class {
			case "subjects", "subjects-broadcast":
				if !subjects[tname] {
					continue
				}
			case "subscriber":
				if tname != "subscriberImpl" {
					continue
				}
			case "subscription":
				if tname != "subscriptionImpl" {
					continue
				}
			case "connectable":
				if tname != "connectableObservableImpl" {
					continue
				}
			case "all-but-subscriber":
				if tname == "subscriberImpl" {
					continue
				}
			}
			for _, fd := range methodsOf(p, tname) {
				if fd.Body == nil {
					continue
				}
				var eds []edit
				ast.Inspect(fd.Body, func(n ast.Node) bool {
					if _, isLit := n.(*ast.FuncLit); isLit {
						return false
					}
					var call *ast.CallExpr
					var stmt ast.Node
					switch x := n.(type) {
					case *ast.ExprStmt:
						call, _ = x.X.(*ast.CallExpr)
						stmt = x
					case *ast.DeferStmt:
						call, stmt = x.Call, x
					}
					if call == nil {
						return true
					}
					sel, ok := ast.Unparen(call.Fun).(*ast.SelectorExpr)
					if !ok || (sel.Sel.Name != "Lock" && sel.Sel.Name != "Unlock") {
						return true
					}
					if s := fieldSelOf(info, sel.X, recvObj(info, fd)); s == nil || !strings.HasSuffix(strings.ToLower(s.Sel.Name), "mu") {
						return true
					}
					eds = append(eds, edit{offset(m, stmt.Pos()), offset(m, stmt.End()), ""})
					return true
				})
				if len(eds) < 2 {
					continue
				}
				if class == "subjects-broadcast" {
					// only methods that notify a stored observer while holding the mutex (not the deferred hand-off of the
					// unicast subject, not the query methods): the others are C10/C13 matters
					notifies := false
					rv := recvObj(info, fd)
					var visit func(f2 *ast.FuncDecl, depth int)
					visit = func(f2 *ast.FuncDecl, depth int) {
						if f2 == nil || f2.Body == nil || depth > 2 {
							return
						}
						r2 := recvObj(info, f2)
						ast.Inspect(f2.Body, func(n ast.Node) bool {
							if d, isDefer := n.(*ast.DeferStmt); isDefer {
								_ = d
								return false
							}
							call, ok := n.(*ast.CallExpr)
							if !ok {
								return true
							}
							sel, ok := ast.Unparen(call.Fun).(*ast.SelectorExpr)
							if !ok {
								return true
							}
							if id, ok := ast.Unparen(sel.X).(*ast.Ident); ok && objOf(info, id) == types.Object(r2) {
								for _, o := range methodsOf(p, tname) {
									if o.Name.Name == sel.Sel.Name {
										visit(o, depth+1)
									}
								}
								return true
							}
							if name, isObs := m.Obj.ObserverMethods[model.Callee(info, call)]; isObs && notifKind(name) >= 0 {
								notifies = true
							}
							return true
						})
					}
					_ = rv
					visit(fd, 0)
					if !notifies {
						continue
					}
				}
				out = append(out, mutant{ID: fmt.Sprintf("drop-locks:ro.%s.%s", tname, fd.Name.Name), Op: "drop-locks", Group: "ro." + tname, File: fileOf(m, fd.Pos()),
					Edits: eds, Expect: "ro." + tname, Desc: fmt.Sprintf("%s.%s: mutex no longer taken", tname, fd.Name.Name)})
			}
		}
		return out
	}
}

// --- runner -----------------------------------------------------------------------------

type sweepResult struct {
	Op          string   `json:"operator"`
	Exploratory bool     `json:"exploratory,omitempty"`
	Generated   int      `json:"generated"`
	Compiled    int      `json:"compiled"`
	Killed      int      `json:"killed"`
	Floor       int      `json:"reported_floor,omitempty"`
	Survived    []string `json:"survived,omitempty"`
	NoCompile   []string `json:"not_compilable,omitempty"`
}

func applyEdits(src []byte, eds []edit) ([]byte, bool) {
	sort.Slice(eds, func(i, j int) bool { return eds[i].start < eds[j].start })
	var out []byte
	pos := 0
	for _, e := range eds {
		if e.start < pos || e.end < e.start || e.end > len(src) {
			return nil, false
		}
		out = append(out, src[pos:e.start]...)
		out = append(out, e.text...)
		pos = e.end
	}
	out = append(out, src[pos:]...)
	return out, true
}

func nonOKKeys(o *check.Outcome) map[string]bool {
	keys := map[string]bool{}
	for _, ob := range o.Obs {
		if ob.Control {
			continue
		}
		if ob.Verdict == check.Violation || ob.Verdict == check.Undecided {
			keys[ob.Key] = true
		}
	}
	return keys
}

// sweep runs the mutation operators for property p and records the results in out.
func sweep(p *check.Property, ops []mutOp) func(out *check.Outcome, m *model.Model, repo string, seed int64) {
	return func(out *check.Outcome, m *model.Model, repo string, seed int64) {
		t0 := time.Now()
		scope := map[string]bool{}
		for _, s := range p.Scope {
			scope[s] = true
		}
		base := nonOKKeys(out)
		var results []sweepResult
		total, killed, compiled := 0, 0, 0
		var samples []map[string]string
		budget := 25 * time.Minute
		for _, op := range ops {
			muts := op.Gen(m, scope)
			opStart := time.Now()
			opBudget := budget
			if op.Exploratory {
				// a deterministic sample keeps the tier within minutes: mutants are ranked by a hash of their identity (independent of the seed, so that the recorded floors stay comparable)
				// and the first exploreSample are run
				opBudget = 12 * time.Minute
				if len(muts) > exploreSample {
					sort.Slice(muts, func(i, j int) bool { return hashID(muts[i].ID, 0) < hashID(muts[j].ID, 0) })
					muts = muts[:exploreSample]
				}
			}
			res := sweepResult{Op: op.Name, Generated: len(muts), Exploratory: op.Exploratory}
			// batches: no two mutants of one group, no two overlapping edits in one file
			remaining := muts
			for len(remaining) > 0 && time.Since(t0) < budget+36*time.Minute && time.Since(opStart) < opBudget {
				var batch, rest []mutant
				used := map[string]bool{}
				for _, mu := range remaining {
					if used[mu.Group] {
						rest = append(rest, mu)
						continue
					}
					used[mu.Group] = true
					batch = append(batch, mu)
				}
				remaining = rest
				var run func(b []mutant)
				run = func(b []mutant) {
					if len(b) == 0 {
						return
					}
					killedIn, compiledOK := runBatch(p, repo, b, base)
					runtime.GC()
					if !compiledOK {
						if len(b) == 1 {
							res.NoCompile = append(res.NoCompile, b[0].ID)
							return
						}
						// halve: some mutant of the batch does not type-check
						run(b[:len(b)/2])
						run(b[len(b)/2:])
						return
					}
					for _, mu := range b {
						res.Compiled++
						if killedIn[mu.ID] {
							res.Killed++
							if len(samples) < 12 {
								samples = append(samples, map[string]string{"mutant": mu.ID, "edit": mu.Desc, "verdict": "reported"})
							}
						} else {
							res.Survived = append(res.Survived, mu.ID)
						}
					}
				}
				run(batch)
			}
			if op.Exploratory {
				res.Floor = exploreFloors[p.ID+"/"+op.Name]
				nSurv := len(res.Survived)
				if nSurv > 40 {
					res.Survived = append(res.Survived[:40], fmt.Sprintf("... and %d more", nSurv-40))
				}
				results = append(results, res)
				out.Notes = append(out.Notes, fmt.Sprintf("exploratory operator %s: %d generated, %d compiled, %d reported by this property's rules (floor %d), %d not reported (equivalent, value-level or outside this property)", op.Name, res.Generated, res.Compiled, res.Killed, res.Floor, nSurv))
				if len(remaining) > 0 {
					out.Notes = append(out.Notes, fmt.Sprintf("exploratory operator %s: time budget reached with %d mutants not run; floor not evaluated", op.Name, len(remaining)))
				} else if res.Killed < res.Floor {
					out.Broken = append(out.Broken, fmt.Sprintf("mutation sweep: operator %s: only %d mutants reported, the recorded floor is %d: a rule of this property stopped reporting mutants it used to report", op.Name, res.Killed, res.Floor))
				}
				out.Extra["explore_"+op.Name+"_reported"] = res.Killed
				continue
			}
			total += res.Generated
			killed += res.Killed
			compiled += res.Compiled
			results = append(results, res)
			for _, s := range res.Survived {
				out.Broken = append(out.Broken, fmt.Sprintf("mutation sweep: mutant %s compiles and breaks the property's structural premise but no rule reported it", s))
			}
		}
		out.Extra["mutation_sweep"] = results
		out.Extra["mutants_generated"] = total
		out.Extra["mutants_compiled"] = compiled
		out.Extra["mutants_killed"] = killed
		out.Extra["mutant_samples"] = samples
		out.Extra["mutation_sweep_wall_s"] = time.Since(t0).Seconds()
		out.Notes = append(out.Notes, fmt.Sprintf("mutation sweep: %d generated, %d compiled, %d reported by the rules", total, compiled, killed))
	}
}

// runBatch applies the mutants as one overlay, re-runs the property and returns which
// mutants produced a new non-ok obligation on their construct.
func runBatch(p *check.Property, repo string, batch []mutant, base map[string]bool) (map[string]bool, bool) {
	byFile := map[string][]edit{}
	for _, mu := range batch {
		byFile[mu.File] = append(byFile[mu.File], mu.Edits...)
	}
	overlay := map[string][]byte{}
	for f, eds := range byFile {
		src, err := os.ReadFile(f)
		if err != nil {
			return nil, false
		}
		mutated, ok := applyEdits(src, eds)
		if !ok {
			return nil, false
		}
		overlay[f] = mutated
	}
	prog, err := load.Load(load.Config{Repo: repo, Patterns: p.Patterns, Overlay: overlay})
	if err != nil {
		return nil, false
	}
	m2, err := model.Build(prog)
	if err != nil {
		return nil, false
	}
	o2 := check.Run(p, m2, "thorough", nil)
	now := nonOKKeys(o2)
	killed := map[string]bool{}
	for _, mu := range batch {
		for k := range now {
			if !base[k] && strings.Contains(k, mu.Expect) {
				killed[mu.ID] = true
				break
			}
		}
	}
	return killed, true
}

// --- more operators -------------------------------------------------------------------

// status gate made vacuous (always open)
var mutGateOpen = mutOp{Name: "gate->vacuous", Doc: "make a status gate of observerImpl / subscriberImpl / a subject always pass (== 0 becomes >= 0; a compare-and-swap becomes an unconditional swap)",
	Gen: func(m *model.Model, scope map[string]bool) []mutant {
		var out []mutant
		p := m.Obj.Ro
		if !scope[p.PkgPath] {
			return nil
		}
		info := p.TypesInfo
		open, won := atomStatusOpen(info), atomCASWon(info)
		for _, tname := range coreStatusTypes(m) {
			for _, fd := range methodsOf(p, tname) {
				if fd.Body == nil || notifKind(fd.Name.Name) < 0 || !strings.HasSuffix(fd.Name.Name, "WithContext") {
					continue
				}
				n := 0
				ast.Inspect(fd.Body, func(x ast.Node) bool {
					switch e := x.(type) {
					case *ast.BinaryExpr:
						if k := open(e); k != 0 {
							n++
							repl := ">="
							if k < 0 {
								repl = "<"
							}
							out = append(out, mutant{ID: fmt.Sprintf("gate->vacuous:ro.%s.%s#%d", tname, fd.Name.Name, n), Op: "gate->vacuous", Group: "ro." + tname + "." + fd.Name.Name, File: fileOf(m, e.Pos()),
								Edits: []edit{{offset(m, e.OpPos), offset(m, e.OpPos) + len(e.Op.String()), repl}}, Expect: "ro." + tname + "." + fd.Name.Name,
								Desc: fmt.Sprintf("%s.%s: status test %q made vacuous", tname, fd.Name.Name, types.ExprString(e))})
						}
					case *ast.CallExpr:
						if won(e) == +1 {
							n++
							out = append(out, mutant{ID: fmt.Sprintf("gate->vacuous:ro.%s.%s#%d", tname, fd.Name.Name, n), Op: "gate->vacuous", Group: "ro." + tname + "." + fd.Name.Name, File: fileOf(m, e.Pos()),
								Edits:  []edit{{offset(m, e.Pos()), offset(m, e.End()), fmt.Sprintf("(atomic.SwapInt32(%s, %s) >= 0)", types.ExprString(e.Args[0]), types.ExprString(e.Args[2]))}},
								Expect: "ro." + tname + "." + fd.Name.Name, Desc: fmt.Sprintf("%s.%s: compare-and-swap replaced by an unconditional swap", tname, fd.Name.Name)})
						}
					}
					return true
				})
			}
		}
		return out
	}}

// drop the dropped-notification hook call
var mutDropHook = mutOp{Name: "drop-hook", Doc: "delete a call of OnDroppedNotification on a refusing branch",
	Gen: func(m *model.Model, scope map[string]bool) []mutant {
		var out []mutant
		p := m.Obj.Ro
		if !scope[p.PkgPath] {
			return nil
		}
		info := p.TypesInfo
		for _, tname := range coreStatusTypes(m) {
			for _, fd := range methodsOf(p, tname) {
				if fd.Body == nil || notifKind(fd.Name.Name) < 0 || !strings.HasSuffix(fd.Name.Name, "WithContext") {
					continue
				}
				n := 0
				atoms := []guardAtom{atomStatusOpen(info), atomCASWon(info)}
				refusal := map[ast.Stmt]bool{}
				ast.Inspect(fd.Body, func(x ast.Node) bool {
					ifs, ok := x.(*ast.IfStmt)
					if !ok {
						return true
					}
					var fail ast.Node
					for _, a := range atoms {
						if implies(ifs.Cond, true, a) {
							fail = ifs.Else
						} else if implies(ifs.Cond, false, a) {
							fail = ifs.Body
						}
					}
					if blk, ok := fail.(*ast.BlockStmt); ok && blk != nil {
						for _, st := range blk.List {
							refusal[st] = true
						}
					}
					return true
				})
				ast.Inspect(fd.Body, func(x ast.Node) bool {
					es, ok := x.(*ast.ExprStmt)
					if !ok || !refusal[es] {
						return true
					}
					call, ok := es.X.(*ast.CallExpr)
					if !ok {
						return true
					}
					if id, ok := ast.Unparen(call.Fun).(*ast.Ident); ok && id.Name == "OnDroppedNotification" {
						if _, isVar := objOf(info, id).(*types.Var); isVar {
							// only calls that are the refusal of a status gate (not the TryLock drop, not unicast's no-observer drops)
							n++
							out = append(out, mutant{ID: fmt.Sprintf("drop-hook:ro.%s.%s#%d", tname, fd.Name.Name, n), Op: "drop-hook", Group: "ro." + tname + "." + fd.Name.Name, File: fileOf(m, es.Pos()),
								Edits: []edit{{offset(m, es.Pos()), offset(m, es.End()), "_ = 0"}}, Expect: "ro." + tname + "." + fd.Name.Name,
								Desc: fmt.Sprintf("%s.%s: OnDroppedNotification call removed", tname, fd.Name.Name)})
						}
					}
					return true
				})
			}
		}
		return out
	}}

// duplicate the forwarding call of a next slot
var mutDupForward = mutOp{Name: "dup-forward", Doc: "forward the value twice in the next slot of an instrumentation operator",
	Gen: func(m *model.Model, scope map[string]bool) []mutant {
		var out []mutant
		for _, sc := range m.SCs {
			if !inScopeSC(sc, scope) {
				continue
			}
			for _, e := range sc.Emits {
				if e.Forwarder || !e.ToDest || e.Kind != model.EmitNext || e.Ctx.Kind != model.KSrc || e.Slot != model.SlotNext {
					continue
				}
				call, ok := e.Node.(*ast.CallExpr)
				if !ok || !(sc.Lit.Pos() <= call.Pos() && call.End() <= sc.Lit.End()) {
					continue
				}
				es, isStmt := m.Parent(e.Pkg, call).(*ast.ExprStmt)
				if !isStmt {
					continue
				}
				src, err := os.ReadFile(fileOf(m, call.Pos()))
				if err != nil {
					continue
				}
				text := string(src[offset(m, call.Pos()):offset(m, call.End())])
				out = append(out, mutant{ID: "dup-forward:" + e.Key, Op: "dup-forward", Group: sc.String(), File: fileOf(m, call.Pos()),
					Edits: []edit{{offset(m, es.End()), offset(m, es.End()), "\n" + text}}, Expect: sc.String() + "/",
					Desc: fmt.Sprintf("%s: value forwarded twice", e.Key)})
			}
		}
		return out
	}}

// adapter passes a constant instead of its index parameter
var mutAdapterConst = mutOp{Name: "adapter-const-index", Doc: "pass the constant 0 instead of the adapter's own index parameter to the user function of a delegating variant",
	Gen: func(m *model.Model, scope map[string]bool) []mutant {
		var out []mutant
		for _, p := range m.Pkgs {
			if !scope[p.PkgPath] {
				continue
			}
			info := p.TypesInfo
			for _, f := range p.Syntax {
				for _, d := range f.Decls {
					fd, ok := d.(*ast.FuncDecl)
					if !ok || fd.Recv != nil || check.IsControlName(fd.Name.Name) {
						continue
					}
					call := singleReturnCall(fd)
					if call == nil {
						continue
					}
					for _, a := range call.Args {
						lit, ok := ast.Unparen(a).(*ast.FuncLit)
						if !ok {
							continue
						}
						litParams := map[types.Object]bool{}
						for _, prm := range model.FlattenParams(info, lit.Type.Params) {
							if prm != nil {
								litParams[prm] = true
							}
						}
						done := false
						ast.Inspect(lit.Body, func(n ast.Node) bool {
							cx, ok := n.(*ast.CallExpr)
							if !ok || done {
								return true
							}
							for _, ua := range cx.Args {
								id, ok := ast.Unparen(ua).(*ast.Ident)
								if !ok || !litParams[objOf(info, id)] {
									continue
								}
								if b, ok := info.TypeOf(ua).Underlying().(*types.Basic); ok && b.Kind() == types.Int64 {
									out = append(out, mutant{ID: fmt.Sprintf("adapter-const-index:%s.%s", model.ShortPkg(p.PkgPath), fd.Name.Name), Op: "adapter-const-index", Group: fd.Name.Name, File: fileOf(m, ua.Pos()),
										Edits: []edit{{offset(m, ua.Pos()), offset(m, ua.End()), "0"}}, Expect: model.ShortPkg(p.PkgPath) + "." + fd.Name.Name + "/",
										Desc: fmt.Sprintf("%s: index argument replaced by the constant 0", fd.Name.Name)})
									done = true
									return false
								}
							}
							return true
						})
					}
				}
			}
		}
		return out
	}}

// failure branch falls through: delete the return after emitting the error
var mutDropReturn = mutOp{Name: "error-branch-falls-through", Doc: "delete the return that ends the `if err != nil` branch after the Error notification, so the code after it still runs",
	Gen: func(m *model.Model, scope map[string]bool) []mutant {
		var out []mutant
		for _, sc := range m.SCs {
			if !inScopeSC(sc, scope) {
				continue
			}
			info := sc.Pkg.TypesInfo
			n := 0
			ast.Inspect(sc.Lit.Body, func(x ast.Node) bool {
				ifs, ok := x.(*ast.IfStmt)
				if !ok || ifs.Else != nil || len(ifs.Body.List) < 2 {
					return true
				}
				be, ok := ast.Unparen(ifs.Cond).(*ast.BinaryExpr)
				if !ok || be.Op != token.NEQ {
					return true
				}
				id, ok := ast.Unparen(be.X).(*ast.Ident)
				if !ok || !isErrorType(info.TypeOf(id)) {
					return true
				}
				last, ok := ifs.Body.List[len(ifs.Body.List)-1].(*ast.ReturnStmt)
				if !ok || len(last.Results) != 0 {
					return true
				}
				// something must follow the if statement in its block
				blk, ok := m.Parent(sc.Pkg, ifs).(*ast.BlockStmt)
				if !ok || blk.List[len(blk.List)-1] == ast.Stmt(ifs) {
					return true
				}
				n++
				out = append(out, mutant{ID: fmt.Sprintf("error-branch-falls-through:%s#%d", sc, n), Op: "error-branch-falls-through", Group: sc.String(), File: fileOf(m, last.Pos()),
					Edits: []edit{{offset(m, last.Pos()), offset(m, last.End()), ""}}, Expect: sc.String() + "/",
					Desc: fmt.Sprintf("%s: return after the Error notification removed", sc)})
				return true
			})
		}
		return out
	}}

// unwrap sync.Once around close
var mutOnceUnwrap = mutOp{Name: "once-unwrap", Doc: "replace once.Do(func() { close(ch) }) by a direct close(ch)",
	Gen: func(m *model.Model, scope map[string]bool) []mutant {
		var out []mutant
		for _, sc := range m.SCs {
			if !inScopeSC(sc, scope) {
				continue
			}
			info := sc.Pkg.TypesInfo
			ast.Inspect(sc.Lit.Body, func(x ast.Node) bool {
				call, ok := x.(*ast.CallExpr)
				if !ok || !model.IsMethod(model.Callee(info, call), "sync", "Once", "Do") || len(call.Args) != 1 {
					return true
				}
				lit, ok := ast.Unparen(call.Args[0]).(*ast.FuncLit)
				if !ok || len(lit.Body.List) != 1 {
					return true
				}
				src, err := os.ReadFile(fileOf(m, call.Pos()))
				if err != nil {
					return true
				}
				inner := string(src[offset(m, lit.Body.List[0].Pos()):offset(m, lit.Body.List[0].End())])
				sel := ast.Unparen(call.Fun).(*ast.SelectorExpr)
				out = append(out, mutant{ID: "once-unwrap:" + sc.String(), Op: "once-unwrap", Group: sc.String(), File: fileOf(m, call.Pos()),
					Edits: []edit{{offset(m, call.Pos()), offset(m, call.End()), "func() { _ = &" + types.ExprString(sel.X) + "; " + inner + " }()"}}, Expect: sc.String() + "/",
					Desc: fmt.Sprintf("%s: sync.Once around the close removed", sc)})
				return true
			})
		}
		return out
	}}

// limiter: forward although the limit is reached
var mutIgnoreLimit = mutOp{Name: "ignore-limit", Doc: "replace the !rate.Reached test of the limiter by true",
	Gen: func(m *model.Model, scope map[string]bool) []mutant {
		var out []mutant
		for _, sc := range m.SCs {
			if !inScopeSC(sc, scope) {
				continue
			}
			ast.Inspect(sc.Lit.Body, func(x ast.Node) bool {
				u, ok := x.(*ast.UnaryExpr)
				if !ok || u.Op != token.NOT {
					return true
				}
				sel, ok := ast.Unparen(u.X).(*ast.SelectorExpr)
				if !ok || sel.Sel.Name != "Reached" {
					return true
				}
				out = append(out, mutant{ID: "ignore-limit:" + sc.String(), Op: "ignore-limit", Group: sc.String(), File: fileOf(m, u.Pos()),
					Edits: []edit{{offset(m, u.Pos()), offset(m, u.Pos()), "(true || "}, {offset(m, u.End()), offset(m, u.End()), ")"}}, Expect: sc.String() + "/",
					Desc: fmt.Sprintf("%s: limit test replaced by true", sc)})
				return true
			})
		}
		return out
	}}

// --- exploratory operators ---------------------------------------------------------------

// exploreFloors: mutants reported by each property's own rules (property/operator) when the floors were recorded, times 0.6:
// the sample is chosen by a hash of the mutant's identity, which contains positions, so an unrelated edit of /repo changes
// which mutants are drawn; the margin keeps the floor meaningful (a rule that stops reporting loses far more) without
// making the tier fail on such an edit
// for unrelated edits of the repository. Recomputed with `rocheck -prop <id> -tier thorough` (see the notes it prints).
var exploreFloors = map[string]int{
	"C01/swap-statements":  31,  // 53 reported when recorded
	"C01/delete-statement": 52,  // 87 reported when recorded
	"C01/negate-condition": 52,  // 87 reported when recorded
	"C01/weaken-condition": 4,   // 7 reported when recorded
	"C02/delete-statement": 19,  // 32 reported when recorded
	"C02/negate-condition": 3,   // 6 reported when recorded
	"C03/swap-statements":  28,  // 48 reported when recorded
	"C03/delete-statement": 54,  // 91 reported when recorded
	"C03/negate-condition": 48,  // 80 reported when recorded
	"C03/weaken-condition": 37,  // 62 reported when recorded
	"C04/swap-statements":  36,  // 60 reported when recorded
	"C04/delete-statement": 57,  // 95 reported when recorded
	"C04/negate-condition": 52,  // 88 reported when recorded
	"C04/weaken-condition": 67,  // 112 reported when recorded
	"C05/swap-statements":  24,  // 40 reported when recorded
	"C05/delete-statement": 83,  // 139 reported when recorded
	"C05/negate-condition": 45,  // 75 reported when recorded
	"C05/weaken-condition": 107, // 179 reported when recorded
	"C06/swap-statements":  24,  // 41 reported when recorded
	"C06/delete-statement": 37,  // 63 reported when recorded
	"C06/negate-condition": 21,  // 35 reported when recorded
	"C07/swap-statements":  21,  // 36 reported when recorded
	"C07/delete-statement": 34,  // 57 reported when recorded
	"C07/negate-condition": 83,  // 139 reported when recorded
	"C07/weaken-condition": 42,  // 71 reported when recorded
	"C08/swap-statements":  7,   // 12 reported when recorded
	"C08/delete-statement": 12,  // 21 reported when recorded
	"C08/negate-condition": 3,   // 6 reported when recorded
	"C09/swap-statements":  10,  // 17 reported when recorded
	"C09/delete-statement": 3,   // 6 reported when recorded
	"C09/negate-condition": 16,  // 28 reported when recorded
	"C10/swap-statements":  19,  // 33 reported when recorded
	"C10/delete-statement": 48,  // 80 reported when recorded
	"C10/negate-condition": 47,  // 79 reported when recorded
	"C11/swap-statements":  22,  // 38 reported when recorded
	"C11/delete-statement": 47,  // 79 reported when recorded
	"C11/negate-condition": 39,  // 65 reported when recorded
	"C11/weaken-condition": 34,  // 57 reported when recorded
	"C12/swap-statements":  13,  // 22 reported when recorded
	"C12/delete-statement": 34,  // 57 reported when recorded
	"C12/negate-condition": 39,  // 66 reported when recorded
	"C12/weaken-condition": 37,  // 62 reported when recorded
	"C13/swap-statements":  37,  // 63 reported when recorded
	"C13/delete-statement": 63,  // 105 reported when recorded
	"C13/negate-condition": 36,  // 60 reported when recorded
	"C13/weaken-condition": 32,  // 54 reported when recorded
	"C14/swap-statements":  24,  // 40 reported when recorded
	"C14/delete-statement": 36,  // 60 reported when recorded
	"C14/negate-condition": 42,  // 70 reported when recorded
	"C14/weaken-condition": 37,  // 62 reported when recorded
	"C15/swap-statements":  13,  // 22 reported when recorded
	"C15/delete-statement": 35,  // 59 reported when recorded
	"C15/negate-condition": 35,  // 59 reported when recorded
	"C15/weaken-condition": 31,  // 53 reported when recorded
	"C16/swap-statements":  37,  // 63 reported when recorded
	"C16/delete-statement": 48,  // 81 reported when recorded
	"C16/negate-condition": 34,  // 58 reported when recorded
	"C16/weaken-condition": 31,  // 53 reported when recorded
	"C17/swap-statements":  31,  // 53 reported when recorded
	"C17/delete-statement": 41,  // 69 reported when recorded
	"C17/negate-condition": 34,  // 58 reported when recorded
	"C17/weaken-condition": 31,  // 53 reported when recorded
	"C18/swap-statements":  13,  // 22 reported when recorded
	"C18/delete-statement": 24,  // 40 reported when recorded
	"C18/negate-condition": 18,  // 30 reported when recorded
	"C18/weaken-condition": 4,   // 8 reported when recorded
	"C19/swap-statements":  6,   // 10 reported when recorded
	"C19/delete-statement": 14,  // 24 reported when recorded
	"C19/negate-condition": 4,   // 8 reported when recorded
	"C20/delete-statement": 1,   // 2 reported when recorded
	"C20/negate-condition": 1,   // 2 reported when recorded
}

// exploreSample: number of mutants run per exploratory operator and property.
const exploreSample = 400

func hashID(id string, seed int64) uint64 {
	h := fnv.New64a()
	fmt.Fprintf(h, "%d|%s", seed, id)
	return h.Sum64()
}

func scopedPkgs(m *model.Model, scope map[string]bool) []*packages.Package {
	var out []*packages.Package
	for _, p := range m.Pkgs {
		if scope[p.PkgPath] {
			out = append(out, p)
		}
	}
	return out
}

var mutSwapStmts = mutOp{Name: "swap-statements", Exploratory: true, Doc: "swap two adjacent simple statements",
	Gen: func(m *model.Model, scope map[string]bool) []mutant {
		var out []mutant
		for _, p := range scopedPkgs(m, scope) {
			out = append(out, genSwapsPkg(m, p, "")...)
		}
		return out
	}}

var mutDeleteStmt = mutOp{Name: "delete-statement", Exploratory: true, Doc: "delete a call statement, a defer or an increment",
	Gen: func(m *model.Model, scope map[string]bool) []mutant {
		var out []mutant
		for _, p := range scopedPkgs(m, scope) {
			out = append(out, genDeletesPkg(m, p, "")...)
		}
		return out
	}}

var mutNegateCond = mutOp{Name: "negate-condition", Exploratory: true, Doc: "negate the condition of an if statement",
	Gen: func(m *model.Model, scope map[string]bool) []mutant {
		saved := explorePkgFilter
		defer func() { explorePkgFilter = saved }()
		var out []mutant
		for _, p := range scopedPkgs(m, scope) {
			explorePkgFilter = p.PkgPath
			out = append(out, genNegates(m, "")...)
		}
		return out
	}}

var mutWeakenCond = mutOp{Name: "weaken-condition", Exploratory: true, Doc: "replace `a && b` / `a || b` by one of its operands",
	Gen: func(m *model.Model, scope map[string]bool) []mutant {
		saved := explorePkgFilter
		defer func() { explorePkgFilter = saved }()
		var out []mutant
		for _, p := range scopedPkgs(m, scope) {
			explorePkgFilter = p.PkgPath
			out = append(out, genWeaken(m, "", false)...)
		}
		return out
	}}

package rules

import (
	"go/ast"
	"go/token"
	"go/types"

	"rocheck/internal/check"
	"rocheck/internal/model"
)

var ratePkgUlule = ro + "/plugins/ratelimit/ulule"
var ratePkgNative = ro + "/plugins/ratelimit/native"

// FILTER-SHAPE (ulule)
func ruleFilterShape() check.Rule {
	return check.Rule{
		Name:        "FILTER-SHAPE",
		Doc:         "the ulule limiter is a synchronous filter: its next slot asks the store exactly once, with the slot's context and the key of the slot's own value; forwards the unmodified value at most once, only on the branch where the limit is not reached; forwards a store error as an Error notification; buffers nothing (no captured collection is written); terminals are forwarded by method values",
		NeedControl: true,
		Run: func(c *check.Ctx) {
			m := c.M
			for _, sc := range m.SCs {
				if sc.Pkg.PkgPath != ratePkgUlule && !(check.IsControlName(sc.Name) && sc.Pkg.PkgPath == ratePkgUlule) {
					continue
				}
				c.Inc("limiter_scs", 1)
				key := sc.String() + "/filter"
				info := sc.Pkg.TypesInfo
				if len(sc.SubSites) != 1 || sc.SubSites[0].Observer == nil || sc.SubSites[0].Observer.Kind != model.AVObserver {
					c.Violation(key, sc.Lit.Pos(), "expected exactly one upstream subscribe site with an observer built in place")
					continue
				}
				s := sc.SubSites[0]
				next := s.Observer.Slots[model.SlotNext]
				if next == nil || next.Lit == nil {
					c.Violation(key, s.Pos, "the next slot is not a literal")
					continue
				}
				prm := model.FlattenParams(info, next.Lit.Type.Params)
				if len(prm) != 2 {
					c.Undecided(key, s.Pos, "next slot signature not understood")
					continue
				}
				ctxP, valP := prm[0], prm[1]
				problems := []string{}
				// limiter.Get calls
				var gets []*ast.CallExpr
				ast.Inspect(next.Lit.Body, func(n ast.Node) bool {
					if call, ok := n.(*ast.CallExpr); ok {
						if cl := model.Callee(info, call); cl != nil && cl.Name() == "Get" && cl.Pkg() != nil && cl.Pkg().Path() == "github.com/ulule/limiter/v3" {
							gets = append(gets, call)
						}
					}
					return true
				})
				var rateVar types.Object
				if len(gets) != 1 {
					problems = append(problems, "the store is not asked exactly once per item")
				} else {
					g := gets[0]
					if !topLevelStmtOf(m, sc.Pkg, next.Lit.Body, g) {
						problems = append(problems, "the store is asked conditionally")
					}
					if len(g.Args) != 2 {
						problems = append(problems, "limiter.Get is not called with (ctx, key)")
					} else {
						if id, ok := ast.Unparen(g.Args[0]).(*ast.Ident); !ok || objOf(info, id) != ctxP {
							problems = append(problems, "limiter.Get is not given the slot's context")
						}
						// key: variable assigned from keyGetter(value) or the call itself
						keyOK := false
						keyExpr := ast.Unparen(g.Args[1])
						if id, ok := keyExpr.(*ast.Ident); ok {
							for _, d := range m.Defs[objOf(info, id)] {
								if d.Expr != nil {
									keyExpr = ast.Unparen(d.Expr)
								}
							}
						}
						if call, ok := keyExpr.(*ast.CallExpr); ok && len(call.Args) == 1 {
							if fid, ok := ast.Unparen(call.Fun).(*ast.Ident); ok {
								if fv, ok := objOf(info, fid).(*types.Var); ok && sc.UserParams[fv] {
									if aid, ok := ast.Unparen(call.Args[0]).(*ast.Ident); ok && objOf(info, aid) == valP {
										keyOK = true
									}
								}
							}
						}
						if !keyOK {
							problems = append(problems, "the key given to the store is not keyGetter(value) of the slot's own value")
						}
					}
					if as, ok := m.Parent(sc.Pkg, g).(*ast.AssignStmt); ok && len(as.Lhs) == 2 {
						if id, ok := as.Lhs[0].(*ast.Ident); ok {
							rateVar = objOf(info, id)
						}
					}
				}
				// forwards: at most one Next, with the unmodified value, guarded by !rate.Reached
				var nexts []*model.EmitSite
				for _, e := range sc.Emits {
					if e.ToDest && e.Kind == model.EmitNext && e.Ctx == s.Src && e.Slot == model.SlotNext {
						nexts = append(nexts, e)
					}
				}
				if len(nexts) != 1 {
					problems = append(problems, "the next slot has not exactly one forwarding site (duplication or loss)")
				} else {
					e := nexts[0]
					if len(e.Args) != 1 {
						problems = append(problems, "the forwarded value is not the received one")
					} else if id, ok := ast.Unparen(e.Args[0]).(*ast.Ident); !ok || objOf(info, id) != valP || len(m.Defs[valP]) > 0 {
						problems = append(problems, "the forwarded value is not the unmodified received value")
					}
					// guard
					reachedAtom := func(x ast.Expr) int {
						sel, ok := ast.Unparen(x).(*ast.SelectorExpr)
						if !ok || sel.Sel.Name != "Reached" {
							return 0
						}
						if id, ok := ast.Unparen(sel.X).(*ast.Ident); ok && rateVar != nil && objOf(info, id) == rateVar {
							return -1 // Reached false => may pass
						}
						return 0
					}
					if !guardedBy(next.Lit.Body, e.Node, reachedAtom) {
						problems = append(problems, "the value is forwarded on a path where the limit may have been reached")
					}
					// error branch: not forwarding after error
					errAtom := func(x ast.Expr) int {
						be, ok := ast.Unparen(x).(*ast.BinaryExpr)
						if !ok || (be.Op != token.NEQ && be.Op != token.EQL) {
							return 0
						}
						if id, ok := ast.Unparen(be.X).(*ast.Ident); ok && isErrorType(info.TypeOf(id)) {
							if be.Op == token.EQL {
								return +1
							}
							return -1
						}
						return 0
					}
					if !guardedBy(next.Lit.Body, e.Node, errAtom) {
						problems = append(problems, "the value is forwarded although the store returned an error")
					}
				}
				// no buffering: no write to SC-level collections
				for _, w := range writesIn(info, next.Lit) {
					switch w.Var.Type().Underlying().(type) {
					case *types.Slice, *types.Map, *types.Chan:
						if !(next.Lit.Pos() <= w.Var.Pos() && w.Var.Pos() < next.Lit.End()) {
							problems = append(problems, "the slot writes the captured collection "+w.Var.Name()+" (items are buffered)")
						}
					}
				}
				for _, b := range sc.Blocks {
					if b.What == "send" {
						problems = append(problems, "the slot parks items in a channel")
					}
				}
				// terminals
				for k := 1; k < 3; k++ {
					ok := false
					for _, e := range sc.Emits {
						if e.ToDest && e.Kind == k && e.Ctx == s.Src && e.Slot == k {
							ok = true
						}
					}
					if !ok {
						problems = append(problems, "the "+model.SlotNames[k]+" of the source is not propagated")
					}
				}
				if len(problems) == 0 {
					c.OK(key, s.Pos, "synchronous per-item filter: one store query with the item's own key and context, at most one unmodified forward on the not-reached branch, nothing buffered, terminals propagated")
				} else {
					for i, pr := range problems {
						if i == 0 {
							c.Violation(key, s.Pos, "%s", pr)
						} else {
							c.Violation(key+"#"+string(rune('a'+i)), s.Pos, "%s", pr)
						}
					}
				}
			}
		},
	}
}

// NATIVE-COMPOSITION (family)
func ruleNativeComposition() check.Rule {
	return check.Rule{
		Name:        "NATIVE-COMPOSITION",
		FamilyShape: true,
		Doc:         "the native limiter is a pure composition of catalogue operators in which the key function reaches GroupBy, the interval reaches the Interval that cuts the windows, and the count reaches the Take applied to each window; nothing else consumes the source",
		Run: func(c *check.Ctx) {
			p := c.Prog.ByPath[ratePkgNative]
			if p == nil {
				c.Info("plugins/ratelimit/native/loaded", c.M.Obj.Ro.Syntax[0].Pos(), "package not loaded")
				return
			}
			info := p.TypesInfo
			for _, f := range p.Syntax {
				for _, d := range f.Decls {
					fd, ok := d.(*ast.FuncDecl)
					if !ok || fd.Body == nil || fd.Name.Name != "NewRateLimiter" {
						continue
					}
					c.Inc("native_limiters", 1)
					params := model.FlattenParams(info, fd.Type.Params)
					byType := map[string]*types.Var{}
					for _, prm := range params {
						if prm == nil {
							continue
						}
						switch {
						case prm.Type().String() == "int64":
							byType["count"] = prm
						case prm.Type().String() == "time.Duration":
							byType["interval"] = prm
						default:
							if _, isSig := prm.Type().Underlying().(*types.Signature); isSig {
								byType["key"] = prm
							}
						}
					}
					reaches := map[string]string{}
					ast.Inspect(fd.Body, func(n ast.Node) bool {
						call, ok := n.(*ast.CallExpr)
						if !ok {
							return true
						}
						cl := model.Callee(info, call)
						if cl == nil || cl.Pkg() == nil || cl.Pkg().Path() != ro {
							return true
						}
						for _, a := range call.Args {
							if id, ok := ast.Unparen(a).(*ast.Ident); ok {
								for role, v := range byType {
									if objOf(info, id) == v {
										reaches[role] = cl.Name()
									}
								}
							}
						}
						return true
					})
					key := "plugins/ratelimit/native.NewRateLimiter/plumbing"
					want := map[string]string{"key": "GroupBy", "interval": "Interval", "count": "Take"}
					bad := false
					for role, op := range want {
						if reaches[role] != op {
							bad = true
							c.Violation(key+"-"+role, fd.Pos(), "the %s parameter reaches %q, expected ro.%s", role, reaches[role], op)
						}
					}
					if !bad {
						c.OK(key, fd.Pos(), "key -> GroupBy, interval -> Interval (window boundary), count -> Take (per window)")
					}
				}
			}
		},
	}
}

const controlsC20 = `
func verifControlLeakyLimiter[T any](lim *limiter.Limiter, keyGetter func(T) string) func(ro.Observable[T]) ro.Observable[T] {
	return func(source ro.Observable[T]) ro.Observable[T] {
		return ro.NewObservableWithContext(func(subscriberCtx context.Context, destination ro.Observer[T]) ro.Teardown {
			sub := source.SubscribeWithContext(subscriberCtx, ro.NewObserverWithContext(
				func(ctx context.Context, value T) {
					rate, err := lim.Get(ctx, keyGetter(value))
					if err != nil {
						destination.ErrorWithContext(ctx, err)
					}
					_ = rate
					destination.NextWithContext(ctx, value)
				},
				destination.ErrorWithContext,
				destination.CompleteWithContext,
			))
			return sub.Unsubscribe
		})
	}
}
`

func C20() *check.Property {
	return &check.Property{
		ID:       "C20",
		Title:    "Rate limiters never exceed the quota and keep per-key order",
		Patterns: cat(CorePatterns, RatePkgs),
		Scope:    RatePkgs,
		Rules:    []check.Rule{ruleFilterShape(), ruleNativeComposition(), ruleErrResultUsed(), ruleErrPropagation(), ruleRelease(), ruleCtxProvenance(), withCore(ruleStateLevel()), withCore(ruleSubjectBroadcastLocked()), withCore(ruleSubjectDelivers()), withCore(ruleNoDuplicateForward()), withCore(ruleGetOrCreate()), withCore(ruleInnerFilledBeforeHandover()), withCore(ruleNoHotInCold())},
		Explanation: "Structural clauses only. The quota over time windows is NOT decided (it depends on the clock, on the ulule store and on the run-time behaviour of GroupBy/WindowWhen/MergeAll). Decided: the ulule limiter is a synchronous per-item filter " +
			"(one store query with the item's own key and context; at most one forward of the unmodified value, only where the limit is not reached and the store did not fail; nothing buffered; terminals propagated) — hence per-key order and no duplication " +
			"for a synchronous stage, and independence of keys is delegated to the store; store errors become Error notifications (ERR-RESULT-USED). The native limiter is a pure composition whose three parameters reach GroupBy, Interval and Take respectively; the structural premises of the core operators it composes (per-subscription state of GroupBy/WindowWhen/MergeAll/Take: STATE-LEVEL; the unicast window subjects deliver in order under their lock: SUBJECT-BROADCAST-LOCKED, SUBJECT-DELIVERS) are re-checked with package ro armed.",
		NotDecided:  "that at most N items of one key pass per window; alignment of windows; behaviour of the wrapped store; ordering through the native limiter's merge (an arrival-order question, see C05).",
		Assumptions: []string{"github.com/ulule/limiter Get semantics (Reached)"},
		Floors:      map[string]int{"limiter_scs": 1, "native_limiters": 1},
		Controls: map[string]string{
			"zz_verif_controls_c05c.go":                        roControl(controlsC05c + controlsC05d),
			"plugins/ratelimit/ulule/zz_verif_controls_c20.go": pluginControl("roratelimit", []string{`"context"`, `"github.com/samber/ro"`, `"github.com/ulule/limiter/v3"`}, controlsC20),
			"zz_verif_controls_c03.go":                         roControl(controlsC03),
			"zz_verif_controls_c05.go":                         roControl(controlsC05),
			"zz_verif_controls_c07.go":                         roControl(controlsC07),
			"zz_verif_controls_c09.go":                         roControl(controlsC09),
			"zz_verif_controls_c12.go":                         roControl(controlsC12 + controlsNoHotInCold),
		},
	}
}

// withCore arms a core rule for package ro inside a plugin-scoped property.
func withCore(r check.Rule) check.Rule {
	r.ExtraScope = append(r.ExtraScope, ro)
	return r
}

// withScope arms a shared rule for additional packages inside one property.
func withScope(r check.Rule, pkgs ...string) check.Rule {
	r.ExtraScope = append(append([]string{}, r.ExtraScope...), pkgs...)
	return r
}

package rules

import (
	"fmt"
	"go/ast"
	"go/token"
	"go/types"
	"golang.org/x/tools/go/packages"
	"sort"
	"strings"

	"rocheck/internal/check"
	"rocheck/internal/load"
	"rocheck/internal/model"
)

// GUARDED-BY for the subjects.
func ruleSubjectGuardedBy() check.Rule {
	return check.Rule{
		Name: "GUARDED-BY",
		Doc:  "every field of the five subjects that is written after construction (status, err, values, last, hasValue, value, observer) is accessed only with the subject mutex held; observers is a sync.Map and observerIndex is accessed atomically",
		Run: func(c *check.Ctx) {
			db := newLockDB(c.M)
			for _, t := range subjectTypes(c.M) {
				guardedFields(c, db, c.M.Obj.Ro, t, true)
			}
		},
	}
}

// TERMINAL-STORED-BEFORE-BROADCAST + unregister at termination.
// subjectNextDeferred: subjects whose Next does not notify anybody by definition.
var subjectNextDeferred = map[string]string{
	"asyncSubjectImpl": "an AsyncSubject only remembers the value; it is delivered when the subject completes",
}

// SUBJECT-DELIVERS: what a subject receives reaches its observers; what it stored reaches late subscribers.
func ruleSubjectDelivers() check.Rule {
	return check.Rule{
		Name: "SUBJECT-DELIVERS",
		Doc:  "for every subject: (a) from NextWithContext / ErrorWithContext / CompleteWithContext, following calls of the subject's own methods, a notification of the same kind is sent to an observer other than the subject itself - each stored observer inside the iteration over the observer set, or the single unicast observer (AsyncSubject's Next is deferred by definition, and its Complete must reach both a Next and a Complete); (b) termination reaches code that empties the observer set; (c) SubscribeWithContext sends the stored Error and the Complete to the new subscriber (one notification of each kind on the subscriber it has just built)",
		Run: func(c *check.Ctx) {
			m := c.M
			p := m.Obj.Ro
			info := p.TypesInfo
			for _, tname := range subjectTypes(m) {
				meths := map[string]*ast.FuncDecl{}
				for _, fd := range methodsOf(p, tname) {
					meths[fd.Name.Name] = fd
				}
				// element notifications and observer-set deletions reachable from a method through same-type calls
				type reach struct {
					kinds   map[int]bool
					deletes bool
				}
				var visit func(fd *ast.FuncDecl, seen map[*ast.FuncDecl]bool, r *reach)
				visit = func(fd *ast.FuncDecl, seen map[*ast.FuncDecl]bool, r *reach) {
					if fd == nil || fd.Body == nil || seen[fd] {
						return
					}
					seen[fd] = true
					rv := recvObj(info, fd)
					ast.Inspect(fd.Body, func(x ast.Node) bool {
						switch y := x.(type) {
						case *ast.AssignStmt:
							for i, l := range y.Lhs {
								if sl := fieldSelOf(info, l, rv); sl != nil && (sl.Sel.Name == "observer" || sl.Sel.Name == "observers") && i < len(y.Rhs) {
									r.deletes = true
								}
							}
						case *ast.CallExpr:
							sel, ok := ast.Unparen(y.Fun).(*ast.SelectorExpr)
							if !ok {
								return true
							}
							if id, ok := ast.Unparen(sel.X).(*ast.Ident); ok && objOf(info, id) == types.Object(rv) {
								visit(meths[sel.Sel.Name], seen, r)
								return true
							}
							if sel.Sel.Name == "Delete" || sel.Sel.Name == "Clear" {
								if fs := fieldSelOf(info, sel.X, rv); fs != nil && fs.Sel.Name == "observers" {
									r.deletes = true
								}
							}
							if name, isObs := m.Obj.ObserverMethods[model.Callee(info, y)]; isObs && notifKind(name) >= 0 {
								r.kinds[notifKind(name)] = true
							}
						}
						return true
					})
				}
				for k, mn := range []string{"NextWithContext", "ErrorWithContext", "CompleteWithContext"} {
					fd := meths[mn]
					key := fmt.Sprintf("ro.%s.%s/delivers", tname, mn)
					if fd == nil {
						c.Undecided(key, p.Syntax[0].Pos(), "method not found")
						continue
					}
					c.Inc("subject_delivery_paths", 1)
					r := &reach{kinds: map[int]bool{}}
					visit(fd, map[*ast.FuncDecl]bool{}, r)
					if why, deferred := subjectNextDeferred[tname]; deferred && k == 0 {
						c.OK(key, fd.Pos(), "by definition: %s", why)
						continue
					}
					need := []int{k}
					if _, deferred := subjectNextDeferred[tname]; deferred && k == 2 {
						need = []int{0, 2}
					}
					missing := ""
					for _, nk := range need {
						if !r.kinds[nk] {
							missing += " " + []string{"Next", "Error", "Complete"}[nk]
						}
					}
					switch {
					case missing != "":
						c.Violation(key, fd.Pos(), "%s never reaches a%s notification of an observer: subscribers of the subject do not receive what the subject was sent", mn, missing)
					case k > 0 && !r.deletes:
						c.Violation(key, fd.Pos(), "%s never empties the observer set: terminated observers stay registered", mn)
					default:
						c.OK(key, fd.Pos(), "reaches the observers with the same kind of notification%s", map[bool]string{true: " and empties the observer set", false: ""}[k > 0])
					}
				}
				// every path of NextWithContext disposes of the value before it returns: it is sent on (to the observers or to
				// the dropped-notification hook) or stored in the field in which this subject keeps values by definition. A
				// path that parks the value anywhere else (a hidden queue drained by another caller) returns before the value's
				// consumers have seen it
				if fd := meths["NextWithContext"]; fd != nil && fd.Body != nil {
					rvN := recvObj(info, fd)
					storeFields := map[string]bool{"values": true, "last": true, "value": true, "hasValue": true}
					disposes := func(nd ast.Node) bool {
						found := false
						ast.Inspect(nd, func(x ast.Node) bool {
							if found {
								return false
							}
							switch y := x.(type) {
							case *ast.FuncLit:
								return false
							case *ast.CallExpr:
								if id, ok := ast.Unparen(y.Fun).(*ast.Ident); ok && id.Name == "OnDroppedNotification" {
									found = true
								}
								if subjectHelperKind(m, p, y) == "broadcast" {
									found = true
								}
								if name, isObs := m.Obj.ObserverMethods[model.Callee(info, y)]; isObs && notifKind(name) == model.EmitNext {
									if sel := callSelector(info, y); sel != nil {
										if id, ok := ast.Unparen(sel.X).(*ast.Ident); !ok || objOf(info, id) != types.Object(rvN) {
											found = true
										}
									}
								}
							case *ast.AssignStmt:
								for _, l := range y.Lhs {
									if fs := fieldSelOf(info, l, rvN); fs != nil && storeFields[fs.Sel.Name] {
										found = true
									}
								}
							}
							return !found
						})
						return found
					}
					key := fmt.Sprintf("ro.%s.NextWithContext/disposes-on-every-path", tname)
					if everyPathPasses(fd.Body, disposes) {
						c.OK(key, fd.Pos(), "every path sends the value on, reports it as dropped, or stores it where this subject keeps values")
					} else {
						c.Violation(key, fd.Pos(), "some path of NextWithContext returns without having sent the value on, reported it as dropped, or stored it in the subject's own value field: the value is parked somewhere else and Next returns before its consumers have seen it")
					}
				}
				// a local copy of the single observer is taken before the field is cleared
				for _, mn := range []string{"ErrorWithContext", "CompleteWithContext"} {
					fd := meths[mn]
					if fd == nil || fd.Body == nil {
						continue
					}
					rvT := recvObj(info, fd)
					var copies, clears []*ast.AssignStmt
					ast.Inspect(fd.Body, func(x ast.Node) bool {
						as, ok := x.(*ast.AssignStmt)
						if !ok {
							return true
						}
						for i, l := range as.Lhs {
							if fs := fieldSelOf(info, l, rvT); fs != nil && fs.Sel.Name == "observer" {
								clears = append(clears, as)
							}
							if i < len(as.Rhs) {
								if fs := fieldSelOf(info, as.Rhs[i], rvT); fs != nil && fs.Sel.Name == "observer" {
									copies = append(copies, as)
								}
							}
						}
						return true
					})
					if len(copies) == 0 || len(clears) == 0 {
						continue
					}
					key := fmt.Sprintf("ro.%s.%s/copy-before-clear", tname, mn)
					bad := false
					for _, cp := range copies {
						for _, cl := range clears {
							// same statement list, clear first
							if m.Parent(p, cl) == m.Parent(p, cp) && cl.Pos() < cp.Pos() {
								bad = true
							}
						}
					}
					if bad {
						c.Violation(key, fd.Pos(), "the observer field is cleared before the local copy that the deferred notification uses is taken: the copy is nil and the terminal notification panics in the producer's goroutine")
					} else {
						c.OK(key, fd.Pos(), "the local copy of the observer is taken before the field is cleared")
					}
				}
				// late subscribers
				if fd := meths["SubscribeWithContext"]; fd != nil && fd.Body != nil {
					key := fmt.Sprintf("ro.%s.SubscribeWithContext/late-terminal", tname)
					kinds := map[int]bool{}
					// regions in which the stored status is known: case KindError / case KindComplete of a switch on the
					// status field, or the body of `if status == Kind...`
					regions := map[int][]ast.Node{}
					ast.Inspect(fd.Body, func(x ast.Node) bool {
						switch y := x.(type) {
						case *ast.SwitchStmt:
							if y.Tag == nil || !isStatusSel(info, y.Tag) {
								return true
							}
							for _, st := range y.Body.List {
								cc := st.(*ast.CaseClause)
								for _, e := range cc.List {
									if v, ok := constVal(info, e); ok && (v == 1 || v == 2) {
										for _, b := range cc.Body {
											regions[int(v)] = append(regions[int(v)], b)
										}
									}
								}
							}
						case *ast.IfStmt:
							if be, ok := ast.Unparen(y.Cond).(*ast.BinaryExpr); ok && be.Op == token.EQL && isStatusSel(info, be.X) {
								if v, ok := constVal(info, be.Y); ok && (v == 1 || v == 2) {
									regions[int(v)] = append(regions[int(v)], y.Body)
								}
							}
						}
						return true
					})
					inRegion := func(k int, n ast.Node) bool {
						if k == 0 {
							return true
						}
						if len(regions[1]) == 0 && len(regions[2]) == 0 {
							return true // no recognisable status branch: fall back to "somewhere in the method"
						}
						for _, r := range regions[k] {
							if r.Pos() <= n.Pos() && n.End() <= r.End() {
								return true
							}
						}
						return false
					}
					ast.Inspect(fd.Body, func(x ast.Node) bool {
						call, ok := x.(*ast.CallExpr)
						if !ok {
							return true
						}
						if name, isObs := m.Obj.ObserverMethods[model.Callee(info, call)]; isObs && notifKind(name) >= 0 {
							if sel := callSelector(info, call); sel != nil {
								if id, ok := ast.Unparen(sel.X).(*ast.Ident); ok {
									if v, ok := objOf(info, id).(*types.Var); ok && fd.Body.Pos() <= v.Pos() && v.Pos() <= fd.Body.End() && inRegion(notifKind(name), call) {
										kinds[notifKind(name)] = true
									}
								}
							}
						}
						return true
					})
					// registration and replay
					rvS := recvObj(info, fd)
					registers := false
					rawRegistered := token.NoPos
					// the value that is registered is the subscriber this method built around the destination (and returns),
					// not the raw destination: terminal notifications must close the subscription the caller holds
					isBuiltSubscriber := func(e ast.Expr) bool {
						id, ok := ast.Unparen(e).(*ast.Ident)
						if !ok {
							return false
						}
						for _, d := range m.Defs[objOf(info, id)] {
							if call, ok := ast.Unparen(d.Expr).(*ast.CallExpr); ok && d.Expr != nil {
								if cl := model.Callee(info, call); cl != nil {
									if _, isCtor := m.Obj.SubscriberCtors[cl]; isCtor {
										return true
									}
								}
							}
						}
						return false
					}
					ast.Inspect(fd.Body, func(x ast.Node) bool {
						switch y := x.(type) {
						case *ast.AssignStmt:
							for i, l := range y.Lhs {
								if fs := fieldSelOf(info, l, rvS); fs != nil && fs.Sel.Name == "observer" {
									registers = true
									if i < len(y.Rhs) {
										if rid, ok := ast.Unparen(y.Rhs[i]).(*ast.Ident); ok {
											if _, isNil := info.Uses[rid].(*types.Nil); !isNil && !isBuiltSubscriber(y.Rhs[i]) {
												rawRegistered = y.Pos()
											}
										}
									}
								}
							}
						case *ast.CallExpr:
							if sel, ok := ast.Unparen(y.Fun).(*ast.SelectorExpr); ok && sel.Sel.Name == "Store" {
								if fs := fieldSelOf(info, sel.X, rvS); fs != nil && fs.Sel.Name == "observers" {
									registers = true
									if len(y.Args) == 2 && !isBuiltSubscriber(y.Args[1]) {
										rawRegistered = y.Pos()
									}
								}
							}
						}
						return true
					})
					if rawRegistered != token.NoPos {
						c.Violation(fmt.Sprintf("ro.%s.SubscribeWithContext/registers-subscriber", tname), rawRegistered, "what is stored in the observer set is not the subscriber this method built with NewSubscriber and returns: notifications bypass it, a terminal one does not close the subscription the caller holds (IsClosed stays false, Wait never returns) and the producer lock is bypassed")
					} else if registers {
						c.OK(fmt.Sprintf("ro.%s.SubscribeWithContext/registers-subscriber", tname), fd.Pos(), "the registered observer is the subscriber built around the destination")
					}
					// the removal teardown is registered after the subscriber has been stored: Add runs its argument at once on
					// a subscription that is already closed, and a removal that runs before the store leaves the subscriber in the set
					var storePos, addPos token.Pos
					ast.Inspect(fd.Body, func(x ast.Node) bool {
						call, ok := x.(*ast.CallExpr)
						if !ok {
							return true
						}
						sel, ok := ast.Unparen(call.Fun).(*ast.SelectorExpr)
						if !ok {
							return true
						}
						if sel.Sel.Name == "Store" {
							if fs := fieldSelOf(info, sel.X, rvS); fs != nil && fs.Sel.Name == "observers" && storePos == token.NoPos {
								storePos = call.Pos()
							}
						}
						if name, isSub := m.Obj.SubscriptionMethods[model.Callee(info, call)]; isSub && name == "Add" && len(call.Args) == 1 {
							if lit, isLit := ast.Unparen(call.Args[0]).(*ast.FuncLit); isLit {
								removes := false
								ast.Inspect(lit.Body, func(y ast.Node) bool {
									if c2, ok := y.(*ast.CallExpr); ok {
										if s2, ok := ast.Unparen(c2.Fun).(*ast.SelectorExpr); ok && s2.Sel.Name == "Delete" {
											removes = true
										}
									}
									return true
								})
								if removes && addPos == token.NoPos {
									addPos = call.Pos()
								}
							}
						}
						return true
					})
					if storePos != token.NoPos && addPos != token.NoPos {
						okey := fmt.Sprintf("ro.%s.SubscribeWithContext/store-before-removal", tname)
						if storePos < addPos {
							c.OK(okey, fd.Pos(), "the subscriber is stored before its removal teardown is registered")
						} else {
							c.Violation(okey, fd.Pos(), "the removal teardown is registered before the subscriber is stored: for a subscriber that is already closed the removal runs first and the subscriber then stays in the observer set for ever")
						}
					}
					// a single-consumer subject (one `observer` field) hands its backlog over once: after the loop that replays
					// the queue field, the field is replaced on every path
					if st, ok := p.Types.Scope().Lookup(tname).Type().Underlying().(*types.Struct); ok {
						single, hasValues := false, false
						for i := 0; i < st.NumFields(); i++ {
							switch st.Field(i).Name() {
							case "observer":
								single = true
							case "values":
								hasValues = true
							}
						}
						if single && hasValues {
							var loop *ast.RangeStmt
							ast.Inspect(fd.Body, func(x ast.Node) bool {
								if r, ok := x.(*ast.RangeStmt); ok {
									if fs := fieldSelOf(info, r.X, rvS); fs != nil && fs.Sel.Name == "values" {
										loop = r
									}
								}
								return true
							})
							bkey := fmt.Sprintf("ro.%s.SubscribeWithContext/backlog-consumed", tname)
							if loop != nil {
								resets := pathsPassAfter(fd.Body, loop.X, func(nd ast.Node) bool {
									as, ok := nd.(*ast.AssignStmt)
									if !ok {
										return false
									}
									for _, l := range as.Lhs {
										if fs := fieldSelOf(info, l, rvS); fs != nil && fs.Sel.Name == "values" {
											return true
										}
									}
									return false
								})
								if resets {
									c.OK(bkey, loop.Pos(), "the backlog is emptied after it has been replayed to the single subscriber")
								} else {
									c.Violation(bkey, loop.Pos(), "the backlog is replayed to the subscriber but the queue is not emptied afterwards: the next subscriber receives the values its predecessor already consumed")
								}
							}
						}
					}
					rkey := fmt.Sprintf("ro.%s.SubscribeWithContext/registers", tname)
					if registers {
						c.OK(rkey, fd.Pos(), "the new subscriber is stored in the observer set")
					} else {
						c.Violation(rkey, fd.Pos(), "SubscribeWithContext never stores the new subscriber in the observer set: it receives nothing of what the subject is sent later")
					}
					// subjects that keep values for late subscribers (fields last / values) replay them on subscription
					if st, ok := p.Types.Scope().Lookup(tname).Type().Underlying().(*types.Struct); ok {
						keeps := false
						for i := 0; i < st.NumFields(); i++ {
							if n := st.Field(i).Name(); n == "last" || n == "values" {
								keeps = true
							}
						}
						if keeps {
							// replay and registration form one critical section: a value sent between a replay taken from a
							// snapshot and a later registration reaches the other subscribers and never this one
							var reads, regs, unlocks []ast.Node
							deferred := map[ast.Node]bool{}
							ast.Inspect(fd.Body, func(x ast.Node) bool {
								switch y := x.(type) {
								case *ast.DeferStmt:
									deferred[y.Call] = true
								case *ast.SelectorExpr:
									if fs := fieldSelOf(info, y, rvS); fs != nil && (fs.Sel.Name == "values" || fs.Sel.Name == "last") {
										reads = append(reads, y)
									}
								case *ast.AssignStmt:
									for _, l := range y.Lhs {
										if fs := fieldSelOf(info, l, rvS); fs != nil && fs.Sel.Name == "observer" {
											regs = append(regs, y)
										}
									}
								case *ast.CallExpr:
									if sel, ok := ast.Unparen(y.Fun).(*ast.SelectorExpr); ok {
										if sel.Sel.Name == "Store" {
											if fs := fieldSelOf(info, sel.X, rvS); fs != nil && fs.Sel.Name == "observers" {
												regs = append(regs, y)
											}
										}
										if sel.Sel.Name == "Unlock" && !deferred[y] {
											if fs := fieldSelOf(info, sel.X, rvS); fs != nil {
												unlocks = append(unlocks, y)
											}
										}
									}
								}
								return true
							})
							akey := fmt.Sprintf("ro.%s.SubscribeWithContext/replay-register-atomic", tname)
							var split ast.Node
							for _, r := range reads {
								for _, u := range unlocks {
									for _, g := range regs {
										if r.Pos() < u.Pos() && u.Pos() < g.Pos() && reachableAfter(fd.Body, r, u) && reachableAfter(fd.Body, u, g) {
											split = u
										}
									}
								}
							}
							if split != nil {
								c.Violation(akey, split.Pos(), "the subject's lock is released between the read of the stored values and the registration of the new subscriber: a value sent in between is delivered to the other subscribers and is neither replayed nor delivered live to this one")
							} else if len(reads) > 0 && len(regs) > 0 {
								c.OK(akey, fd.Pos(), "the stored values are read and the subscriber is registered in one critical section")
							}
							pkey := fmt.Sprintf("ro.%s.SubscribeWithContext/replays", tname)
							if kinds[0] {
								c.OK(pkey, fd.Pos(), "the stored value(s) are sent to the new subscriber")
							} else {
								c.Violation(pkey, fd.Pos(), "the subject keeps values for late subscribers but SubscribeWithContext never sends a Next to the new subscriber")
							}
						}
					}
					if kinds[1] && kinds[2] {
						c.OK(key, fd.Pos(), "a subscriber arriving after termination is sent the stored Error or the Complete")
					} else {
						c.Violation(key, fd.Pos(), "SubscribeWithContext does not send both terminal kinds to a late subscriber (Error=%v Complete=%v): subscribing to a terminated subject yields a stream that never ends", kinds[1], kinds[2])
					}
				}
			}
		},
	}
}

func ruleSubjectTerminal() check.Rule {
	return check.Rule{
		Name: "SUBJECT-TERMINAL",
		Doc:  "in each subject's ErrorWithContext/CompleteWithContext the terminal state (status, and err for errors) is stored before the broadcast in the same lock region, and the observers are dropped at termination (unsubscribeAll / observer = nil); in SubscribeWithContext the registration is followed by Add of a teardown that removes it",
		Run: func(c *check.Ctx) {
			m := c.M
			p := m.Obj.Ro
			info := p.TypesInfo
			for _, tname := range subjectTypes(m) {
				for _, mn := range []string{"ErrorWithContext", "CompleteWithContext"} {
					fd := load.FuncDeclOf(p, tname+"."+mn)
					key := fmt.Sprintf("ro.%s.%s", tname, mn)
					if fd == nil || fd.Body == nil {
						c.Undecided(key, p.Syntax[0].Pos(), "anchor not found")
						continue
					}
					rv := recvObj(info, fd)
					var statusStore, errStore, firstNotify token.Pos
					drops := false
					ast.Inspect(fd.Body, func(n ast.Node) bool {
						switch x := n.(type) {
						case *ast.AssignStmt:
							for i, l := range x.Lhs {
								s := fieldSelOf(info, l, rv)
								if s == nil {
									continue
								}
								switch s.Sel.Name {
								case "status":
									statusStore = x.Pos()
								case "err":
									errStore = x.Pos()
								case "observer":
									if i < len(x.Rhs) {
										if id, ok := ast.Unparen(x.Rhs[i]).(*ast.Ident); ok {
											if _, isNil := info.Uses[id].(*types.Nil); isNil {
												drops = true
											}
										}
									}
								}
							}
						case *ast.CallExpr:
							sel, ok := ast.Unparen(x.Fun).(*ast.SelectorExpr)
							if !ok {
								return true
							}
							if id, ok := ast.Unparen(sel.X).(*ast.Ident); ok && objOf(info, id) == rv {
								switch subjectHelperKind(m, p, x) {
								case "broadcast":
									if firstNotify == token.NoPos {
										firstNotify = x.Pos()
									}
								case "drop-all":
									drops = true
								}
								return true
							}
							if name, isObs := m.Obj.ObserverMethods[model.Callee(info, x)]; isObs && notifKind(name) > 0 && firstNotify == token.NoPos {
								firstNotify = x.Pos()
							}
						}
						return true
					})
					c.Inc("subject_terminal_methods", 1)
					switch {
					case statusStore == token.NoPos:
						c.Violation(key+"/stores-terminal", fd.Pos(), "the terminal kind is never stored: late subscribers would be registered on a dead subject")
					case firstNotify != token.NoPos && statusStore > firstNotify:
						c.Violation(key+"/stores-terminal", fd.Pos(), "the terminal kind is stored after the observers were notified: a subscriber arriving in between is registered on a terminated subject")
					case mn == "ErrorWithContext" && (errStore == token.NoPos || (firstNotify != token.NoPos && errStore > firstNotify)):
						c.Violation(key+"/stores-terminal", fd.Pos(), "the error is not stored before the observers are notified: late subscribers cannot receive it")
					default:
						c.OK(key+"/stores-terminal", fd.Pos(), "terminal state stored before notifying")
					}
					if drops {
						c.OK(key+"/drops-observers", fd.Pos(), "observers are dropped at termination")
					} else {
						c.Violation(key+"/drops-observers", fd.Pos(), "observers are not dropped when the subject terminates (no unsubscribeAll / observer = nil)")
					}
				}
				// removal teardown
				fd := load.FuncDeclOf(p, tname+".SubscribeWithContext")
				if fd == nil || fd.Body == nil {
					continue
				}
				rv := recvObj(info, fd)
				removal := false
				ast.Inspect(fd.Body, func(n ast.Node) bool {
					call, ok := n.(*ast.CallExpr)
					if !ok {
						return true
					}
					if name, isSub := m.Obj.SubscriptionMethods[model.Callee(info, call)]; !isSub || name != "Add" || len(call.Args) != 1 {
						return true
					}
					// the teardown: a literal, a named closure or a method value, and the helpers of the type it calls
					for _, b := range resolveFuncBodies(m, p, call.Args[0]) {
						inspectTransitive(m, b.Pkg, b.Body, 3, func(q *packages.Package, x ast.Node) bool {
							switch y := x.(type) {
							case *ast.CallExpr:
								if sel, ok := ast.Unparen(y.Fun).(*ast.SelectorExpr); ok && sel.Sel.Name == "Delete" && (fieldSelOf(q.TypesInfo, sel.X, rv) != nil || recvFieldSel(m, q, sel.X) != nil) {
									removal = true
								}
							case *ast.AssignStmt:
								for _, l := range y.Lhs {
									if s := fieldSelOf(q.TypesInfo, l, rv); s != nil && s.Sel.Name == "observer" {
										removal = true
									}
									if s := recvFieldSel(m, q, l); s != nil && s.Sel.Name == "observer" {
										removal = true
									}
								}
							}
							return true
						})
					}
					return true
				})
				key := fmt.Sprintf("ro.%s.SubscribeWithContext/removal-teardown", tname)
				if removal {
					c.OK(key, fd.Pos(), "the subscription's teardown removes the observer from the subject")
				} else {
					c.Violation(key, fd.Pos(), "no teardown removes the registered observer: unsubscribed observers stay in the subject")
				}
			}
		},
	}
}

// REPLAY-BEFORE-TERMINAL
func ruleReplayBeforeTerminal() check.Rule {
	return check.Rule{
		Name: "REPLAY-BEFORE-TERMINAL",
		Doc:  "in every subject that keeps a backlog, each path of SubscribeWithContext that delivers the stored terminal has first replayed the backlog the definition names: replay and unicast replay all queued values before the status switch; async emits its value (when it has one) before the completion",
		Run: func(c *check.Ctx) {
			m := c.M
			p := m.Obj.Ro
			info := p.TypesInfo
			for _, tname := range subjectTypes(m) {
				fd := load.FuncDeclOf(p, tname+".SubscribeWithContext")
				if fd == nil || fd.Body == nil {
					continue
				}
				rv := recvObj(info, fd)
				// fields
				var st *types.Struct
				if tn, ok := p.Types.Scope().Lookup(tname).(*types.TypeName); ok {
					st, _ = tn.Type().Underlying().(*types.Struct)
				}
				hasField := func(n string) bool {
					if st == nil {
						return false
					}
					for i := 0; i < st.NumFields(); i++ {
						if st.Field(i).Name() == n {
							return true
						}
					}
					return false
				}
				sw := statusSwitchOf(info, fd.Body)
				key := fmt.Sprintf("ro.%s.SubscribeWithContext/replay", tname)
				if hasField("values") {
					c.Inc("backlog_subjects", 1)
					// replay nodes: loops over s.values, or calls of same-type helpers that contain one
					rangesValues := func(body *ast.BlockStmt, r *types.Var) bool {
						found := false
						ast.Inspect(body, func(n ast.Node) bool {
							if rs, ok := n.(*ast.RangeStmt); ok {
								if s := fieldSelOf(info, rs.X, r); s != nil && s.Sel.Name == "values" {
									found = true
								}
							}
							return true
						})
						return found
					}
					var replays []ast.Node
					ast.Inspect(fd.Body, func(n ast.Node) bool {
						switch x := n.(type) {
						case *ast.RangeStmt:
							if s := fieldSelOf(info, x.X, rv); s != nil && s.Sel.Name == "values" {
								replays = append(replays, x)
							}
						case *ast.CallExpr:
							if cl := model.Callee(info, x); cl != nil && model.IsMethod(cl, ro, tname, cl.Name()) {
								if d := m.Decls[cl]; d != nil && d.Decl.Body != nil && rangesValues(d.Decl.Body, recvObj(info, d.Decl)) {
									replays = append(replays, x)
								}
							}
						}
						return true
					})
					switch {
					case len(replays) == 0:
						c.Violation(key, fd.Pos(), "the queued values are never replayed to a new subscriber")
					case sw == nil:
						c.Undecided(key, fd.Pos(), "no switch over the status found")
					default:
						bad := false
						for _, cl := range sw.Body.List {
							cc := cl.(*ast.CaseClause)
							var term *ast.CallExpr
							for _, st := range cc.Body {
								ast.Inspect(st, func(n ast.Node) bool {
									if call, ok := n.(*ast.CallExpr); ok && term == nil {
										if name, isObs := m.Obj.ObserverMethods[model.Callee(info, call)]; isObs && notifKind(name) > 0 {
											term = call
										}
									}
									return true
								})
							}
							if term == nil {
								continue
							}
							ok := false
							for _, r := range replays {
								if r.Pos() < term.Pos() && (r.End() <= sw.Pos() || (cc.Pos() <= r.Pos() && r.End() <= cc.End())) {
									ok = true
								}
							}
							if !ok {
								bad = true
								c.Violation(key, term.Pos(), "the stored terminal is delivered (and the method returns) before the queued values are replayed: a subscriber arriving after termination loses the backlog (Next 1, Next 2, Complete, Subscribe delivers nothing)")
								break
							}
						}
						if !bad {
							c.OK(key, replays[0].Pos(), "the backlog is replayed before every delivery of the stored terminal")
						}
					}
				}
				if hasField("hasValue") && sw != nil {
					c.Inc("backlog_subjects", 1)
					ok := false
					for _, cl := range sw.Body.List {
						cc := cl.(*ast.CaseClause)
						isComplete := false
						for _, e := range cc.List {
							if v, isConst := constVal(info, e); isConst && v == 2 {
								isComplete = true
							}
						}
						if !isComplete {
							continue
						}
						var nextPos, completePos token.Pos
						for _, s := range cc.Body {
							ast.Inspect(s, func(n ast.Node) bool {
								if call, isCall := n.(*ast.CallExpr); isCall {
									if name, isObs := m.Obj.ObserverMethods[model.Callee(info, call)]; isObs {
										switch notifKind(name) {
										case 0:
											if nextPos == token.NoPos {
												nextPos = call.Pos()
											}
										case 2:
											completePos = call.Pos()
										}
									}
								}
								return true
							})
						}
						ok = nextPos != token.NoPos && completePos != token.NoPos && nextPos < completePos
					}
					if ok {
						c.OK(key+"/final-value", sw.Pos(), "a completed async subject replays its final value before the completion")
					} else {
						c.Violation(key+"/final-value", sw.Pos(), "a completed async subject does not deliver its final value before the completion to late subscribers")
					}
				}
			}
		},
	}
}

// UNICAST-SINGLE
func ruleUnicastSingle() check.Rule {
	return check.Rule{
		Name: "UNICAST-SINGLE",
		Doc:  "in the unicast subject the assignment of the single observer is reachable only when no observer is registered (the observer != nil test errors out first)",
		Run: func(c *check.Ctx) {
			m := c.M
			p := m.Obj.Ro
			info := p.TypesInfo
			for _, tname := range subjectTypes(m) {
				fd := load.FuncDeclOf(p, tname+".SubscribeWithContext")
				if fd == nil || fd.Body == nil {
					continue
				}
				rv := recvObj(info, fd)
				atom := func(e ast.Expr) int {
					be, ok := ast.Unparen(e).(*ast.BinaryExpr)
					if !ok || (be.Op != token.EQL && be.Op != token.NEQ) {
						return 0
					}
					isObsField := func(x ast.Expr) bool {
						s := fieldSelOf(info, x, rv)
						return s != nil && s.Sel.Name == "observer"
					}
					isNil := func(x ast.Expr) bool {
						id, ok := ast.Unparen(x).(*ast.Ident)
						if !ok {
							return false
						}
						_, n := info.Uses[id].(*types.Nil)
						return n
					}
					if (isObsField(be.X) && isNil(be.Y)) || (isObsField(be.Y) && isNil(be.X)) {
						if be.Op == token.EQL {
							return +1
						}
						return -1
					}
					return 0
				}
				ast.Inspect(fd.Body, func(n ast.Node) bool {
					if _, isLit := n.(*ast.FuncLit); isLit {
						return false
					}
					as, ok := n.(*ast.AssignStmt)
					if !ok {
						return true
					}
					for _, l := range as.Lhs {
						if s := fieldSelOf(info, l, rv); s != nil && s.Sel.Name == "observer" {
							c.Inc("unicast_registrations", 1)
							key := fmt.Sprintf("ro.%s.SubscribeWithContext/single-observer", tname)
							// the refusal branch tells the second subscriber: an `if observer != nil` body with an Error notification
							refusalErrors := false
							ast.Inspect(fd.Body, func(y ast.Node) bool {
								ifs, ok := y.(*ast.IfStmt)
								if !ok || atom(ifs.Cond) != -1 {
									return true
								}
								ast.Inspect(ifs.Body, func(z ast.Node) bool {
									if call, ok := z.(*ast.CallExpr); ok {
										if name, isObs := m.Obj.ObserverMethods[model.Callee(info, call)]; isObs && notifKind(name) == 1 {
											refusalErrors = true
										}
									}
									return true
								})
								return true
							})
							if guardedBy(fd.Body, as, atom) && !refusalErrors {
								c.Violation(key, as.Pos(), "a second subscriber is turned away without an Error notification: its stream never starts and never ends")
							} else if guardedBy(fd.Body, as, atom) {
								c.OK(key, as.Pos(), "the observer is installed only when none is registered; a second subscriber receives an Error")
							} else {
								c.Violation(key, as.Pos(), "a second subscriber can replace the registered observer: unicast no longer admits one subscriber at a time")
							}
						}
					}
					return true
				})
			}
		},
	}
}

// SIBLING-TABLE
func ruleSiblingTable() check.Rule {
	return check.Rule{
		Name: "SIBLING-TABLE",
		Doc:  "cross-check of the subjects that broadcast (publish, behavior, replay, async): for each of NextWithContext/ErrorWithContext/CompleteWithContext/SubscribeWithContext the implementations are summarised as a set of features (locks mu, gates on status, drop hook, stores err/status, broadcasts, unsubscribes all after unlocking, registers under the lock, adds a removal teardown) and a sibling that lacks a feature all others have is reported unless the difference is definitional",
		Run: func(c *check.Ctx) {
			m := c.M
			p := m.Obj.Ro
			info := p.TypesInfo
			definitional := map[string]string{
				"asyncSubjectImpl.NextWithContext/broadcast": "async stores the value instead of broadcasting it",
			}
			var sibs []string
			for _, t := range subjectTypes(m) {
				// siblings: those that keep their observers in a sync.Map (broadcasting subjects)
				if tn, ok := p.Types.Scope().Lookup(t).(*types.TypeName); ok {
					if st, ok := tn.Type().Underlying().(*types.Struct); ok {
						for i := 0; i < st.NumFields(); i++ {
							if st.Field(i).Name() == "observers" {
								sibs = append(sibs, t)
							}
						}
					}
				}
			}
			sort.Strings(sibs)
			for _, mn := range []string{"NextWithContext", "ErrorWithContext", "CompleteWithContext", "SubscribeWithContext"} {
				feats := map[string]map[string]bool{}
				for _, t := range sibs {
					fd := load.FuncDeclOf(p, t+"."+mn)
					if fd == nil || fd.Body == nil {
						continue
					}
					rv := recvObj(info, fd)
					f := map[string]bool{}
					var unlockPos, unsubAllPos token.Pos
					ast.Inspect(fd.Body, func(n ast.Node) bool {
						switch x := n.(type) {
						case *ast.CallExpr:
							sel, ok := ast.Unparen(x.Fun).(*ast.SelectorExpr)
							if !ok {
								if id, ok := ast.Unparen(x.Fun).(*ast.Ident); ok && id.Name == "OnDroppedNotification" {
									f["drop-hook"] = true
								}
								return true
							}
							if s := fieldSelOf(info, sel.X, rv); s != nil && s.Sel.Name == "mu" {
								switch sel.Sel.Name {
								case "Lock":
									f["lock"] = true
								case "Unlock":
									f["unlock"] = true
									if _, isDefer := m.Parent(p, x).(*ast.DeferStmt); !isDefer {
										unlockPos = x.Pos()
									}
								}
							}
							// the broadcast written out in the method: a notification sent to something other than the receiver
							// (a stored observer reached through the observers collection)
							if name, isObs := m.Obj.ObserverMethods[model.Callee(info, x)]; isObs && notifKind(name) >= 0 {
								if id, ok := ast.Unparen(sel.X).(*ast.Ident); !ok || objOf(info, id) != rv {
									f["broadcast"] = true
								}
							}
							if id, ok := ast.Unparen(sel.X).(*ast.Ident); ok && objOf(info, id) == rv {
								switch subjectHelperKind(m, p, x) {
								case "broadcast":
									f["broadcast"] = true
								case "drop-all":
									unsubAllPos = x.Pos()
								}
							}
							if sel.Sel.Name == "Store" {
								if s := fieldSelOf(info, sel.X, rv); s != nil && s.Sel.Name == "observers" {
									f["registers"] = true
								}
							}
							if name, isSub := m.Obj.SubscriptionMethods[model.Callee(info, x)]; isSub && name == "Add" {
								f["removal-teardown"] = true
							}
						case *ast.AssignStmt:
							for _, l := range x.Lhs {
								if s := fieldSelOf(info, l, rv); s != nil && (s.Sel.Name == "status" || s.Sel.Name == "err") {
									f["stores-"+s.Sel.Name] = true
								}
							}
						case *ast.IfStmt:
							if implies(x.Cond, true, atomStatusOpen(info)) || statusKindTest(info, x.Cond) != nil {
								f["gate"] = true
							}
						case *ast.SwitchStmt:
							if x.Tag != nil && isStatusSel(info, x.Tag) {
								f["gate"] = true
							}
						}
						return true
					})
					if unsubAllPos != token.NoPos {
						if unlockPos != token.NoPos && unsubAllPos > unlockPos {
							f["unsubscribe-all-after-unlock"] = true
						} else {
							f["unsubscribe-all-under-lock"] = true
						}
					}
					feats[t] = f
				}
				all := map[string]int{}
				for _, f := range feats {
					for k := range f {
						all[k]++
					}
				}
				var names []string
				for k := range all {
					names = append(names, k)
				}
				sort.Strings(names)
				for _, t := range sibs {
					f := feats[t]
					if f == nil {
						continue
					}
					c.Inc("sibling_methods", 1)
					bad := false
					for _, k := range names {
						if f[k] || all[k] < len(feats)-1 || len(feats) < 3 {
							continue
						}
						id := t + "." + mn + "/" + k
						if why, ok := definitional[id]; ok {
							c.OK("ro."+id, p.Syntax[0].Pos(), "definitional difference: %s", why)
							continue
						}
						bad = true
						fd := load.FuncDeclOf(p, t+"."+mn)
						c.Violation("ro."+id, fd.Pos(), "%s.%s lacks %q, which its %d sibling implementations all have", t, mn, k, all[k])
					}
					if !bad {
						var have []string
						for _, k := range names {
							if f[k] {
								have = append(have, k)
							}
						}
						c.OK("ro."+t+"."+mn+"/siblings-agree", p.Syntax[0].Pos(), "features: %s", strings.Join(have, ", "))
					}
				}
			}
		},
	}
}

func C10() *check.Property {
	return &check.Property{
		ID:       "C10",
		Title:    "Subjects follow their sequential definition and are linearizable",
		Patterns: CorePatterns,
		Scope:    []string{ro},
		Rules:    []check.Rule{ruleNoTryLockSkip(), ruleSubjectGuardedBy(), ruleSubjectGate(), ruleSubjectTerminal(), ruleReplayBeforeTerminal(), ruleUnicastSingle(), ruleSiblingTable(), ruleSubjectBroadcastLocked(), ruleCallbackReentrancy(), ruleSubjectDelivers(), ruleNilGuardPolarity(), ruleQueueFIFO(), ruleFinalizerDiscipline()},
		Explanation: "Structural clauses only. Linearizability over concurrent histories is NOT decided. What is decided is the locking and ordering discipline that the sequential definition and the linearization argument rest on: all mutable subject state is accessed under one mutex " +
			"(GUARDED-BY, lock-set data-flow); effects are gated on the open status, the terminal state is stored before the broadcast and observers are dropped at termination; registration happens under the gate and is undone by the subscription's teardown; " +
			"the backlog is replayed before a stored terminal (REPLAY-BEFORE-TERMINAL); unicast installs its observer only when none is present; broadcasts happen under the mutex; and the four broadcasting siblings agree feature by feature (SIBLING-TABLE).",
		NotDecided:  "linearizability itself, the contents/order of replay buffers (last N, latest value), sync.Map iteration order (all subscribers see values in publication order because each broadcast completes under the mutex — argued only).",
		Assumptions: []string{"sync.Mutex and sync.Map semantics"},
		Floors:      map[string]int{"field_accesses": 100, "subject_gated_effects": 30, "subject_terminal_methods": 10, "backlog_subjects": 3, "unicast_registrations": 1, "sibling_methods": 16, "subject_notifications": 15},
		Controls:    map[string]string{"zz_verif_controls_nilguard.go": roControl(controlsNilGuard), "zz_verif_controls_c05c.go": roControl(controlsC05c)},
	}
}

package rules

import "rocheck/internal/check"

// C16 is claimed only for the clauses whose truth is in the shape of the code; see DESIGN.md section 5.
func C16() *check.Property {
	return &check.Property{
		ID:       "C16",
		Title:    "Time-driven operators never act early, never reorder, and stop when told",
		Patterns: CorePatterns,
		Scope:    []string{ro},
		Rules: []check.Rule{ruleRelease(), ruleTeardownAllRun(), ruleCtxWatch(), ruleCtxDoneTerminates(), ruleQueueFIFO(), ruleCtxPairing(),
			ruleTerminalPropagation(), ruleDeadEmission(), ruleNoEmitUnderTeardownLock()},
		Explanation: "Narrow structural claim. Every clause of C16 that compares wall-clock instants or counts events per window (never early, at most one per window/tick, Timeout only after a full quiet period) is NOT decided: no sound static argument bounds those. " +
			"Decided are the clauses that are visible in the code's shape: (fall silent) every timer, ticker and looping goroutine of every operator is stopped / signalled by its teardown, on every path of the teardown and even when an earlier release panics (RELEASE, TEARDOWN-ALL-RUN); " +
			"the context-aware sources watch the subscriber context in every blocking select and the cancellation case ends the output (CTX-WATCH, CTX-DONE-TERMINATES); (never reorder) the queues of Delay and of the combining/buffering operators are filled at the tail and read at the head " +
			"that is dropped, and a queued notification leaves with the context it entered with (QUEUE-FIFO, CTX-PAIRING); (terminate) a completing source leads to a terminal of the output on every path, nothing is emitted after it, and no notification is sent under a lock the operator's own teardown takes " +
			"(TERMINAL-PROPAGATION, DEAD-EMISSION, NO-EMIT-UNDER-TEARDOWN-LOCK).",
		NotDecided:  "every lower bound on time, every per-window / per-tick count, that a value is never emitted early or late, that throttling/sampling pick the right value, Timeout's quiet period; the duration handed to the timer primitives (any larger or scaled operand keeps the lower bounds, so no exact rule exists — DESIGN.md section 5).",
		Assumptions: []string{"time.Timer/Ticker/AfterFunc semantics", "C03 (teardown runs once) and C01 (a closed subscriber drops late notifications: a timer that fires after the terminal is harmless)"},
		Floors:      map[string]int{"acquisitions": 150, "ctx_watch_selects": 4, "ctx_done_cases": 5, "queue_head_reads": 15, "complete_slots_checked": 120},
		Controls: map[string]string{"zz_verif_controls_c03.go": roControl(controlsC03 + controlsC03b), "zz_verif_controls_c05.go": roControl(controlsC05),
			"zz_verif_controls_c04.go": roControl(controlsC04), "zz_verif_controls_c06.go": roControl(controlsC06), "zz_verif_controls_c09.go": roControl(controlsC09 + controlsC09b)},
	}
}

package rules

import (
	"fmt"
	"go/ast"
	"go/token"
	"go/types"

	"rocheck/internal/check"
	"rocheck/internal/model"
)

// WATCHDOG-REARM: a timer whose callback ends the output (Timeout) is disarmed while a notification is delivered.
func ruleWatchdogRearm() check.Rule {
	return check.Rule{
		Name:        "WATCHDOG-REARM",
		FamilyShape: true,
		Doc:         "for every timer created with time.AfterFunc whose callback sends a terminal notification to the destination (a watchdog: Timeout), each callback of the upstream observer stops that timer on every path before it forwards its notification, and the next callback re-arms it (Reset) on every path after the forward: a watchdog left running while a value is delivered to a slow consumer fires although the source has just emitted, i.e. before a full quiet period",
		Run: func(c *check.Ctx) {
			m := c.M
			n := 0
			for _, sc := range m.SCs {
				armed := c.Armed(sc)
				info := sc.Pkg.TypesInfo
				for _, t := range sc.Timers {
					if t.Fn != "AfterFunc" || t.Body == nil {
						continue
					}
					// the callback sends a terminal to the destination
					watchdog := false
					for _, e := range sc.Emits {
						if e.ToDest && e.Kind != model.EmitNext && e.Ctx == t.Body {
							watchdog = true
						}
					}
					as, ok := m.Parent(t.Pkg, t.Call).(*ast.AssignStmt)
					if !watchdog || !ok || len(as.Lhs) != 1 {
						continue
					}
					tid, ok := as.Lhs[0].(*ast.Ident)
					if !ok {
						continue
					}
					tv := objOf(info, tid)
					isCallOn := func(name string) func(ast.Node) bool {
						return func(nd ast.Node) bool {
							found := false
							ast.Inspect(nd, func(x ast.Node) bool {
								if _, isLit := x.(*ast.FuncLit); isLit {
									return false
								}
								if call, ok := x.(*ast.CallExpr); ok {
									if sel, ok := ast.Unparen(call.Fun).(*ast.SelectorExpr); ok && sel.Sel.Name == name {
										if id, ok := ast.Unparen(sel.X).(*ast.Ident); ok && objOf(info, id) == tv {
											found = true
										}
									}
								}
								return !found
							})
							return found
						}
					}
					for _, e := range sc.Emits {
						if !e.ToDest || e.Forwarder || e.Ctx == nil || e.Ctx.Kind != model.KSrc {
							continue
						}
						fn := innermostFunc(m, e.Pkg, e.Node)
						body := funcBody(fn)
						if body == nil {
							continue
						}
						n++
						key := fmt.Sprintf("%s/watchdog-%s", e.Key, tid.Name)
						switch {
						case !pathsPassBefore(body, e.Node, isCallOn("Stop")):
							c.Report(armed, key, e.Pos, "the %s notification is forwarded while the watchdog timer %s may still be armed: it can fire during a slow delivery, i.e. right after the source emitted", model.SlotNames[e.Kind], tid.Name)
						case e.Kind == model.EmitNext && !pathsPassAfter(body, e.Node, func(nd ast.Node) bool {
							// re-armed, or found closed by the test that guards the re-arming (see the clause below)
							if isCallOn("Reset")(nd) {
								return true
							}
							closedTest := false
							if ex, isExpr := nd.(ast.Expr); isExpr {
								ast.Inspect(ex, func(z ast.Node) bool {
									if y, ok := z.(*ast.CallExpr); ok {
										if s2, ok := ast.Unparen(y.Fun).(*ast.SelectorExpr); ok && s2.Sel.Name == "IsClosed" {
											closedTest = true
										}
									}
									return !closedTest
								})
							}
							return closedTest
						}):
							c.Report(armed, key, e.Pos, "after forwarding the value the watchdog timer %s is not re-armed on every path: a later silence of the source is never reported", tid.Name)
						default:
							if armed {
								c.OK(key, e.Pos, "watchdog stopped before the forward%s", map[bool]string{true: " and re-armed after it", false: ""}[e.Kind == model.EmitNext])
							}
						}
						// the forward may have ended the subscription (downstream completed or unsubscribed inside it): the teardown
						// has then stopped the timer, and re-arming it makes it fire later into a closed stream and keeps the timer
						// alive after the subscription is closed. The Reset that follows the forward is reached only after a test of
						// the closed state (of the destination, or of something the teardown writes)
						if e.Kind == model.EmitNext {
							tdWrites := map[types.Object]bool{}
							for _, tr := range sc.Teardowns {
								if tr.Val != nil && tr.Val.Kind == model.AVFunc && tr.Val.Lit != nil {
									for _, w := range writesIn(tr.Pkg.TypesInfo, tr.Val.Lit.Body) {
										tdWrites[w.Var] = true
									}
								}
							}
							ast.Inspect(body, func(x ast.Node) bool {
								call, ok := x.(*ast.CallExpr)
								if !ok || call.Pos() < e.Node.End() {
									return true
								}
								sel, ok := ast.Unparen(call.Fun).(*ast.SelectorExpr)
								if !ok || sel.Sel.Name != "Reset" {
									return true
								}
								if id, ok := ast.Unparen(sel.X).(*ast.Ident); !ok || objOf(info, id) != tv {
									return true
								}
								gkey := fmt.Sprintf("%s/watchdog-%s-rearm-after-close", e.Key, tid.Name)
								guarded := guardedByEdge(body, call, func(cond ast.Expr, _ bool) bool {
									if cond.Pos() < e.Node.End() {
										return false
									}
									found := false
									ast.Inspect(cond, func(z ast.Node) bool {
										switch y := z.(type) {
										case *ast.CallExpr:
											if s2, ok := ast.Unparen(y.Fun).(*ast.SelectorExpr); ok && s2.Sel.Name == "IsClosed" {
												found = true
											}
										case *ast.Ident:
											if tdWrites[objOf(info, y)] {
												found = true
											}
										}
										return !found
									})
									return found
								})
								if guarded {
									if armed {
										c.OK(gkey, call.Pos(), "re-armed only after a test of the closed state")
									}
								} else {
									c.Report(armed, gkey, call.Pos(), "the watchdog timer %s is re-armed after the forward without testing whether the forward closed the subscription: when downstream completes or unsubscribes inside it (Timeout | Take(1)) the teardown has already stopped the timer, the Reset arms it again, it outlives the subscription and fires a timeout error into the closed stream", tid.Name)
								}
								return true
							})
						}
					}
					// forwarders (method values of the destination) bypass the watchdog handling
					for _, e := range sc.Emits {
						if e.ToDest && e.Forwarder && e.Ctx != nil && e.Ctx.Kind == model.KSrc {
							n++
							c.Report(armed, fmt.Sprintf("%s/watchdog-%s", e.Key, tid.Name), e.Pos, "the %s notification of the source is forwarded directly, without stopping the watchdog timer %s", model.SlotNames[e.Kind], tid.Name)
						}
					}
				}
			}
			c.Inc("watchdog_forwards", n)
			c.Note("WATCHDOG-REARM recognised=%d forwards under a watchdog timer", n)
		},
	}
}

var _ = types.Universe

// C16 is claimed only for the clauses whose truth is in the shape of the code; see DESIGN.md section 5.
func C16() *check.Property {
	return &check.Property{
		ID:       "C16",
		Title:    "Time-driven operators never act early, never reorder, and stop when told",
		Patterns: CorePatterns,
		Scope:    []string{ro},
		Rules: []check.Rule{ruleRelease(), ruleTeardownAllRun(), ruleCtxWatch(), ruleCtxDoneTerminates(), ruleQueueFIFO(), ruleCtxPairing(),
			ruleTerminalPropagation(), ruleDeadEmission(), ruleNoEmitUnderTeardownLock(), ruleStateLevel(), ruleWatchdogRearm(), ruleTimerDequeueCoupled(), ruleConsumeFlag(), ruleBuildTimeState(), ruleCtxProvenance(), ruleTimeShiftViaTimer(), ruleNoHotInCold(), ruleTimerResetDrained(), ruleNoPostDeliveryMutation(), ruleTickerArgPositive(), ruleClockOrigin(), ruleSwapDeliverCoupled()},
		Explanation: "Narrow structural claim. Every clause of C16 that compares wall-clock instants or counts events per window (never early, at most one per window/tick, Timeout only after a full quiet period) is NOT decided: no sound static argument bounds those. " +
			"Decided are the clauses that are visible in the code's shape: (fall silent) every timer, ticker and looping goroutine of every operator is stopped / signalled by its teardown, on every path of the teardown and even when an earlier release panics (RELEASE, TEARDOWN-ALL-RUN); " +
			"the context-aware sources watch the subscriber context in every blocking select and the cancellation case ends the output (CTX-WATCH, CTX-DONE-TERMINATES); (never reorder) the queues of Delay and of the combining/buffering operators are filled at the tail and read at the head " +
			"that is dropped, and a queued notification leaves with the context it entered with (QUEUE-FIFO, CTX-PAIRING); (terminate) a completing source leads to a terminal of the output on every path, nothing is emitted after it, and no notification is sent under a lock the operator's own teardown takes " +
			"(TERMINAL-PROPAGATION, DEAD-EMISSION, NO-EMIT-UNDER-TEARDOWN-LOCK); (periodic sources count per subscription) the counters of Interval/Timer are per-subscription state (STATE-LEVEL); (Timeout) the watchdog timer is stopped before every forward and re-armed after a value (WATCHDOG-REARM).",
		NotDecided:  "every lower bound on time, every per-window / per-tick count, that a value is never emitted early or late, that throttling/sampling pick the right value, Timeout's quiet period; the duration handed to the timer primitives (any larger or scaled operand keeps the lower bounds, so no exact rule exists — DESIGN.md section 5).",
		Assumptions: []string{"time.Timer/Ticker/AfterFunc semantics", "C03 (teardown runs once) and C01 (a closed subscriber drops late notifications: a timer that fires after the terminal is harmless)"},
		Floors:      map[string]int{"acquisitions": 150, "ctx_watch_selects": 4, "ctx_done_cases": 5, "queue_head_reads": 15, "complete_slots_checked": 120, "timer_resets": 1},
		Controls: map[string]string{"zz_verif_controls_c03.go": roControl(controlsC03 + controlsC03b), "zz_verif_controls_c05.go": roControl(controlsC05),
			"zz_verif_controls_c04.go": roControl(controlsC04), "zz_verif_controls_c06.go": roControl(controlsC06), "zz_verif_controls_c09.go": roControl(controlsC09 + controlsC09b), "zz_verif_controls_c12.go": roControl(controlsC12 + controlsNoHotInCold), "zz_verif_controls_c16.go": roControl(controlsTimerReset + controlsTickerArg + controlsClockOrigin + controlsSwapDeliver)},
	}
}

// TIME-SHIFT-VIA-TIMER: the time-shifting operator has no fast path.
func ruleTimeShiftViaTimer() check.Rule {
	return check.Rule{
		Name:        "TIME-SHIFT-VIA-TIMER",
		FamilyShape: true,
		Doc:         "in the operator whose definition is a time shift (Delay: listed in asyncByDefinition as re-emitting from timer callbacks), every notification sent to the destination — values, Error and Complete alike — is sent from a timer callback: a notification forwarded directly from an upstream callback reaches the destination without its delay (a Complete that skips the timer when the queue happens to be empty)",
		Run: func(c *check.Ctx) {
			m := c.M
			n := 0
			for _, sc := range m.SCs {
				if sc.String() != "ro.Delay" {
					continue
				}
				armed := c.Armed(sc)
				bad := 0
				for _, e := range sc.Emits {
					if !e.ToDest {
						continue
					}
					n++
					timer := false
					for cx := e.Ctx; cx != nil; cx = cx.Parent {
						if cx.Kind == model.KTimer {
							timer = true
						}
					}
					if !timer {
						bad++
						c.Report(armed, fmt.Sprintf("%s/direct", e.Key), e.Pos, "this %s notification is sent to the destination outside a timer callback: it is not delayed", model.SlotNames[e.Kind])
					}
				}
				if bad == 0 && armed {
					c.OK(sc.String()+"/via-timer", sc.Lit.Pos(), "every notification to the destination is sent from a timer callback")
				}
			}
			c.Inc("time_shift_emissions", n)
			if n == 0 {
				c.Undecided("ro.Delay/via-timer", token.NoPos, "the time-shift operator Delay (or its emissions) was not found")
			}
		},
	}
}

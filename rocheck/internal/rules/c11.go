package rules

import (
	"fmt"
	"go/ast"
	"go/token"
	"go/types"
	"golang.org/x/tools/go/packages"
	"sort"

	"golang.org/x/tools/go/cfg"

	"rocheck/internal/check"
	"rocheck/internal/load"
	"rocheck/internal/model"
)

// shareDecl finds the application literal of ShareWithConfig.
func shareApp(m *model.Model) (*model.SC, *ast.FuncLit) {
	sc := m.SCByName("ro.ShareWithConfig")
	if sc == nil || sc.App == nil {
		return nil, nil
	}
	return sc, sc.App
}

// shareRefCount: the reference counter of Share, identified by what is done with it (whatever it is called): the
// integer variable of ShareWithConfig that the subscribe closure increments and a teardown decrements.
func shareRefCount(m *model.Model, sc *model.SC) types.Object {
	info := sc.Pkg.TypesInfo
	incd, decd := map[types.Object]bool{}, map[types.Object]bool{}
	ast.Inspect(sc.Lit.Body, func(n ast.Node) bool {
		if s, ok := n.(*ast.IncDecStmt); ok {
			if id, ok := s.X.(*ast.Ident); ok {
				if v, isVar := objOf(info, id).(*types.Var); isVar && !(sc.Lit.Pos() <= v.Pos() && v.Pos() <= sc.Lit.End()) {
					if s.Tok == token.INC {
						incd[v] = true
					} else {
						decd[v] = true
					}
				}
			}
		}
		return true
	})
	var out types.Object
	for v := range incd {
		if decd[v] && (out == nil || v.Pos() < out.Pos()) {
			out = v
		}
	}
	return out
}

// SHARE-GUARDED
func ruleShareGuarded() check.Rule {
	return check.Rule{
		Name: "SHARE-GUARDED",
		Doc:  "the per-application variables of ShareWithConfig that are written after the pipeline is built (current subject, upstream subscription, reference count) are accessed only with the Share mutex held; local closures documented as 'must be called in a mutex lock' are inferred to require it from all their call sites",
		Run: func(c *check.Ctx) {
			m := c.M
			sc, app := shareApp(m)
			if sc == nil {
				c.Undecided("ro.ShareWithConfig/anchor", m.Obj.Ro.Syntax[0].Pos(), "ShareWithConfig's application literal not found")
				return
			}
			p := sc.Pkg
			info := p.TypesInfo
			h := newHeldDB(m)
			locals := directLocals(info, app)
			accs := accessesOf(m, p, h, app, locals)
			var vars []*types.Var
			for v := range accs {
				vars = append(vars, v)
			}
			sort.Slice(vars, func(i, j int) bool { return vars[i].Pos() < vars[j].Pos() })
			for _, v := range vars {
				as := accs[v]
				if isSyncSafeType(v.Type()) {
					continue
				}
				if _, isSig := v.Type().Underlying().(*types.Signature); isSig {
					continue // the local closures themselves
				}
				written := 0
				for _, a := range as {
					if a.write && innermostFunc(m, p, a.node) != ast.Node(app) {
						written++
					}
				}
				allAtomic := true
				for _, a := range as {
					if !a.atomic {
						allAtomic = false
					}
				}
				if written == 0 && !allAtomic {
					// written only while the pipeline is being built
					continue
				}
				c.Inc("share_variables", 1)
				key := "ro.ShareWithConfig/var-" + v.Name()
				if allAtomic {
					c.OK(key, v.Pos(), "accessed only through sync/atomic")
					continue
				}
				bad := false
				for _, a := range as {
					if a.atomic || innermostFunc(m, p, a.node) == ast.Node(app) {
						continue // declaration / initialisation at application time
					}
					muHeld := false
					for k := range a.held {
						if lockShort(k) == "mu" {
							muHeld = true
						}
					}
					if !muHeld {
						bad = true
						c.Violation(key, a.node.Pos(), "%s of %s without the Share mutex (held: %s): a concurrent subscribe/unsubscribe/reset can observe or install a stale connection", rw(a), v.Name(), a.held)
						break
					}
				}
				if !bad {
					c.OK(key, v.Pos(), "all %d accesses after construction hold mu", len(as))
				}
			}
		},
	}
}

// SINGLE-CONNECT
func ruleSingleConnect() check.Rule {
	return check.Rule{
		Name: "SINGLE-CONNECT",
		Doc:  "Share subscribes upstream only on the path where getOrCreateSubject reported that it installed a new subject (under the mutex); the connectable observable subscribes its subject to the source inside the mutex and only when no live connection exists",
		Run: func(c *check.Ctx) {
			m := c.M
			sc, _ := shareApp(m)
			if sc == nil {
				c.Undecided("ro.ShareWithConfig/anchor", m.Obj.Ro.Syntax[0].Pos(), "ShareWithConfig not found")
			} else {
				info := sc.Pkg.TypesInfo
				// the upstream site: the subscribe site whose source is the parameter observable
				for _, s := range sc.SubSites {
					if s.Source == nil || s.Source.Kind != model.AVParam {
						continue
					}
					c.Inc("connect_sites", 1)
					key := "ro.ShareWithConfig/upstream-subscribe"
					// enclosing if whose condition is a boolean variable assigned from the 3rd result of getOrCreateSubject
					ok := false
					for n := ast.Node(s.Call); n != nil; n = m.Parent(sc.Pkg, n) {
						ifs, isIf := m.Parent(sc.Pkg, n).(*ast.IfStmt)
						if !isIf || n != ifs.Body {
							continue
						}
						id, isID := ast.Unparen(ifs.Cond).(*ast.Ident)
						if !isID {
							continue
						}
						v := objOf(info, id)
						for _, d := range m.Defs[v] {
							as, isAs := d.Node.(*ast.AssignStmt)
							if !isAs || len(as.Rhs) != 1 {
								continue
							}
							call, isCall := ast.Unparen(as.Rhs[0]).(*ast.CallExpr)
							if !isCall {
								continue
							}
							fid, isID := ast.Unparen(call.Fun).(*ast.Ident)
							if !isID {
								continue
							}
							// the closure returns true only in the branch that installs a new subject
							fv := objOf(info, fid)
							for _, fd := range m.Defs[fv] {
								if lit, isLit := ast.Unparen(fd.Expr).(*ast.FuncLit); isLit && createdFlagSound(info, lit) {
									ok = true
								}
							}
						}
					}
					if ok {
						c.OK(key, s.Pos, "guarded by the 'created' flag, which is true only where a new subject and connection were installed under the mutex")
					} else {
						c.Violation(key, s.Pos, "the upstream subscription is not confined to the path that installed a new subject: a later subscriber can subscribe the source again (two live upstream subscriptions)")
					}
				}
			}
			// connectable
			p := m.Obj.Ro
			info := p.TypesInfo
			fd := load.FuncDeclOf(p, "connectableObservableImpl.ConnectWithContext")
			key := "ro.connectableObservableImpl.ConnectWithContext/connect"
			if fd == nil || fd.Body == nil {
				c.Undecided(key, p.Syntax[0].Pos(), "anchor not found")
				return
			}
			rv := recvObj(info, fd)
			h := newHeldDB(m)
			ast.Inspect(fd.Body, func(n ast.Node) bool {
				call, ok := n.(*ast.CallExpr)
				if !ok {
					return true
				}
				if name, isObs := m.Obj.ObservableMethods[model.Callee(info, call)]; !isObs || name != "SubscribeWithContext" {
					return true
				}
				c.Inc("connect_sites", 1)
				held := h.heldNorm(p, call)
				// guard "no live connection": subscription == nil || subscription.IsClosed(), in either
				// polarity and either the if-body or the early-return form
				isSubField := func(x ast.Expr) bool {
					s := fieldSelOf(info, x, rv)
					return s != nil && s.Sel.Name == "subscription"
				}
				isNilIdent := func(x ast.Expr) bool {
					id, ok := ast.Unparen(x).(*ast.Ident)
					if !ok {
						return false
					}
					_, isNil := info.Uses[id].(*types.Nil)
					return isNil
				}
				// atomKind: +1 for "sub == nil" / "sub.IsClosed()", -1 for "sub != nil" / "!sub.IsClosed()"
				var atomKind func(e ast.Expr) int
				atomKind = func(e ast.Expr) int {
					switch x := ast.Unparen(e).(type) {
					case *ast.UnaryExpr:
						if x.Op == token.NOT {
							return -atomKind(x.X)
						}
					case *ast.BinaryExpr:
						if (x.Op == token.EQL || x.Op == token.NEQ) && ((isSubField(x.X) && isNilIdent(x.Y)) || (isSubField(x.Y) && isNilIdent(x.X))) {
							if x.Op == token.EQL {
								return +1
							}
							return -1
						}
					case *ast.CallExpr:
						if sel, ok := ast.Unparen(x.Fun).(*ast.SelectorExpr); ok && sel.Sel.Name == "IsClosed" && isSubField(sel.X) {
							return +1
						}
					}
					return 0
				}
				noLive := func(cond ast.Expr, polarity bool) bool {
					be, ok := ast.Unparen(cond).(*ast.BinaryExpr)
					if !ok {
						return false
					}
					a, b := atomKind(be.X), atomKind(be.Y)
					switch {
					case be.Op == token.LOR && a == +1 && b == +1:
						return polarity // (nil || closed) is true
					case be.Op == token.LAND && a == -1 && b == -1:
						return !polarity // (non-nil && open) is false
					}
					return false
				}
				guarded := guardedByEdge(fd.Body, call, noLive)
				switch {
				case !held["recv.mu"]:
					c.Violation(key, call.Pos(), "the source is subscribed outside the connectable's mutex: two concurrent Connect calls can both subscribe")
				case !guarded:
					c.Violation(key, call.Pos(), "the source is subscribed without testing for a live connection: Connect while connected subscribes again")
				default:
					c.OK(key, call.Pos(), "subscribed under the mutex and only when there is no live connection")
				}
				return true
			})
		},
	}
}

// createdFlagSound: in the closure, `return ..., true` occurs only inside the branch that
// assigns the subject variable, and `return ..., false` elsewhere; the installing branch is the side of the test
// on which a connection variable is nil.
func createdFlagSound(info *types.Info, lit *ast.FuncLit) bool {
	okTrue, okFalse, n := true, true, 0
	ast.Inspect(lit.Body, func(x ast.Node) bool {
		r, ok := x.(*ast.ReturnStmt)
		if !ok || len(r.Results) == 0 {
			return true
		}
		last := r.Results[len(r.Results)-1]
		tv, ok := info.Types[last]
		if !ok || tv.Value == nil {
			okTrue = false
			return true
		}
		n++
		isTrue := tv.Value.String() == "true"
		// is this return inside an if-body that contains an assignment (installation)?
		inInstall := false
		ast.Inspect(lit.Body, func(y ast.Node) bool {
			ifs, ok := y.(*ast.IfStmt)
			if !ok {
				return true
			}
			if ifs.Body.Pos() <= r.Pos() && r.End() <= ifs.Body.End() {
				for _, s := range ifs.Body.List {
					if as, ok := s.(*ast.AssignStmt); ok && as.Tok == token.ASSIGN {
						inInstall = true
					}
				}
			}
			return true
		})
		if isTrue && !inInstall {
			okTrue = false
		}
		if !isTrue && inInstall {
			okFalse = false
		}
		return true
	})
	// the installing assignments are on the side of a test that says a connection variable is nil
	okNil := true
	ast.Inspect(lit.Body, func(y ast.Node) bool {
		as, ok := y.(*ast.AssignStmt)
		if !ok || as.Tok != token.ASSIGN {
			return true
		}
		nilSide := func(cond ast.Expr, polarity bool) bool {
			// (a == nil || b == nil) true, or (a != nil && b != nil) false: some connection variable is nil
			var some func(e ast.Expr, pol bool) bool
			some = func(e ast.Expr, pol bool) bool {
				e = ast.Unparen(e)
				switch x := e.(type) {
				case *ast.UnaryExpr:
					if x.Op == token.NOT {
						return some(x.X, !pol)
					}
				case *ast.BinaryExpr:
					switch x.Op {
					case token.LOR:
						if pol {
							return some(x.X, true) && some(x.Y, true) // every disjunct is a nil test: one of them holds
						}
						return false
					case token.LAND:
						if !pol {
							return some(x.X, false) && some(x.Y, false)
						}
						return some(x.X, true) || some(x.Y, true)
					case token.EQL, token.NEQ:
						isNil := func(z ast.Expr) bool {
							id, ok := ast.Unparen(z).(*ast.Ident)
							if !ok {
								return false
							}
							_, n := info.Uses[id].(*types.Nil)
							return n
						}
						if isNil(x.X) || isNil(x.Y) {
							return (x.Op == token.EQL) == pol
						}
					}
				}
				return false
			}
			return some(cond, polarity)
		}
		if !guardedByEdge(lit.Body, as, nilSide) {
			okNil = false
		}
		return true
	})
	return n >= 2 && okTrue && okFalse && okNil
}

// REFCOUNT-PAIRING
func ruleRefcountPairing() check.Rule {
	return check.Rule{
		Name: "REFCOUNT-PAIRING",
		Doc:  "Share increments its reference count exactly once per subscription (unconditional statement of the subscribe closure, under the mutex) and decrements it exactly once in the teardown (unconditional, under the mutex); the reset-on-zero test reads it in the same lock region as the decrement",
		Run: func(c *check.Ctx) {
			m := c.M
			sc, _ := shareApp(m)
			if sc == nil {
				c.Undecided("ro.ShareWithConfig/anchor", m.Obj.Ro.Syntax[0].Pos(), "ShareWithConfig not found")
				return
			}
			p := sc.Pkg
			info := p.TypesInfo
			h := newHeldDB(m)
			refVar := shareRefCount(m, sc)
			var inc, dec []*ast.IncDecStmt
			ast.Inspect(sc.Lit.Body, func(n ast.Node) bool {
				if s, ok := n.(*ast.IncDecStmt); ok {
					if id, ok := s.X.(*ast.Ident); ok && refVar != nil && objOf(info, id) == refVar {
						if s.Tok == token.INC {
							inc = append(inc, s)
						} else {
							dec = append(dec, s)
						}
					}
				}
				return true
			})
			topLevelOf := func(s ast.Stmt, body *ast.BlockStmt) bool {
				for _, st := range body.List {
					if st == s {
						return true
					}
				}
				return false
			}
			muHeld := func(n ast.Node) bool {
				for k := range h.heldAt(p, n) {
					if lockShort(k) == "mu" {
						return true
					}
				}
				return false
			}
			key := "ro.ShareWithConfig/refcount"
			c.Inc("refcount_ops", len(inc)+len(dec))
			if len(inc) == 1 && topLevelOf(inc[0], sc.Lit.Body) && muHeld(inc[0]) {
				c.OK(key+"/increment", inc[0].Pos(), "one unconditional increment per subscription, under mu")
			} else {
				c.Violation(key+"/increment", sc.Lit.Pos(), "the reference count is not incremented exactly once, unconditionally and under mu, per subscription (%d increments)", len(inc))
			}
			okDec := false
			if len(dec) == 1 {
				for _, tr := range sc.Teardowns {
					if tr.Val != nil && tr.Val.Lit != nil && topLevelOf(dec[0], tr.Val.Lit.Body) && muHeld(dec[0]) {
						okDec = true
						// the zero test in the same lock region
						zeroTest := false
						ast.Inspect(tr.Val.Lit.Body, func(n ast.Node) bool {
							if be, ok := n.(*ast.BinaryExpr); ok && be.Op == token.EQL {
								if id, ok := ast.Unparen(be.X).(*ast.Ident); ok && refVar != nil && objOf(info, id) == refVar && constIs(info, be.Y, 0) && muHeld(be) && be.Pos() > dec[0].Pos() {
									zeroTest = true
								}
							}
							return true
						})
						if zeroTest {
							c.OK(key+"/zero-test", dec[0].Pos(), "refCount == 0 is tested after the decrement in the same lock region")
						} else {
							c.Violation(key+"/zero-test", dec[0].Pos(), "the reset-on-zero test does not read the count after the decrement under the same lock")
						}
					}
				}
			}
			// every return that follows the increment hands back the teardown holding the decrement
			if okDec && len(inc) == 1 {
				bad := token.NoPos
				for _, tr := range sc.Teardowns {
					if tr.Expr == nil || tr.Expr.Pos() < inc[0].Pos() || tr.Expr.Pos() < sc.Lit.Pos() || tr.Expr.End() > sc.Lit.End() {
						continue
					}
					if innermostFunc(m, p, tr.Expr) != ast.Node(sc.Lit) {
						continue
					}
					has := false
					if tr.Val != nil && tr.Val.Lit != nil {
						has = tr.Val.Lit.Pos() <= dec[0].Pos() && dec[0].End() <= tr.Val.Lit.End()
					}
					if !has {
						bad = tr.Expr.Pos()
					}
				}
				if bad != token.NoPos {
					c.Violation(key+"/decrement-on-every-return", bad, "after the reference count has been incremented this return hands back a teardown that does not decrement it: the count never reaches zero again, the source stays subscribed after the last subscriber left and later subscribers join the old execution")
				} else {
					c.OK(key+"/decrement-on-every-return", inc[0].Pos(), "every return after the increment hands back the decrementing teardown")
				}
			}
			if okDec {
				c.OK(key+"/decrement", dec[0].Pos(), "one unconditional decrement per unsubscription, under mu, in the teardown")
			} else {
				c.Violation(key+"/decrement", sc.Lit.Pos(), "the reference count is not decremented exactly once, unconditionally and under mu, in the teardown (%d decrements)", len(dec))
			}
		},
	}
}

// pathsPassBefore reports whether every CFG path from the entry of body to target contains, before target,
// a node for which isDecision holds.
func pathsPassBefore(body *ast.BlockStmt, target ast.Node, isDecision func(ast.Node) bool) bool {
	g := cfg.New(body, func(*ast.CallExpr) bool { return true })
	if len(g.Blocks) == 0 {
		return false
	}
	var tb *cfg.Block
	ti := -1
	best := token.Pos(-1)
	for _, b := range g.Blocks {
		for i, n := range b.Nodes {
			if n.Pos() <= target.Pos() && target.End() <= n.End() {
				if span := n.End() - n.Pos(); best < 0 || span < best {
					best, tb, ti = span, b, i
				}
			}
		}
	}
	if tb == nil {
		return false
	}
	seen := map[int32]bool{}
	ok := true
	var dfs func(b *cfg.Block)
	dfs = func(b *cfg.Block) {
		if !ok || seen[b.Index] {
			return
		}
		seen[b.Index] = true
		limit := len(b.Nodes)
		if b == tb {
			limit = ti
		}
		for _, n := range b.Nodes[:limit] {
			if isDecision(n) {
				return
			}
		}
		if b == tb {
			ok = false
			return
		}
		for _, sc := range b.Succs {
			dfs(sc)
		}
	}
	dfs(g.Blocks[0])
	return ok
}

// RESET-BEFORE-TERMINAL
func ruleResetBeforeTerminal() check.Rule {
	return check.Rule{
		Name: "RESET-BEFORE-TERMINAL",
		Doc:  "in the terminal slots of Share's proxy observer the reset decision (the call of the reset closure under the mutex, or the store of the has-been-reset flag) is taken on every path before the terminal is broadcast to the subject: a subscriber that arrives while (or after) the terminal is delivered finds the connection already reset, and a subscriber that leaves because of the terminal finds the flag already set",
		Run: func(c *check.Ctx) {
			m := c.M
			sc, app := shareApp(m)
			if sc == nil {
				c.Undecided("ro.ShareWithConfig/anchor", m.Obj.Ro.Syntax[0].Pos(), "ShareWithConfig not found")
				return
			}
			p := sc.Pkg
			info := p.TypesInfo
			locals := directLocals(info, app)
			// reset-like closures: local closures of the application literal that assign nil to an application-level variable
			resetLike := map[types.Object]bool{}
			for v := range locals {
				for _, d := range m.Defs[v] {
					lit, isLit := ast.Unparen(d.Expr).(*ast.FuncLit)
					if d.Expr == nil || !isLit {
						continue
					}
					ast.Inspect(lit.Body, func(x ast.Node) bool {
						as, isAs := x.(*ast.AssignStmt)
						if !isAs || len(as.Lhs) != len(as.Rhs) {
							return true
						}
						for i, l := range as.Lhs {
							lid, isID := ast.Unparen(l).(*ast.Ident)
							rid, isRID := ast.Unparen(as.Rhs[i]).(*ast.Ident)
							if !isID || !isRID {
								continue
							}
							if wv, isVar := objOf(info, lid).(*types.Var); isVar && locals[wv] {
								if _, isNil := info.Uses[rid].(*types.Nil); isNil {
									resetLike[v] = true
								}
							}
						}
						return true
					})
				}
			}
			// a local closure that calls a reset-like closure (a wrapper that takes the mutex around it) is reset-like too
			for changed := true; changed; {
				changed = false
				for v := range locals {
					if resetLike[v] {
						continue
					}
					for _, d := range m.Defs[v] {
						lit, isLit := ast.Unparen(d.Expr).(*ast.FuncLit)
						if d.Expr == nil || !isLit {
							continue
						}
						ast.Inspect(lit.Body, func(x ast.Node) bool {
							if call, ok := x.(*ast.CallExpr); ok {
								if id, isID := ast.Unparen(call.Fun).(*ast.Ident); isID && resetLike[objOf(info, id)] && !resetLike[v] {
									resetLike[v] = true
									changed = true
								}
							}
							return true
						})
					}
				}
			}
			isDecision := func(n ast.Node) bool {
				found := false
				ast.Inspect(n, func(x ast.Node) bool {
					switch y := x.(type) {
					case *ast.FuncLit:
						return false
					case *ast.CallExpr:
						if id, isID := ast.Unparen(y.Fun).(*ast.Ident); isID && resetLike[objOf(info, id)] {
							found = true
						}
						if cl := model.Callee(info, y); cl != nil && cl.Pkg() != nil && cl.Pkg().Path() == "sync/atomic" && len(y.Args) > 0 {
							if id, _ := rootIdent(y.Args[0]); id != nil {
								if v, isVar := objOf(info, id).(*types.Var); isVar && locals[v] {
									found = true
								}
							}
						}
						// the same store through a method of a flag type (hasBeenReset.set())
						if o, _, ok := atomicFlagStore(m, p, y); ok {
							if v, isVar := o.(*types.Var); isVar && locals[v] {
								found = true
							}
						}
					case *ast.AssignStmt:
						for _, l := range y.Lhs {
							if id, isID := ast.Unparen(l).(*ast.Ident); isID {
								if v, isVar := objOf(info, id).(*types.Var); isVar && locals[v] {
									found = true
								}
							}
						}
					}
					return !found
				})
				return found
			}
			n := 0
			for _, s := range sc.SubSites {
				if s.Source == nil || s.Source.Kind != model.AVParam {
					continue
				}
				obs := s.Observer
				if obs == nil || obs.Kind != model.AVObserver {
					c.Undecided("ro.ShareWithConfig/proxy", s.Pos, "the observer subscribed to the source is not a recognisable three-slot observer")
					continue
				}
				for idx, name := range []string{"", "error", "complete"} {
					if idx == 0 {
						continue
					}
					slot := obs.Slots[idx]
					key := "ro.ShareWithConfig/proxy-" + name
					if slot == nil || slot.Kind != model.AVFunc || slot.Lit == nil {
						c.Undecided(key, s.Pos, "the %s slot of Share's proxy observer is not a function literal", name)
						continue
					}
					var terminals []*ast.CallExpr
					ast.Inspect(slot.Lit.Body, func(x ast.Node) bool {
						call, isCall := x.(*ast.CallExpr)
						if !isCall {
							return true
						}
						if mn, isObs := m.Obj.ObserverMethods[model.Callee(info, call)]; isObs {
							if notifKind(mn) == idx {
								terminals = append(terminals, call)
							}
						}
						return true
					})
					if len(terminals) == 0 {
						c.Violation(key, slot.Lit.Pos(), "the %s slot of Share's proxy observer does not forward the terminal to the subject", name)
						continue
					}
					n++
					bad := false
					// the reset call of this slot sits on the true side of the configuration flag of the same name
					ast.Inspect(slot.Lit.Body, func(x ast.Node) bool {
						call, ok := x.(*ast.CallExpr)
						if !ok {
							return true
						}
						if id, isID := ast.Unparen(call.Fun).(*ast.Ident); !isID || !resetLike[objOf(info, id)] {
							return true
						}
						flag := map[int]string{1: "ResetOnError", 2: "ResetOnComplete"}[idx]
						onFlag := func(cond ast.Expr, polarity bool) bool {
							return implies(cond, polarity, func(e ast.Expr) int {
								if sel, ok := ast.Unparen(e).(*ast.SelectorExpr); ok && sel.Sel.Name == flag {
									return +1
								}
								return 0
							})
						}
						if !guardedByEdge(slot.Lit.Body, call, onFlag) {
							bad = true
							c.Violation(key, call.Pos(), "the connection is reset in the %s slot on a path that is not the true side of config.%s: the shared observable resets (or fails to reset) against its configuration", name, flag)
						}
						return true
					})
					for _, t := range terminals {
						if bad {
							break
						}
						if !pathsPassBefore(slot.Lit.Body, t, isDecision) {
							bad = true
							c.Violation(key, t.Pos(), "the %s is broadcast to the subject on a path where the reset decision (reset under the mutex / has-been-reset flag) has not been taken yet: a subscriber arriving during the broadcast joins the terminated execution, and one leaving because of it races with the flag", name)
							break
						}
					}
					if !bad {
						c.OK(key, slot.Lit.Pos(), "every path takes the reset decision before broadcasting the %s", name)
					}
				}
			}
			c.Inc("share_terminal_slots", n)
		},
	}
}

// RESET-RELEASES: "unsubscribes when the last one leaves".
func ruleResetReleases() check.Rule {
	return check.Rule{
		Name: "RESET-RELEASES",
		Doc:  "Share's reset closure unsubscribes the connection's upstream subscription on every path; the teardown reaches a call of it inside the reference-count-zero branch; the has-been-reset flags are cleared when a new connection is created; the connectable observable registers a teardown on the connection that (when configured) installs a fresh subject",
		Run: func(c *check.Ctx) {
			m := c.M
			sc, app := shareApp(m)
			if sc == nil {
				c.Undecided("ro.ShareWithConfig/anchor", m.Obj.Ro.Syntax[0].Pos(), "ShareWithConfig not found")
				return
			}
			p := sc.Pkg
			info := p.TypesInfo
			locals := directLocals(info, app)
			refVar := shareRefCount(m, sc)
			// the reset-like closure(s): assign nil to application-level variables
			var resetVar types.Object
			var resetLit *ast.FuncLit
			for v := range locals {
				for _, d := range m.Defs[v] {
					lit, isLit := ast.Unparen(d.Expr).(*ast.FuncLit)
					if d.Expr == nil || !isLit {
						continue
					}
					ast.Inspect(lit.Body, func(x ast.Node) bool {
						as, ok := x.(*ast.AssignStmt)
						if !ok || len(as.Lhs) != len(as.Rhs) {
							return true
						}
						for i, l := range as.Lhs {
							lid, ok1 := ast.Unparen(l).(*ast.Ident)
							rid, ok2 := ast.Unparen(as.Rhs[i]).(*ast.Ident)
							if ok1 && ok2 {
								if wv, isVar := objOf(info, lid).(*types.Var); isVar && locals[wv] {
									if _, isNil := info.Uses[rid].(*types.Nil); isNil {
										resetVar, resetLit = v, lit
									}
								}
							}
						}
						return true
					})
				}
			}
			if resetLit == nil {
				c.Violation("ro.ShareWithConfig/reset", app.Pos(), "no closure that resets the connection (assigns nil to the connection variables) was found")
				return
			}
			// (1) reset unsubscribes a Subscription parameter on every path
			var unsub *ast.CallExpr
			params := map[types.Object]bool{}
			for _, pv := range model.FlattenParams(info, resetLit.Type.Params) {
				if pv != nil {
					params[pv] = true
				}
			}
			ast.Inspect(resetLit.Body, func(x ast.Node) bool {
				call, ok := x.(*ast.CallExpr)
				if !ok {
					return true
				}
				if name, isSub := m.Obj.SubscriptionMethods[model.Callee(info, call)]; isSub && name == "Unsubscribe" {
					if sel, ok := ast.Unparen(call.Fun).(*ast.SelectorExpr); ok {
						if id, ok := ast.Unparen(sel.X).(*ast.Ident); ok && params[objOf(info, id)] {
							unsub = call
						}
					}
				}
				return true
			})
			if unsub != nil && mustPass(resetLit.Body, unsub) {
				c.OK("ro.ShareWithConfig/reset-unsubscribes", resetLit.Pos(), "reset unsubscribes the connection's upstream subscription on every path")
			} else {
				c.Violation("ro.ShareWithConfig/reset-unsubscribes", resetLit.Pos(), "the reset closure does not unsubscribe the connection's upstream subscription on every path: the source stays subscribed after the last subscriber has left / after a reset")
			}
			// (1b) reset clears a connection variable only where it still holds the connection being reset
			ast.Inspect(resetLit.Body, func(x ast.Node) bool {
				as, ok := x.(*ast.AssignStmt)
				if !ok || len(as.Lhs) != 1 || len(as.Rhs) != 1 {
					return true
				}
				lid, ok1 := ast.Unparen(as.Lhs[0]).(*ast.Ident)
				rid, ok2 := ast.Unparen(as.Rhs[0]).(*ast.Ident)
				if !ok1 || !ok2 {
					return true
				}
				wv, isVar := objOf(info, lid).(*types.Var)
				if _, isNil := info.Uses[rid].(*types.Nil); !isVar || !locals[wv] || !isNil {
					return true
				}
				same := func(cond ast.Expr, polarity bool) bool {
					return implies(cond, polarity, func(e ast.Expr) int {
						be, ok := ast.Unparen(e).(*ast.BinaryExpr)
						if !ok || (be.Op != token.EQL && be.Op != token.NEQ) {
							return 0
						}
						a, okA := ast.Unparen(be.X).(*ast.Ident)
						b, okB := ast.Unparen(be.Y).(*ast.Ident)
						if !okA || !okB {
							return 0
						}
						oa, ob := objOf(info, a), objOf(info, b)
						if (oa == types.Object(wv) && params[ob]) || (ob == types.Object(wv) && params[oa]) {
							if be.Op == token.EQL {
								return +1
							}
							return -1
						}
						return 0
					})
				}
				key := "ro.ShareWithConfig/reset-clears-" + wv.Name()
				if guardedByEdge(resetLit.Body, as, same) {
					c.OK(key, as.Pos(), "%s is cleared only while it still holds the connection being reset", wv.Name())
				} else {
					c.Violation(key, as.Pos(), "%s is cleared although it may already hold a newer connection (the test that it still equals the connection being reset is missing or inverted): a late reset of an old execution disconnects the current one", wv.Name())
				}
				return true
			})
			// (1c) reset is always called with this subscription's own copies of the connection (the variables bound from the
			// get-or-create call), and the upstream subscription is handed to that same connection subscription
			ownCopies := map[types.Object]bool{}
			ast.Inspect(sc.Lit.Body, func(x ast.Node) bool {
				as, ok := x.(*ast.AssignStmt)
				if !ok || len(as.Rhs) != 1 || len(as.Lhs) < 2 {
					return true
				}
				call, ok := ast.Unparen(as.Rhs[0]).(*ast.CallExpr)
				if !ok {
					return true
				}
				if fid, ok := ast.Unparen(call.Fun).(*ast.Ident); ok {
					if fv, isVar := objOf(info, fid).(*types.Var); isVar && locals[fv] {
						for _, l := range as.Lhs {
							if id, ok := l.(*ast.Ident); ok && id.Name != "_" {
								ownCopies[objOf(info, id)] = true
							}
						}
					}
				}
				return true
			})
			nReset := 0
			ast.Inspect(sc.Lit.Body, func(x ast.Node) bool {
				call, ok := x.(*ast.CallExpr)
				if !ok {
					return true
				}
				if id, ok := ast.Unparen(call.Fun).(*ast.Ident); !ok || objOf(info, id) != resetVar {
					return true
				}
				nReset++
				key := fmt.Sprintf("ro.ShareWithConfig/reset-call#%d-own-connection", nReset)
				bad := ""
				for _, a := range call.Args {
					aid, ok := ast.Unparen(a).(*ast.Ident)
					if !ok || !ownCopies[objOf(info, aid)] {
						bad = types.ExprString(a)
					}
				}
				if bad == "" {
					c.OK(key, call.Pos(), "reset is given this subscription's own copies of the connection")
				} else {
					c.Violation(key, call.Pos(), "reset is called with %s, which is not one of the copies this subscription took from the get-or-create call: it resets a connection that is not (or no longer) its own, or releases the wrong subscription", bad)
				}
				return true
			})
			for _, op := range sc.SubOps {
				if op.Method != "AddUnsubscribable" || op.Arg == nil || op.Arg.Kind != model.AVSub || op.Arg.Site == nil || op.Arg.Site.Source == nil || op.Arg.Site.Source.Kind != model.AVParam {
					continue
				}
				key := "ro.ShareWithConfig/upstream-owned-by-connection"
				rid, _ := rootIdent(op.RecvExpr)
				if rid != nil && ownCopies[objOf(info, rid)] {
					c.OK(key, op.Pos, "the upstream subscription is handed to the connection's own subscription")
				} else {
					c.Violation(key, op.Pos, "the upstream subscription is handed to %s instead of the connection subscription taken from the get-or-create call: it is released with one subscriber (cutting the others off) or never", types.ExprString(op.RecvExpr))
				}
			}
			// (2) the teardown calls reset inside a branch that tests refCount == 0
			okTd := false
			for _, tr := range sc.Teardowns {
				if tr.Val == nil || tr.Val.Lit == nil {
					continue
				}
				ast.Inspect(tr.Val.Lit.Body, func(x ast.Node) bool {
					call, ok := x.(*ast.CallExpr)
					if !ok {
						return true
					}
					if id, ok := ast.Unparen(call.Fun).(*ast.Ident); ok && objOf(info, id) == resetVar {
						zero := func(cond ast.Expr, polarity bool) bool {
							return implies(cond, polarity, func(e ast.Expr) int {
								if be, ok := ast.Unparen(e).(*ast.BinaryExpr); ok && (be.Op == token.EQL || be.Op == token.NEQ) {
									if rid, ok := ast.Unparen(be.X).(*ast.Ident); ok && refVar != nil && objOf(info, rid) == refVar && constIs(info, be.Y, 0) {
										if be.Op == token.EQL {
											return +1
										}
										return -1
									}
								}
								return 0
							})
						}
						onCfg := func(cond ast.Expr, polarity bool) bool {
							return implies(cond, polarity, func(e ast.Expr) int {
								if sel, ok := ast.Unparen(e).(*ast.SelectorExpr); ok && sel.Sel.Name == "ResetOnRefCountZero" {
									return +1
								}
								return 0
							})
						}
						if guardedByEdge(tr.Val.Lit.Body, call, zero) && guardedByEdge(tr.Val.Lit.Body, call, onCfg) {
							okTd = true
						}
					}
					return true
				})
			}
			if okTd {
				c.OK("ro.ShareWithConfig/teardown-resets-at-zero", sc.Lit.Pos(), "the teardown calls reset in the reference-count-zero branch")
			} else {
				c.Violation("ro.ShareWithConfig/teardown-resets-at-zero", sc.Lit.Pos(), "the teardown does not call the reset closure on the true side of both config.ResetOnRefCountZero and refCount == 0: the source is not unsubscribed when the last subscriber leaves (or is, against the configuration)")
			}
			// (3) flags cleared on a new connection: every atomic flag stored with 1 in the proxy slots is stored with 0 in the subscribe body
			set1, set0 := map[types.Object]bool{}, map[types.Object]bool{}
			ast.Inspect(sc.Lit.Body, func(x ast.Node) bool {
				call, ok := x.(*ast.CallExpr)
				if !ok {
					return true
				}
				if o, v, ok := atomicFlagStore(m, p, call); ok && o != nil {
					if v == 0 {
						set0[o] = true
					} else {
						set1[o] = true
					}
				}
				return true
			})
			for o := range set1 {
				key := "ro.ShareWithConfig/flag-" + o.Name() + "-cleared"
				if set0[o] {
					c.OK(key, o.Pos(), "the flag is cleared when a new connection is created")
				} else {
					c.Violation(key, o.Pos(), "flag %s is set when the source terminates but never cleared for a new connection: after one terminated execution the reference-count-zero reset is disabled for ever", o.Name())
				}
			}
			c.Inc("share_reset_checks", 2+len(set1))
			// (4) connectable: a teardown is registered on the connection
			if fd := load.FuncDeclOf(m.Obj.Ro, "connectableObservableImpl.ConnectWithContext"); fd != nil && fd.Body != nil {
				rinfo := m.Obj.Ro.TypesInfo
				rv := recvObj(rinfo, fd)
				okAdd := false
				var addCall, subscribeCall *ast.CallExpr
				var resetBody *ast.BlockStmt
				ast.Inspect(fd.Body, func(x ast.Node) bool {
					call, ok := x.(*ast.CallExpr)
					if !ok {
						return true
					}
					if name, isObs := m.Obj.ObservableMethods[model.Callee(rinfo, call)]; isObs && name == "SubscribeWithContext" {
						subscribeCall = call
					}
					if len(call.Args) != 1 {
						return true
					}
					if name, isSub := m.Obj.SubscriptionMethods[model.Callee(rinfo, call)]; isSub && name == "Add" {
						addCall = call
						for _, b := range resolveFuncBodies(m, m.Obj.Ro, call.Args[0]) {
							resetBody = b.Body
							inspectTransitive(m, b.Pkg, b.Body, 3, func(q *packages.Package, y ast.Node) bool {
								if as, ok := y.(*ast.AssignStmt); ok {
									for _, l := range as.Lhs {
										if fs := fieldSelOf(q.TypesInfo, l, rv); fs != nil && fs.Sel.Name == "subject" {
											okAdd = true
										}
										if fs := recvFieldSel(m, q, l); fs != nil && fs.Sel.Name == "subject" {
											okAdd = true
										}
									}
								}
								return true
							})
						}
					}
					return true
				})
				// the decision to install a fresh subject is the configuration's alone
				if okAdd && addCall != nil && resetBody != nil {
					lit := &ast.FuncLit{Type: &ast.FuncType{Func: resetBody.Pos()}, Body: resetBody}
					foreign := token.NoPos
					var visit func(n ast.Node, conds []ast.Expr)
					visit = func(n ast.Node, conds []ast.Expr) {
						ast.Inspect(n, func(y ast.Node) bool {
							switch z := y.(type) {
							case *ast.IfStmt:
								if z.Init != nil {
									visit(z.Init, conds)
								}
								visit(z.Body, append(append([]ast.Expr{}, conds...), z.Cond))
								if z.Else != nil {
									visit(z.Else, append(append([]ast.Expr{}, conds...), z.Cond))
								}
								return false
							case *ast.AssignStmt:
								for _, l := range z.Lhs {
									if fs := fieldSelOf(rinfo, l, rv); fs != nil && fs.Sel.Name == "subject" {
										for _, cond := range conds {
											ast.Inspect(cond, func(w ast.Node) bool {
												switch a := w.(type) {
												case *ast.CallExpr:
													foreign = a.Pos()
													return false
												case *ast.SelectorExpr:
													// s.config.X
													if inner, ok := ast.Unparen(a.X).(*ast.SelectorExpr); ok {
														if fs := fieldSelOf(rinfo, inner, rv); fs != nil && fs.Sel.Name == "config" {
															return false
														}
													}
													foreign = a.Pos()
													return false
												case *ast.Ident:
													if _, isVar := rinfo.Uses[a].(*types.Var); isVar {
														foreign = a.Pos()
													}
												}
												return true
											})
										}
									}
								}
							}
							return true
						})
					}
					visit(lit.Body, nil)
					if foreign != token.NoPos {
						c.Violation("ro.connectableObservableImpl.ConnectWithContext/reset-decided-by-config", foreign, "the decision to install a fresh subject on disconnection reads something else than the configuration: with ResetOnDisconnect set, a disconnection that leaves the subject open keeps it, observers of the previous connection keep receiving and a replaying connector replays the previous connection's values")
					} else {
						c.OK("ro.connectableObservableImpl.ConnectWithContext/reset-decided-by-config", lit.Pos(), "the fresh subject is installed under the configuration flag alone")
					}
				}
				if okAdd && subscribeCall != nil && addCall != nil && !pathsPassAfter(fd.Body, subscribeCall, func(nd ast.Node) bool { return nd.Pos() <= addCall.Pos() && addCall.End() <= nd.End() }) {
					c.Violation("ro.connectableObservableImpl.ConnectWithContext/reset-on-disconnect", addCall.Pos(), "after the source has been subscribed some path returns without registering the teardown that installs a fresh subject: for a source that terminates synchronously the old (terminated) subject is kept, and the next Connect feeds a dead subject")
				} else if okAdd {
					c.OK("ro.connectableObservableImpl.ConnectWithContext/reset-on-disconnect", fd.Pos(), "a teardown that installs a fresh subject is registered on the connection")
				} else {
					c.Violation("ro.connectableObservableImpl.ConnectWithContext/reset-on-disconnect", fd.Pos(), "no teardown that installs a fresh subject is registered on the connection: ResetOnDisconnect has no effect and a re-connection replays into the old subject")
				}
			}
		},
	}
}

// CONNECTABLE-GUARDED
func ruleConnectableGuarded() check.Rule {
	return check.Rule{
		Name: "CONNECTABLE-GUARDED",
		Doc:  "the mutable fields of connectableObservableImpl (current subject, current connection) are accessed only with its mutex held",
		Run: func(c *check.Ctx) {
			guardedFields(c, newLockDB(c.M), c.M.Obj.Ro, "connectableObservableImpl", true)
		},
	}
}

// SHARE-REPLAY-CONFIG (family)
func ruleShareReplayConfig() check.Rule {
	return check.Rule{
		Name:        "SHARE-REPLAY-CONFIG",
		FamilyShape: true,
		Doc:         "ShareReplay/ShareReplayWithConfig pass a replay-subject connector built from their bufferSize parameter and never reset on completion; Share resets on error, completion and zero references",
		Run: func(c *check.Ctx) {
			m := c.M
			p := m.Obj.Ro
			info := p.TypesInfo
			n := 0
			for _, name := range []string{"ShareReplay", "ShareReplayWithConfig", "Share"} {
				fd := load.FuncDeclOf(p, name)
				if fd == nil || fd.Body == nil {
					continue
				}
				var lit *ast.CompositeLit
				ast.Inspect(fd.Body, func(x ast.Node) bool {
					if cl, ok := x.(*ast.CompositeLit); ok && lit == nil {
						if t := info.TypeOf(cl); t != nil {
							if nn := load.NamedOf(t); nn != nil && nn.Obj().Name() == "ShareConfig" {
								lit = cl
							}
						}
					}
					return true
				})
				if lit == nil {
					continue
				}
				n++
				fields := map[string]ast.Expr{}
				for _, el := range lit.Elts {
					if kv, ok := el.(*ast.KeyValueExpr); ok {
						if id, ok := kv.Key.(*ast.Ident); ok {
							fields[id.Name] = kv.Value
						}
					}
				}
				key := "ro." + name + "/config"
				boolIs := func(f string, want bool) bool {
					e := fields[f]
					if e == nil {
						return !want
					}
					tv, ok := info.Types[e]
					return ok && tv.Value != nil && (tv.Value.String() == "true") == want
				}
				switch name {
				case "Share":
					if boolIs("ResetOnError", true) && boolIs("ResetOnComplete", true) && boolIs("ResetOnRefCountZero", true) {
						c.OK(key, fd.Pos(), "resets on error, completion and zero references")
					} else {
						c.Violation(key, fd.Pos(), "Share's default configuration does not reset on error, completion and zero references")
					}
				default:
					replay := false
					if conn, ok := ast.Unparen(fields["Connector"]).(*ast.FuncLit); ok {
						ast.Inspect(conn.Body, func(x ast.Node) bool {
							if call, ok := x.(*ast.CallExpr); ok && model.IsPkgFunc(model.Callee(info, call), ro, "NewReplaySubject") && len(call.Args) == 1 {
								if id, ok := ast.Unparen(call.Args[0]).(*ast.Ident); ok {
									for _, prm := range model.FlattenParams(info, fd.Type.Params) {
										if prm != nil && objOf(info, id) == prm {
											replay = true
										}
									}
								}
							}
							return true
						})
					}
					if replay && boolIs("ResetOnComplete", false) && boolIs("ResetOnError", true) {
						c.OK(key, fd.Pos(), "replay connector of the requested size, no reset on completion")
					} else {
						c.Violation(key, fd.Pos(), "%s does not configure a replay connector of its bufferSize with ResetOnComplete=false (replay=%v)", name, replay)
					}
				}
			}
			c.Note("SHARE-REPLAY-CONFIG recognised=%d", n)
			_ = fmt.Sprint
		},
	}
}

func C11() *check.Property {
	return &check.Property{
		ID:       "C11",
		Title:    "Sharing keeps one upstream subscription and follows the reference count",
		Patterns: CorePatterns,
		Scope:    []string{ro},
		Rules:    []check.Rule{ruleShareGuarded(), ruleSingleConnect(), ruleRefcountPairing(), ruleResetBeforeTerminal(), ruleResetReleases(), ruleConnectableGuarded(), ruleShareReplayConfig(), ruleSubjectDelivers(), ruleStateLevel()},
		Explanation: "Structural clauses only; event histories are NOT decided. The discipline that makes 'at most one live upstream subscription' true is checked: Share's connection state (subject, upstream subscription, reference count) is only touched under its mutex, " +
			"with the 'requires lock' closures inferred from their call sites (lock-set data-flow); the upstream subscribe site is confined to the path on which a new subject was installed; the reference count is incremented/decremented exactly once per subscription/unsubscription under the mutex " +
			"and the zero test follows the decrement in the same region; the connectable observable subscribes its source under its mutex only when no live connection exists, and its mutable fields are guarded; ShareReplay's configuration is what its name says.",
		NotDecided:  "the behaviour over sequences of subscribe/unsubscribe/notification/connect events (reset options, replay contents); that 'join the running execution' delivers the same notifications to all subscribers (follows from the subject rules of C10).",
		Assumptions: []string{"sync.Mutex semantics", "subjects honour C10"},
		Floors:      map[string]int{"share_variables": 3, "connect_sites": 2, "refcount_ops": 2, "field_accesses": 8, "share_terminal_slots": 2, "share_reset_checks": 4},
		Controls:    map[string]string{"zz_verif_controls_c12.go": roControl(controlsC12)},
	}
}

func C13() *check.Property {
	return &check.Property{
		ID:       "C13",
		Title:    "Goroutine-safe parts of the API are free of data races",
		Patterns: cat(CorePatterns, []string{PromPkg}),
		Scope:    []string{ro},
		Rules:    []check.Rule{ruleTypeProtection(), ruleSCVarProtection(), ruleHelperPointerProtection(), ruleNoDowngrade(), ruleChanCloseSend(), ruleShareGuarded(), ruleLockPairing(), ruleMultiProducerSafe(), withScope(ruleStateLevel(), PromPkg), ruleAtomicPointeeImmutable()},
		Explanation: "Static lock-set discipline check (Eraser's rule applied to the source), restricted to the state the property names. For the goroutine-safe types every field written after construction must be accessed atomically, through a concurrency-safe type, or with one " +
			"common mutex held by all accesses (data-flow of held locks over each method's CFG, with deferred unlocks, TryLock edges, and lock requirements of helpers/closures inferred from all their call sites). For every operator built with a safe constructor, each closure variable " +
			"that is written after publication and reachable from two possibly-concurrent emission contexts (the relation of C02, teardown included) must be protected the same way. Share's per-application state is checked likewise. It reports locations that are not consistently protected; " +
			"it does not prove the absence of every race in the Go memory model.",
		NotDecided:  "races through memory the analysis does not track (values reached through pointers handed to helpers are checked inside the helper only; user-supplied objects); happens-before edges other than locks, atomics, channel-typed values and the ordering facts S1-S4.",
		Assumptions: []string{"sync, sync/atomic, channels and the internal xsync/xatomic wrappers are correct", "sources are individually sequential (as in C02)"},
		Floors:      map[string]int{"safe_types": 9, "field_accesses": 200, "safe_scs": 25, "shared_variables": 40, "functions_with_locks": 40, "multi_producer_scs": 20},
		Controls:    map[string]string{"zz_verif_controls_c13.go": roControl(controlsC13), "zz_verif_controls_c07.go": roControl(controlsC07), "zz_verif_controls_c02.go": roControl(controlsC02), "zz_verif_controls_c12.go": roControl(controlsC12), "zz_verif_controls_atomicptr.go": roControl(controlsAtomicPointee)},
	}
}

package rules

import (
	"fmt"
	"go/ast"
	"go/constant"
	"go/token"
	"go/types"
	"regexp"
	"sort"
	"strconv"
	"strings"

	"golang.org/x/tools/go/cfg"

	"rocheck/internal/check"
	"rocheck/internal/model"
)

// errorHandledByDefinition: operators whose definition consumes the upstream error.
var errorHandledByDefinition = map[string]string{
	"ro.Catch":                 "replaces the error by the fallback observable",
	"ro.RetryWithConfig":       "re-subscribes on error; the last error is emitted after the loop",
	"ro.OnErrorResumeNextWith": "continues with the next source; the last error is emitted after the loop",
	"ro.OnErrorReturn":         "replaces the error by a value",
	"ro.Materialize":           "turns the error into a value",
	"ro.ToChannel":             "sends the error into the channel",
	"ro.Delay":                 "queues the error like a value and re-emits it from the timer callback",
	"ro.detachOn":              "queues the error like a value and re-emits it from the consumer",
	"ro.CollectWithContext":    "returns the error",
	"ro.ShareWithConfig":       "forwards the error to the connection subject (site 2); site 1 hands the destination to the subject",
}

// reemits: operators of errorHandledByDefinition that deliver the (last) error later themselves.
var reemits = map[string]bool{"ro.RetryWithConfig": true, "ro.OnErrorResumeNextWith": true}

// ERR-PROPAGATION
func ruleErrPropagation() check.Rule {
	return check.Rule{
		Name:        "ERR-PROPAGATION",
		Doc:         "for every upstream subscribe site of every operator, the error slot of the observer sends an Error notification to the destination (directly, as the method value, through a local closure or an inlined helper), unless the operator's definition consumes the error (listed with the reason); an observer that has no error slot (OnNext-only) swallows the error",
		NeedControl: true,
		Run: func(c *check.Ctx) {
			for _, sc := range c.M.SCs {
				armed := c.Armed(sc)
				multi := len(sc.SubSites) > 1
				for _, s := range sc.SubSites {
					if s.Observer == nil {
						continue
					}
					c.Inc("sites_checked", 1)
					key := s.Key + "/error"
					if multi {
						c.Inc("sites_of_multi_source_operators", 1)
					}
					if why, ok := errorHandledByDefinition[sc.String()]; ok {
						if reemits[sc.String()] {
							// the error is kept and sent later: an Error notification to the destination must exist
							// outside this site's error slot
							found := false
							kept := map[types.Object]bool{}
							if sl := s.Observer.Slots[model.SlotError]; s.Observer.Kind == model.AVObserver && sl != nil && sl.Lit != nil {
								for _, w := range writesIn(s.Pkg.TypesInfo, sl.Lit.Body) {
									kept[w.Var] = true
								}
							}
							for _, e := range sc.Emits {
								if e.ToDest && e.Kind == model.EmitError && !(e.Ctx == s.Src && e.Slot == model.SlotError) && len(e.Args) > 0 {
									if id, _ := rootIdent(e.Args[len(e.Args)-1]); id != nil && kept[objOf(e.Pkg.TypesInfo, id)] {
										found = true
									}
								}
							}
							if !found {
								c.Report(armed, key, s.Pos, "%s keeps the error of this source to send it later (%s), but no Error notification to the destination exists outside the error slot: the last error is never delivered", sc, why)
								continue
							}
						}
						if armed {
							c.OK(key, s.Pos, "by definition: %s", why)
						}
						continue
					}
					switch s.Observer.Kind {
					case model.AVDest:
						if armed {
							c.OK(key, s.Pos, "the destination itself is the observer")
						}
						continue
					case model.AVObserver:
					default:
						if armed {
							c.Info(key, s.Pos, "observer is not built in place (errors go wherever that observer sends them)")
						}
						continue
					}
					emits := false
					for _, e := range sc.Emits {
						if e.ToDest && e.Kind == model.EmitError && e.Ctx == s.Src && e.Slot == model.SlotError {
							emits = true
						}
					}
					// nested contexts created in the error slot (e.g. a subscribe in the error slot) do not count
					switch {
					case emits:
						if armed {
							c.OK(key, s.Pos, "the error slot sends Error to the destination")
						}
					case s.Observer.Slots[model.SlotError] == nil:
						c.Report(armed, key, s.Pos, "this source is observed with a partial observer (%s) that swallows its error: an error from this source neither ends the output nor releases the other sources", s.Observer.OCtor.Name)
					default:
						c.Report(armed, key, s.Pos, "the error slot of this source's observer never sends an Error notification to the destination: an error from this source does not end the output")
					}
				}
			}
			unknownsFailClosed(c)
		},
	}
}

// siblingReleaseByDefinition: operators whose definition releases other sources while the output goes on.
var siblingReleaseByDefinition = map[string]string{}

// pathsPassAfter reports whether every CFG path from target to a normal exit of body contains, after target, a node
// for which pred holds.
func pathsPassAfter(body *ast.BlockStmt, target ast.Node, pred func(ast.Node) bool) bool {
	g := cfg.New(body, func(*ast.CallExpr) bool { return true })
	var tb *cfg.Block
	ti := -1
	best := token.Pos(-1)
	for _, b := range g.Blocks {
		for i, n := range b.Nodes {
			if n.Pos() <= target.Pos() && target.End() <= n.End() {
				if span := n.End() - n.Pos(); best < 0 || span < best {
					best, tb, ti = span, b, i
				}
			}
		}
	}
	if tb == nil {
		return false
	}
	seen := map[int32]bool{}
	ok := true
	var dfs func(b *cfg.Block, from int)
	dfs = func(b *cfg.Block, from int) {
		if !ok {
			return
		}
		for _, n := range b.Nodes[from:] {
			if pred(n) {
				return
			}
		}
		if len(b.Succs) == 0 {
			ok = false
			return
		}
		for _, sc := range b.Succs {
			if !seen[sc.Index] {
				seen[sc.Index] = true
				dfs(sc, 0)
			}
		}
	}
	dfs(tb, ti+1)
	return ok
}

// NO-PREMATURE-RELEASE
func ruleNoPrematureRelease() check.Rule {
	return check.Rule{
		Name:        "NO-PREMATURE-RELEASE",
		Doc:         "inside a notification slot of one source, an operator unsubscribes its other sources only on paths that also send a terminal notification to the destination (before or after the release): releasing the siblings while the output goes on loses their remaining values and, when the output's completion depends on them, leaves it open for ever. Operators whose definition releases siblings early are listed with the reason",
		NeedControl: true,
		Run: func(c *check.Ctx) {
			m := c.M
			isTerminal := func(n ast.Node) bool {
				found := false
				ast.Inspect(n, func(x ast.Node) bool {
					if _, isLit := x.(*ast.FuncLit); isLit {
						return false
					}
					if call, ok := x.(*ast.CallExpr); ok {
						if sel, ok := ast.Unparen(call.Fun).(*ast.SelectorExpr); ok {
							if k := notifKind(sel.Sel.Name); (k == 1 || k == 2) && (sel.Sel.Name == "Error" || sel.Sel.Name == "Complete" || sel.Sel.Name == "ErrorWithContext" || sel.Sel.Name == "CompleteWithContext") {
								found = true
							}
						}
					}
					return !found
				})
				return found
			}
			for _, sc := range m.SCs {
				if len(sc.SubSites) < 2 {
					continue
				}
				armed := c.Armed(sc)
				ra := analyseRelease(m, sc)
				// reverse reachability: which sites does releasing node n release?
				sitesOf := func(n string) map[int]bool {
					out := map[int]bool{}
					for _, s := range sc.SubSites {
						start := fmt.Sprintf("site#%d", s.ID)
						seen := map[string]bool{}
						var dfs func(x string) bool
						dfs = func(x string) bool {
							if x == n {
								return true
							}
							if seen[x] {
								return false
							}
							seen[x] = true
							for _, to := range ra.edges[x] {
								if dfs(to) {
									return true
								}
							}
							return false
						}
						if dfs(start) {
							out[s.ID] = true
						}
					}
					return out
				}
				cnt := map[string]int{}
				for _, op := range sc.SubOps {
					if op.Method != "Unsubscribe" || op.Call == nil {
						continue
					}
					// the nearest non-body context must be a source slot
					var slotCtx *model.Ctx
					for cx := op.Ctx; cx != nil; cx = cx.Parent {
						if cx.Kind == model.KBody {
							continue
						}
						if cx.Kind == model.KSrc {
							slotCtx = cx
						}
						break
					}
					if slotCtx == nil || slotCtx.Site == nil {
						continue
					}
					n := resNode(op.Pkg.TypesInfo, op.Recv, op.RecvExpr)
					if n == "" {
						continue
					}
					others := 0
					for id := range sitesOf(n) {
						if id != slotCtx.Site.ID {
							others++
						}
					}
					if others == 0 {
						continue
					}
					c.Inc("sibling_releases_in_slots", 1)
					base := fmt.Sprintf("%s/%s/release-siblings", sc, model.CtxKey(op.Ctx, op.Slot))
					cnt[base]++
					key := fmt.Sprintf("%s#%d", base, cnt[base])
					if why, ok := siblingReleaseByDefinition[sc.String()]; ok {
						if armed {
							c.OK(key, op.Pos, "by definition: %s", why)
						}
						continue
					}
					// the function that contains the call, then each inlining call site outwards
					ok := false
					var fn ast.Node = innermostFunc(m, op.Pkg, op.Call)
					target := ast.Node(op.Call)
					for depth := len(op.Stack); fn != nil; depth-- {
						body := funcBody(fn)
						if body != nil && (pathsPassBefore(body, target, isTerminal) || pathsPassAfter(body, target, isTerminal)) {
							ok = true
							break
						}
						if depth <= 0 {
							break
						}
						call := op.Stack[depth-1]
						target = call
						fn = innermostFunc(m, op.Pkg, call)
						if fn == nil {
							break
						}
						// stop once we leave the slot's own function
					}
					if ok {
						if armed {
							c.OK(key, op.Pos, "the release of the other sources is accompanied by a terminal notification on every path")
						}
					} else {
						c.Report(armed, key, op.Pos, "in the %s slot of one source the operator unsubscribes %d other source(s) on a path that sends no terminal notification to the destination: their remaining values are lost and an output whose completion depends on them never terminates", slotName(op.Slot, slotCtx), others)
					}
				}
			}
		},
	}
}

func slotName(slot int, c *model.Ctx) string {
	switch slot {
	case model.SlotNext:
		return "next"
	case model.SlotError:
		return "error"
	case model.SlotComplete:
		return "complete"
	}
	return "notification"
}

// RACE-LATE-LOSER (family shape, Race): the sources are subscribed one after another while earlier ones may already
// notify. A source that is subscribed after the race was decided must be released at once, not merely registered.
func ruleRaceLateLoser() check.Rule {
	return check.Rule{
		Name:        "RACE-LATE-LOSER",
		FamilyShape: true,
		Doc:         "in RaceWith, the registration of a freshly returned subscription into the shared holder is control-dependent on a test of the winner variable (the one the notification slots compare-and-swap) evaluated after the subscribe call; with the path-sensitive RELEASE rule this forces the other branch to release a source that lost the race while it was being subscribed",
		Run: func(c *check.Ctx) {
			m := c.M
			sc := m.SCByName("ro.RaceWith")
			if sc == nil {
				c.Info("ro.RaceWith/late-loser", m.Obj.Ro.Syntax[0].Pos(), "operator not found (family-shape rule: no alarm)")
				return
			}
			info := sc.Pkg.TypesInfo
			// winner variable: operand of atomic.CompareAndSwap* inside a source slot
			var winner types.Object
			ast.Inspect(sc.Lit.Body, func(n ast.Node) bool {
				call, ok := n.(*ast.CallExpr)
				if !ok {
					return true
				}
				if cl := model.Callee(info, call); cl != nil && cl.Pkg() != nil && cl.Pkg().Path() == "sync/atomic" && len(call.Args) > 0 && len(cl.Name()) > 14 && cl.Name()[:14] == "CompareAndSwap" {
					if id, _ := rootIdent(call.Args[0]); id != nil {
						winner = objOf(info, id)
					}
				}
				return true
			})
			if winner == nil {
				c.Info("ro.RaceWith/late-loser", sc.Lit.Pos(), "no compare-and-swapped winner variable recognised (family-shape rule: no alarm)")
				return
			}
			var derives func(e ast.Node, depth int) bool
			derives = func(e ast.Node, depth int) bool {
				if depth > 4 {
					return false
				}
				found := false
				ast.Inspect(e, func(x ast.Node) bool {
					id, ok := x.(*ast.Ident)
					if !ok || found {
						return !found
					}
					o := objOf(info, id)
					if o == winner {
						found = true
						return false
					}
					for _, d := range m.Defs[o] {
						if d.Expr != nil && derives(d.Expr, depth+1) {
							found = true
						}
					}
					return !found
				})
				return found
			}
			n := 0
			for _, st := range sc.Stores {
				if st.Val == nil || st.Val.Kind != model.AVSub || st.Ctx == nil || st.Ctx.Kind != model.KBody {
					continue
				}
				if _, isIdx := ast.Unparen(st.LHS).(*ast.IndexExpr); !isIdx {
					continue
				}
				n++
				key := fmt.Sprintf("ro.RaceWith/register#%d/late-loser", n)
				site := st.Val.Site
				fn := innermostFunc(m, st.Pkg, st.Node)
				body := funcBody(fn)
				guarded := !guardedByEdge(body, st.Node, func(cond ast.Expr, polarity bool) bool { return false }) &&
					guardedByEdge(body, st.Node, func(cond ast.Expr, polarity bool) bool {
						return cond.Pos() > site.Call.End() && derives(cond, 0)
					})
				if guarded {
					c.OK(key, st.Pos, "registration depends on a test of the winner variable made after the subscribe call")
				} else {
					c.Violation(key, st.Pos, "the subscription is registered without re-testing the winner variable %s after the subscribe call: a source subscribed after another one has already won is kept subscribed until the winner's next notification (which may never come) instead of being released at once", winner.Name())
				}
			}
			c.Inc("race_registrations", n)
			c.Note("RACE-LATE-LOSER recognised=%d registrations", n)
		},
	}
}

// flattenOf: which flattening operator an operator defined by composition must delegate to (instances confirmed by
// reading and frozen: the name says merge or concat; ro's FlatMap is the sequential, concat-map flattening).
func flattenOf(name string) string {
	switch {
	case len(name) >= 7 && name[:7] == "FlatMap":
		return "ConcatAll"
	case len(name) >= 6 && name[:6] == "Concat":
		return "ConcatAll"
	case len(name) >= 5 && name[:5] == "Merge":
		return "MergeAll"
	}
	return ""
}

// COMPOSITION (family shape): operators defined as a composition over MergeAll / ConcatAll use the one of their definition.
func ruleComposition() check.Rule {
	return check.Rule{
		Name:        "COMPOSITION",
		FamilyShape: true,
		Doc:         "every Merge*/Concat*/FlatMap* operator that is implemented by delegating to a flattening operator delegates to the one of its definition (Merge* -> MergeAll: concurrent inner subscriptions; Concat*, FlatMap* -> ConcatAll: the next inner is subscribed only after the previous completed); an operator that does not delegate is not judged",
		Run: func(c *check.Ctx) {
			m := c.M
			p := m.Obj.Ro
			info := p.TypesInfo
			n := 0
			for _, f := range p.Syntax {
				for _, d := range f.Decls {
					fd, ok := d.(*ast.FuncDecl)
					if !ok || fd.Recv != nil || fd.Body == nil || !fd.Name.IsExported() {
						continue
					}
					want := flattenOf(fd.Name.Name)
					if want == "" || fd.Name.Name == want {
						continue
					}
					ast.Inspect(fd.Body, func(x ast.Node) bool {
						call, ok := x.(*ast.CallExpr)
						if !ok {
							return true
						}
						cl := model.Callee(info, call)
						if cl == nil || !(model.IsPkgFunc(cl, ro, "MergeAll") || model.IsPkgFunc(cl, ro, "ConcatAll")) {
							return true
						}
						n++
						key := "ro." + fd.Name.Name + "/flatten"
						if cl.Name() == want {
							c.OK(key, call.Pos(), "delegates to %s", want)
						} else {
							c.Violation(key, call.Pos(), "%s is defined over %s but delegates to %s: inner observables are %s", fd.Name.Name, want, cl.Name(),
								map[string]string{"MergeAll": "subscribed concurrently and their values interleave instead of following one another", "ConcatAll": "subscribed one after another instead of concurrently"}[cl.Name()])
						}
						return true
					})
				}
			}
			c.Inc("flatten_delegations", n)
			c.Note("COMPOSITION recognised=%d delegations", n)
		},
	}
}

// SEQUENTIAL-INNER-GUARD: a sequential flattener (the inner subscription is awaited inside the outer source's next
// slot) must not subscribe the next inner once the output has ended.
func ruleSequentialInnerGuard() check.Rule {
	return check.Rule{
		Name: "SEQUENTIAL-INNER-GUARD",
		Doc:  "where an operator subscribes an inner observable inside the next slot of its outer source and awaits it there (sequential flattening: ConcatAll and everything built on it), the inner subscribe site is dominated by a not-closed test of a subscription: an outer source that emits synchronously is still inside its own Subscribe call when an inner fails, so it cannot have been unsubscribed yet and would otherwise go on to subscribe the next inner after the output has ended",
		Run: func(c *check.Ctx) {
			m := c.M
			n := 0
			for _, sc := range m.SCs {
				armed := c.Armed(sc)
				for _, s := range sc.SubSites {
					if s.Ctx == nil || s.Ctx.Kind != model.KSrc || s.Slot != model.SlotNext || s.Src == nil || !s.Src.Awaited {
						continue
					}
					n++
					key := s.Key + "/guarded-by-open-test"
					info := s.Pkg.TypesInfo
					notClosed := func(cond ast.Expr, polarity bool) bool {
						e := ast.Unparen(cond)
						if u, ok := e.(*ast.UnaryExpr); ok && u.Op == token.NOT {
							e, polarity = ast.Unparen(u.X), !polarity
						}
						call, ok := e.(*ast.CallExpr)
						if !ok {
							return false
						}
						sel, ok := ast.Unparen(call.Fun).(*ast.SelectorExpr)
						if !ok || sel.Sel.Name != "IsClosed" {
							return false
						}
						if t := info.TypeOf(sel.X); t == nil || !(model.IsNamed(t, m.Obj.Subscription) || model.IsNamed(t, m.Obj.Observer) || model.IsNamed(t, m.Obj.Subscriber)) {
							return false
						}
						return !polarity // the edge on which IsClosed() is false
					}
					body := funcBody(innermostFunc(m, s.Pkg, s.Call))
					// which subscription does the guard test, and does the inner error path close it?
					var guardNodes []string
					collect := func(cond ast.Expr, polarity bool) bool {
						if notClosed(cond, polarity) {
							e := ast.Unparen(cond)
							if u, ok := e.(*ast.UnaryExpr); ok {
								e = ast.Unparen(u.X)
							}
							if call, ok := e.(*ast.CallExpr); ok {
								if sel, ok := ast.Unparen(call.Fun).(*ast.SelectorExpr); ok {
									if n := resNode(info, nil, sel.X); n != "" {
										guardNodes = append(guardNodes, n)
									}
								}
							}
							return true
						}
						return false
					}
					if guardedByEdge(body, s.Call, collect) {
						closes := false
						for _, op := range sc.SubOps {
							if op.Method != "Unsubscribe" || op.Ctx != s.Src || op.Slot != model.SlotError {
								continue
							}
							n1, n2 := resNode(op.Pkg.TypesInfo, op.Recv, op.RecvExpr), resNode(op.Pkg.TypesInfo, nil, op.RecvExpr)
							for _, g := range guardNodes {
								if g == n1 || g == n2 {
									closes = true
								}
							}
						}
						if closes || len(guardNodes) == 0 {
							if armed {
								c.OK(key, s.Pos, "the inner observable is subscribed only while the operator's subscription is still open, and the error path of an inner observable closes it")
							}
						} else {
							c.Report(armed, key, s.Pos, "the open-test that guards the next inner subscription looks at a subscription that the error slot of an inner observable never closes: after an inner error a synchronously emitting outer source still makes the operator subscribe the following inner observables")
						}
					} else {
						c.Report(armed, key, s.Pos, "the next inner observable is subscribed without testing that the output is still open: after an inner error (or an early unsubscription) a synchronously emitting outer source makes the operator subscribe the following inner observables although the output has ended")
					}
				}
			}
			c.Inc("sequential_inner_sites", n)
		},
	}
}

// OUTER-COMPLETE-WAITS-INNER: an operator that subscribes inner observables from the next slot of an outer source
// without awaiting them there must not complete its output unconditionally when the outer source completes.
func ruleOuterCompleteWaitsInner() check.Rule {
	return check.Rule{
		Name:        "OUTER-COMPLETE-WAITS-INNER",
		Doc:         "where the next slot of an outer source subscribes inner observables that are not awaited inside that slot (concurrent flattening: MergeAll, MergeMap, ZipAll, ...), every Complete sent to the destination from the outer source's complete slot is conditional (a live-subscription counter or flag): an unconditional forward completes the output while inner observables are still running, and their values are lost",
		NeedControl: true,
		Run: func(c *check.Ctx) {
			m := c.M
			n := 0
			for _, sc := range m.SCs {
				armed := c.Armed(sc)
				for _, outer := range sc.SubSites {
					inner := 0
					for _, s := range sc.SubSites {
						if s != outer && s.Ctx == outer.Src && s.Slot == model.SlotNext && s.Src != nil && !s.Src.Awaited {
							inner++
						}
					}
					if inner == 0 || outer.Observer == nil {
						continue
					}
					n++
					key := outer.Key + "/complete-waits-for-inner"
					if outer.Observer.Kind != model.AVObserver {
						if armed {
							c.Info(key, outer.Pos, "observer is not built in place")
						}
						continue
					}
					var uncond *model.EmitSite
					for _, e := range sc.Emits {
						if !e.ToDest || e.Kind != model.EmitComplete || e.Ctx != outer.Src || e.Slot != model.SlotComplete {
							continue
						}
						if e.Forwarder {
							uncond = e
							break
						}
						// unconditional at every level: the function containing the emission, then each inlining call site
						all := true
						target := e.Node
						fn := innermostFunc(m, e.Pkg, e.Node)
						for depth := len(e.Stack); fn != nil; depth-- {
							if body := funcBody(fn); body == nil || !mustPass(body, target) {
								all = false
								break
							}
							if depth <= 0 {
								break
							}
							target = e.Stack[depth-1]
							fn = innermostFunc(m, e.Pkg, target)
						}
						if all {
							uncond = e
							break
						}
					}
					// live-subscription counter: incremented before each inner subscribe call
					for _, in := range sc.SubSites {
						if in == outer || in.Ctx != outer.Src || in.Slot != model.SlotNext || in.Src == nil || in.Src.Awaited {
							continue
						}
						fn := innermostFunc(m, in.Pkg, in.Call)
						body := funcBody(fn)
						if body == nil {
							continue
						}
						var incs []*ast.CallExpr
						ast.Inspect(body, func(x ast.Node) bool {
							if l, ok := x.(*ast.FuncLit); ok && ast.Node(l) != fn {
								return false
							}
							if call, ok := x.(*ast.CallExpr); ok {
								if cl := model.Callee(in.Pkg.TypesInfo, call); cl != nil && cl.Pkg() != nil && cl.Pkg().Path() == "sync/atomic" && strings.HasPrefix(cl.Name(), "Add") && len(call.Args) == 2 {
									if v, ok := constVal(in.Pkg.TypesInfo, call.Args[1]); ok && v > 0 {
										incs = append(incs, call)
									}
								}
							}
							return true
						})
						if len(incs) == 0 {
							continue
						}
						ckey := in.Key + "/counted-before-subscribe"
						inc := incs[0]
						if pathsPassBefore(body, in.Call, func(n ast.Node) bool {
							return n.Pos() <= inc.Pos() && inc.End() <= n.End() && !(n.Pos() <= in.Call.Pos() && in.Call.End() <= n.End())
						}) {
							if armed {
								c.OK(ckey, in.Pos, "the live-subscription counter is incremented before the inner observable is subscribed")
							}
						} else {
							c.Report(armed, ckey, in.Pos, "the inner observable is subscribed before the live-subscription counter is incremented: an inner observable that completes synchronously decrements first, the counter reaches zero and the output completes while other sources are still running")
						}
					}
					// a Complete that depends on a live-subscription counter sits on the "counter is zero" side
					for _, e := range sc.Emits {
						if !e.ToDest || e.Kind != model.EmitComplete || e.Forwarder {
							continue
						}
						fn := innermostFunc(m, e.Pkg, e.Node)
						body := funcBody(fn)
						if body == nil {
							continue
						}
						einfo := e.Pkg.TypesInfo
						counterAtom := func(x ast.Expr) int {
							be, ok := ast.Unparen(x).(*ast.BinaryExpr)
							if !ok || (be.Op != token.EQL && be.Op != token.NEQ) || !constIs(einfo, be.Y, 0) {
								return 0
							}
							fromAtomic := false
							ast.Inspect(be.X, func(y ast.Node) bool {
								if id, ok := y.(*ast.Ident); ok {
									for _, d := range m.Defs[objOf(einfo, id)] {
										if d.Expr != nil {
											ast.Inspect(d.Expr, func(z ast.Node) bool {
												if call, ok := z.(*ast.CallExpr); ok {
													if cl := model.Callee(einfo, call); cl != nil && cl.Pkg() != nil && cl.Pkg().Path() == "sync/atomic" {
														fromAtomic = true
													}
												}
												return true
											})
										}
									}
								}
								if call, ok := y.(*ast.CallExpr); ok {
									if cl := model.Callee(einfo, call); cl != nil && cl.Pkg() != nil && cl.Pkg().Path() == "sync/atomic" {
										fromAtomic = true
									}
								}
								return true
							})
							if !fromAtomic {
								return 0
							}
							if be.Op == token.EQL {
								return +1
							}
							return -1
						}
						mentions := false
						ast.Inspect(body, func(y ast.Node) bool {
							if ifs, ok := y.(*ast.IfStmt); ok {
								ast.Inspect(ifs.Cond, func(z ast.Node) bool {
									if ex, ok := z.(ast.Expr); ok && counterAtom(ex) != 0 {
										mentions = true
									}
									return true
								})
							}
							return true
						})
						if !mentions {
							continue
						}
						zkey := e.Key + "/at-counter-zero"
						if guardedByEdge(body, e.Node, func(cond ast.Expr, pol bool) bool { return implies(cond, pol, counterAtom) }) {
							if armed {
								c.OK(zkey, e.Pos, "Complete is sent on the side where the live-subscription counter is zero")
							}
						} else {
							c.Report(armed, zkey, e.Pos, "the function tests a live-subscription counter against zero, but this Complete is not on the zero side: the output completes while subscriptions are still live (or never)")
						}
					}
					if uncond != nil {
						c.Report(armed, key, uncond.Pos, "the output is completed unconditionally when the outer source completes, although %d inner subscribe site(s) created in its next slot are not awaited there: the output ends while inner observables are still running and their remaining values are dropped", inner)
					} else if armed {
						c.OK(key, outer.Pos, "completion of the outer source is forwarded only under a condition (or not at all)")
					}
				}
			}
			c.Inc("concurrent_flatteners", n)
		},
	}
}

// completeIgnoredByDefinition: sites whose completion is, by the operator's definition, not the end of the output.
var completeIgnoredByDefinition = map[string]string{
	"ro.SkipUntil/signal": "the notifier only opens the gate; its completion says nothing about the source",
	"ro.TakeUntil/signal": "the notifier only closes the gate with a value; its completion without a value leaves the source running",
	"ro.ZipAll/sources":   "the outer observable only lists the inner ones; the zip of the inner observables completes the output (an empty list completes in the next slot)",
}

// endedElsewhere: state variables (function/variable) whose test legitimately lets a complete slot do nothing on one
// side, because the state says that the output has already ended or will be ended by another callback.
var endedElsewhere = map[string]string{
	"TakeWhileIWithContext/skipping": "set when the predicate failed and Complete was sent from the next slot",
	"RaceWith/won":                   "a source that lost the race is ignored",
	"zipInnerSubscription/values":    "values are still queued: onUpdate completes the output when the queue is drained",
}

// TERMINAL-PROPAGATION: the completion of a source leads somewhere.
func ruleTerminalPropagation() check.Rule {
	return check.Rule{
		Name:        "TERMINAL-PROPAGATION",
		Doc:         "in the complete slot of every upstream subscribe site, every path does one of: send a terminal notification onwards (to the destination, or to the subject/observer the operator feeds), call a local closure or helper that can send one (completion counters), subscribe another source (concat, repeat, retry), or the site is listed as one whose completion the operator's definition ignores (a branch on one of the listed already-ended state variables may do nothing on one side): a complete slot that does none of these on some path leaves the output open for ever although its source has ended",
		NeedControl: true,
		Run: func(c *check.Ctx) {
			m := c.M
			for _, sc := range m.SCs {
				armed := c.Armed(sc)
				for _, s := range sc.SubSites {
					if s.Observer == nil || s.Observer.Kind != model.AVObserver {
						continue
					}
					c.Inc("complete_slots_checked", 1)
					key := s.Key + "/complete"
					if why, ok := completeIgnoredByDefinition[sc.String()+"/"+sourceParamName(s)]; ok {
						if armed {
							c.OK(key, s.Pos, "by definition: %s", why)
						}
						continue
					}
					slot := s.Observer.Slots[model.SlotComplete]
					if slot == nil {
						c.Report(armed, key, s.Pos, "this source is observed with a partial observer (%s) that ignores its completion", s.Observer.OCtor.Name)
						continue
					}
					if slot.Kind != model.AVFunc || slot.Lit == nil {
						if armed {
							c.OK(key, s.Pos, "the complete slot is a method value or a named function (forwarder)")
						}
						continue
					}
					awaited := s.Src != nil && s.Src.Awaited
					if awaited && (s.InLoop || (s.Ctx != nil && s.Ctx.Kind == model.KSrc)) {
						// an awaited attempt inside a loop, or an awaited inner observable inside the outer's next slot:
						// when it completes the loop / the outer source goes on
						if armed {
							c.OK(key, s.Pos, "awaited inside a loop or inside the outer source's callback: the loop or the outer source goes on after the wait")
						}
						continue
					}
					// nodes that count as "goes on": terminal emissions, subscribe sites and calls of closures/helpers that contain one
					onward := map[ast.Node]bool{}
					mark := func(r *model.Rec, n ast.Node) {
						if r.Ctx != s.Src || r.Slot != model.SlotComplete {
							return
						}
						onward[n] = true
						for _, call := range r.Stack {
							onward[call] = true
						}
					}
					for _, e := range sc.Emits {
						if e.Kind != model.EmitNext {
							mark(&e.Rec, e.Node)
						}
					}
					for _, s2 := range sc.SubSites {
						mark(&s2.Rec, s2.Call)
					}
					for _, g := range sc.Gos {
						mark(&g.Rec, g.Stmt)
					}
					for _, t := range sc.Timers {
						mark(&t.Rec, t.Call)
					}
					isOnward := func(n ast.Node) bool {
						found := false
						ast.Inspect(n, func(x ast.Node) bool {
							if onward[x] {
								found = true
							}
							if _, isSend := x.(*ast.SendStmt); isSend {
								found = true // handed to a queue (ToChannel, ObserveOn)
							}
							if as, isAs := x.(*ast.AssignStmt); isAs && awaited {
								// an awaited attempt tells the loop that follows the Wait what happened
								for _, l := range as.Lhs {
									if id, _ := rootIdent(l); id != nil {
										if v, ok := objOf(s.Pkg.TypesInfo, id).(*types.Var); ok && !(slot.Lit.Pos() <= v.Pos() && v.Pos() <= slot.Lit.End()) {
											found = true
										}
									}
								}
							}
							if l, ok := x.(*ast.FuncLit); ok && ast.Node(l) != n {
								return false
							}
							return !found
						})
						return found
					}
					// every path from the entry of the slot to its exit passes an onward node
					declName := model.DeclName(topDecl(m.EnclosingFuncs(s.Pkg, slot.Lit)))
					sinfo := s.Pkg.TypesInfo
					outside := func(v *types.Var) bool { return !(slot.Lit.Pos() <= v.Pos() && v.Pos() <= slot.Lit.End()) }
					// shared state written by this callback before it decides (a completion counter incremented, a
					// finished-flag set): the "last one out completes" protocol. The decision that follows reads that state.
					var stateWrites []token.Pos
					ast.Inspect(slot.Lit.Body, func(x ast.Node) bool {
						if l, ok := x.(*ast.FuncLit); ok && l != slot.Lit {
							return false
						}
						switch y := x.(type) {
						case *ast.AssignStmt:
							for _, l := range y.Lhs {
								if id, _ := rootIdent(l); id != nil {
									if v, ok := objOf(sinfo, id).(*types.Var); ok && !v.IsField() && outside(v) {
										stateWrites = append(stateWrites, y.Pos())
									}
								}
							}
						case *ast.IncDecStmt:
							if id, _ := rootIdent(y.X); id != nil {
								if v, ok := objOf(sinfo, id).(*types.Var); ok && !v.IsField() && outside(v) {
									stateWrites = append(stateWrites, y.Pos())
								}
							}
						case *ast.CallExpr:
							if cl := model.Callee(sinfo, y); cl != nil && cl.Pkg() != nil && cl.Pkg().Path() == "sync/atomic" && (strings.HasPrefix(cl.Name(), "Add") || strings.HasPrefix(cl.Name(), "Store") || strings.HasPrefix(cl.Name(), "Swap") || strings.HasPrefix(cl.Name(), "CompareAndSwap")) {
								stateWrites = append(stateWrites, y.Pos())
							}
						}
						return true
					})
					var mentionsState func(e ast.Node, depth int, listedOnly bool) bool
					mentionsState = func(e ast.Node, depth int, listedOnly bool) bool {
						found := false
						ast.Inspect(e, func(x ast.Node) bool {
							if id, ok := x.(*ast.Ident); ok {
								if v, ok := objOf(sinfo, id).(*types.Var); ok && !v.IsField() {
									_, listed := endedElsewhere[declName+"/"+v.Name()]
									if outside(v) && (listed || !listedOnly) {
										found = true
									}
									// a local closure that wraps the test of the state (claim(j), isReady()): what its body reads
									if outside(v) && depth < 3 {
										if _, isSig := v.Type().Underlying().(*types.Signature); isSig {
											for _, d := range m.Defs[v] {
												if d.Expr != nil {
													if l, ok := ast.Unparen(d.Expr).(*ast.FuncLit); ok && mentionsState(l.Body, depth+1, listedOnly) {
														found = true
													}
												}
											}
										}
									}
									// a local computed from the state (drained := len(*values) == 0)
									if !outside(v) && depth < 3 {
										for _, d := range m.Defs[v] {
											if d.Expr != nil && mentionsState(d.Expr, depth+1, listedOnly) {
												found = true
											}
										}
									}
								}
							}
							return !found
						})
						return found
					}
					readsState := func(cond ast.Node) bool {
						if mentionsState(cond, 0, true) {
							return true
						}
						// counter protocol: the callback has published its own completion before this decision
						for _, w := range stateWrites {
							if w < cond.Pos() && mentionsState(cond, 0, false) {
								return true
							}
						}
						return false
					}
					usedState := false
					readsStateRec := func(cond ast.Node) bool {
						if readsState(cond) {
							usedState = true
							return true
						}
						return false
					}
					passes := everyPathPassesState(slot.Lit.Body, isOnward, readsStateRec)
					if passes && usedState && !everyPathPasses(slot.Lit.Body, isOnward) {
						// a path relies on "the output is ended elsewhere": a Complete to the destination must exist in
						// another function of the operator
						elsewhere := false
						for _, e := range sc.Emits {
							if e.ToDest && e.Kind != model.EmitNext && innermostFunc(m, e.Pkg, e.Node) != ast.Node(slot.Lit) {
								elsewhere = true
							}
						}
						if !elsewhere {
							c.Report(armed, key, slot.Lit.Pos(), "a path of this complete slot leaves the completion of the output to another callback, but no other callback of the operator sends a terminal notification: the output never ends")
							continue
						}
					}
					if passes {
						if armed {
							c.OK(key, s.Pos, "every path of the complete slot sends a terminal onwards, may do so through a closure, or subscribes another source")
						}
					} else {
						c.Report(armed, key, slot.Lit.Pos(), "some path through the complete slot of this source neither sends a terminal notification onwards nor subscribes another source: when the source completes on that path the output stays open for ever")
					}
				}
			}
		},
	}
}

// everyPathPassesState is everyPathPasses, except that at a two-way branch whose condition reads the operator's
// state (a captured variable: "already ended", "queue drained", "I won") it is enough that one side passes: the other
// side is the case in which the state says that the output has ended or will be ended by someone else.
func everyPathPassesState(body *ast.BlockStmt, pred func(ast.Node) bool, readsState func(ast.Node) bool) bool {
	g := cfg.New(body, func(*ast.CallExpr) bool { return true })
	if len(g.Blocks) == 0 {
		return false
	}
	memo := map[int32]int{} // 0 unknown, 1 in progress, 2 true, 3 false
	var passes func(b *cfg.Block) bool
	passes = func(b *cfg.Block) bool {
		switch memo[b.Index] {
		case 1:
			return true // a loop back edge: judged by the other exits
		case 2:
			return true
		case 3:
			return false
		}
		memo[b.Index] = 1
		res := false
		done := false
		for _, n := range b.Nodes {
			if pred(n) {
				res, done = true, true
				break
			}
		}
		if !done {
			switch {
			case len(b.Succs) == 0:
				res = false
				if len(b.Nodes) > 0 {
					if es, isES := b.Nodes[len(b.Nodes)-1].(*ast.ExprStmt); isES {
						if call, isCall := es.X.(*ast.CallExpr); isCall {
							if id, isID := call.Fun.(*ast.Ident); isID && id.Name == "panic" {
								res = true
							}
						}
					}
				}
			case len(b.Succs) == 2 && len(b.Nodes) > 0 && readsState(b.Nodes[len(b.Nodes)-1]):
				res = passes(b.Succs[0]) || passes(b.Succs[1])
			default:
				res = true
				for _, sc := range b.Succs {
					if !passes(sc) {
						res = false
					}
				}
			}
		}
		if res {
			memo[b.Index] = 2
		} else {
			memo[b.Index] = 3
		}
		return res
	}
	return passes(g.Blocks[0])
}

// everyPathPasses: every path from the entry of body to a normal exit contains a node for which pred holds.
func everyPathPasses(body *ast.BlockStmt, pred func(ast.Node) bool) bool {
	g := cfg.New(body, func(*ast.CallExpr) bool { return true })
	if len(g.Blocks) == 0 {
		return false
	}
	seen := map[int32]bool{}
	ok := true
	var dfs func(b *cfg.Block)
	dfs = func(b *cfg.Block) {
		if !ok || seen[b.Index] {
			return
		}
		seen[b.Index] = true
		for _, n := range b.Nodes {
			if pred(n) {
				return
			}
		}
		if len(b.Succs) == 0 {
			if len(b.Nodes) > 0 {
				if es, isES := b.Nodes[len(b.Nodes)-1].(*ast.ExprStmt); isES {
					if call, isCall := es.X.(*ast.CallExpr); isCall {
						if id, isID := call.Fun.(*ast.Ident); isID && id.Name == "panic" {
							return
						}
					}
				}
			}
			ok = false
			return
		}
		for _, sc := range b.Succs {
			dfs(sc)
		}
	}
	dfs(g.Blocks[0])
	return ok
}

var arityRe = regexp.MustCompile(`^ro\.(CombineLatestWith|ZipWith)([0-9]+)$`)

// ARITY: the fixed-arity families agree with their own arity.
func ruleArity() check.Rule {
	return check.Rule{
		Name:        "ARITY",
		FamilyShape: true,
		Doc:         "for CombineLatestWithK / ZipWithK: K+1 upstream subscribe sites, a K+1-tuple as value, and (CombineLatest) the completion counter is compared with / set to K+1 and K+2 only; siblings are cross-checked",
		Run: func(c *check.Ctx) {
			m := c.M
			recognised := 0
			for _, sc := range m.SCs {
				mt := arityRe.FindStringSubmatch(sc.String())
				if mt == nil {
					continue
				}
				k, _ := strconv.Atoi(mt[2])
				recognised++
				info := sc.Pkg.TypesInfo
				key := sc.String() + "/arity"
				// distinct upstream sources
				srcs := map[types.Object]bool{}
				for _, s := range sc.SubSites {
					if s.Source != nil && s.Source.Kind == model.AVParam {
						srcs[s.Source.Param] = true
					}
				}
				bad := false
				if len(sc.SubSites) != k+1 || len(srcs) != k+1 {
					bad = true
					c.Violation(key+"/sites", sc.Lit.Pos(), "%d subscribe sites over %d distinct sources, expected %d: a source is subscribed twice or not at all", len(sc.SubSites), len(srcs), k+1)
				}
				// tuple arity of the emitted value
				for _, e := range sc.Emits {
					if !e.ToDest || e.Kind != model.EmitNext || len(e.Args) != 1 {
						continue
					}
					if call, ok := ast.Unparen(e.Args[0]).(*ast.CallExpr); ok {
						if cl := model.Callee(e.Pkg.TypesInfo, call); cl != nil && cl.Pkg() != nil && cl.Pkg().Path() == "github.com/samber/lo" {
							if len(call.Args) != k+1 {
								bad = true
								c.Violation(key+"/tuple", e.Pos, "value is built from %d components, expected %d", len(call.Args), k+1)
							}
							// each component is a distinct variable
							seen := map[types.Object]bool{}
							for _, a := range call.Args {
								if id, _ := rootIdent(a); id != nil {
									seen[objOf(e.Pkg.TypesInfo, id)] = true
								}
							}
							if len(seen) != k+1 {
								bad = true
								c.Violation(key+"/tuple-distinct", e.Pos, "the %d components of the emitted tuple come from %d distinct variables: a source's value is used twice", k+1, len(seen))
							}
						}
					}
				}
				if mt[1] == "ZipWith" {
					// state groups: the variables handed together (by address) to one helper call belong to one source
					group := map[types.Object]int{}
					ng := 0
					ast.Inspect(sc.Lit.Body, func(n ast.Node) bool {
						call, ok := n.(*ast.CallExpr)
						if !ok {
							return true
						}
						var objs []types.Object
						for _, a := range call.Args {
							if u, ok := ast.Unparen(a).(*ast.UnaryExpr); ok && u.Op == token.AND {
								if id, ok := ast.Unparen(u.X).(*ast.Ident); ok {
									if v, isVar := objOf(info, id).(*types.Var); isVar && !isSyncSafeType(v.Type()) {
										objs = append(objs, v)
									}
								}
							}
						}
						if len(objs) >= 2 {
							ng++
							for _, o := range objs {
								group[o] = ng
							}
						}
						return true
					})
					lenZeroOf := func(e ast.Expr) types.Object {
						be, ok := ast.Unparen(e).(*ast.BinaryExpr)
						if !ok || be.Op != token.EQL {
							return nil
						}
						for _, pair := range [][2]ast.Expr{{be.X, be.Y}, {be.Y, be.X}} {
							if call, ok := ast.Unparen(pair[0]).(*ast.CallExpr); ok && len(call.Args) == 1 && constIs(info, pair[1], 0) {
								if fid, ok := ast.Unparen(call.Fun).(*ast.Ident); ok && fid.Name == "len" {
									if id, ok := ast.Unparen(call.Args[0]).(*ast.Ident); ok {
										return objOf(info, id)
									}
								}
							}
						}
						return nil
					}
					pairs := 0
					covered := map[int]bool{}
					inPair := map[ast.Node]bool{}
					ast.Inspect(sc.Lit.Body, func(n ast.Node) bool {
						be, ok := n.(*ast.BinaryExpr)
						if !ok || be.Op != token.LAND {
							return true
						}
						for _, pair := range [][2]ast.Expr{{be.X, be.Y}, {be.Y, be.X}} {
							fid, ok := ast.Unparen(pair[0]).(*ast.Ident)
							if !ok {
								continue
							}
							flag, queue := objOf(info, fid), lenZeroOf(pair[1])
							if queue == nil || group[flag] == 0 || group[queue] == 0 {
								continue
							}
							pairs++
							inPair[ast.Unparen(pair[0])] = true
							inPair[ast.Unparen(pair[1])] = true
							if group[flag] == group[queue] {
								covered[group[flag]] = true
							}
							if group[flag] != group[queue] {
								bad = true
								c.Violation(key+"/completion-pairing", be.Pos(), "the completion test pairs the finished-flag %s of one source with the queue %s of another: the output completes when the wrong queue is drained (or never)", flag.Name(), queue.Name())
							}
						}
						return true
					})
					c.Inc("zip_completion_pairs", pairs)
					// the completion test covers every source, and tests a finished-flag (or an emptied queue) only as
					// one half of its source's pair
					if pairs > 0 {
						if ng != k+1 || len(covered) != ng {
							bad = true
							c.Violation(key+"/completion-covers-all", sc.Lit.Pos(), "the completion test pairs (finished && queue empty) for %d of %d sources: when one of the others completes with its queue drained the output never completes", len(covered), k+1)
						}
						ast.Inspect(sc.Lit.Body, func(n ast.Node) bool {
							ifs, ok := n.(*ast.IfStmt)
							if !ok {
								return true
							}
							ast.Inspect(ifs.Cond, func(y ast.Node) bool {
								switch e := y.(type) {
								case *ast.Ident:
									if v, ok := objOf(info, e).(*types.Var); ok && group[v] != 0 && !inPair[e] {
										if b, isBool := v.Type().Underlying().(*types.Basic); isBool && b.Kind() == types.Bool {
											bad = true
											c.Violation(key+"/completion-half", e.Pos(), "the finished-flag %s is tested without `len(queue) == 0` of the same source: the output completes while values of that source are still queued", v.Name())
										}
									}
								case *ast.BinaryExpr:
									if q := lenZeroOf(e); q != nil && group[q] != 0 && !inPair[e] {
										bad = true
										c.Violation(key+"/completion-half", e.Pos(), "`len(%s) == 0` is tested without the finished-flag of the same source: the output completes whenever that queue happens to be empty", q.Name())
									}
								}
								return true
							})
							return true
						})
					}
				}
				if mt[1] == "CombineLatestWith" {
					// constants used with the status counter
					var statusVar types.Object
					ast.Inspect(sc.Lit.Body, func(n ast.Node) bool {
						if vs, ok := n.(*ast.ValueSpec); ok {
							for _, id := range vs.Names {
								if id.Name == "status" {
									statusVar = info.Defs[id]
								}
							}
						}
						return true
					})
					consts := map[int64]bool{}
					if statusVar != nil {
						ast.Inspect(sc.Lit.Body, func(n ast.Node) bool {
							switch x := n.(type) {
							case *ast.BinaryExpr:
								if mentionsObj(info, x.X, statusVar) || mentionsObj(info, x.Y, statusVar) {
									for _, side := range []ast.Expr{x.X, x.Y} {
										if tv, ok := info.Types[side]; ok && tv.Value != nil {
											if v, ok := constant.Int64Val(tv.Value); ok {
												consts[v] = true
											}
										}
									}
								}
							case *ast.CallExpr:
								if cl := model.Callee(info, x); cl != nil && cl.Pkg() != nil && cl.Pkg().Path() == "sync/atomic" && len(x.Args) == 2 && mentionsObj(info, x.Args[0], statusVar) {
									if tv, ok := info.Types[x.Args[1]]; ok && tv.Value != nil {
										if v, ok := constant.Int64Val(tv.Value); ok {
											consts[v] = true
										}
									}
								}
							}
							return true
						})
						var got []int64
						for v := range consts {
							got = append(got, v)
						}
						sort.Slice(got, func(i, j int) bool { return got[i] < got[j] })
						for _, v := range got {
							if v != 1 && v != int64(k+1) && v != int64(k+2) {
								bad = true
								c.Violation(key+"/status-constants", sc.Lit.Pos(), "the completion counter is compared with / set to %d; with %d sources only 1 (increment), %d (all done) and %d (error) are consistent", v, k+1, k+1, k+2)
							}
						}
						if !consts[int64(k+1)] {
							bad = true
							c.Violation(key+"/status-constants", sc.Lit.Pos(), "the completion counter is never compared with %d (all %d sources done)", k+1, k+1)
						}
					}
				}
				if !bad {
					c.OK(key, sc.Lit.Pos(), "%d sites, %d-tuple, consistent counter constants", k+1, k+1)
				}
			}
			c.Inc("arity_family_members", recognised)
			c.Note("ARITY recognised=%d", recognised)
		},
	}
}

func mentionsObj(info *types.Info, e ast.Expr, o types.Object) bool {
	found := false
	ast.Inspect(e, func(n ast.Node) bool {
		if id, ok := n.(*ast.Ident); ok && objOf(info, id) == o {
			found = true
		}
		return true
	})
	return found
}

const controlsC05 = `
func verifControlErrSwallowed[T, S any](signal Observable[S]) func(Observable[T]) Observable[T] {
	return func(source Observable[T]) Observable[T] {
		return NewObservableWithContext(func(subscriberCtx context.Context, destination Observer[T]) Teardown {
			subscriptions := NewSubscription(nil)
			subscriptions.AddUnsubscribable(source.SubscribeWithContext(subscriberCtx, NewObserverWithContext(
				destination.NextWithContext, destination.ErrorWithContext, destination.CompleteWithContext)))
			subscriptions.AddUnsubscribable(signal.SubscribeWithContext(subscriberCtx, OnNextWithContext(
				func(ctx context.Context, value S) { destination.CompleteWithContext(ctx) })))
			return subscriptions.Unsubscribe
		})
	}
}

func verifControlEarlyOuterComplete[T any]() func(Observable[Observable[T]]) Observable[T] {
	return func(sources Observable[Observable[T]]) Observable[T] {
		return NewObservableWithContext(func(subscriberCtx context.Context, destination Observer[T]) Teardown {
			subscriptions := NewSubscription(nil)
			subscriptions.AddUnsubscribable(sources.SubscribeWithContext(subscriberCtx, NewObserverWithContext(
				func(ctx context.Context, inner Observable[T]) {
					subscriptions.AddUnsubscribable(inner.SubscribeWithContext(ctx, NewObserverWithContext(
						destination.NextWithContext, destination.ErrorWithContext, func(ctx context.Context) {})))
				},
				destination.ErrorWithContext,
				destination.CompleteWithContext)))
			return subscriptions.Unsubscribe
		})
	}
}

func verifControlCompleteLost[T any]() func(Observable[T]) Observable[int] {
	return func(source Observable[T]) Observable[int] {
		return NewUnsafeObservableWithContext(func(subscriberCtx context.Context, destination Observer[int]) Teardown {
			n := 0
			sub := source.SubscribeWithContext(subscriberCtx, NewObserverWithContext(
				func(ctx context.Context, value T) { n++ },
				destination.ErrorWithContext,
				func(ctx context.Context) {
					if n > 0 {
						destination.NextWithContext(ctx, n)
						destination.CompleteWithContext(ctx)
					}
				}))
			return sub.Unsubscribe
		})
	}
}

func verifControlAddAfterClose[T any](fallback Observable[T]) func(Observable[T]) Observable[T] {
	return func(source Observable[T]) Observable[T] {
		return NewUnsafeObservableWithContext(func(subscriberCtx context.Context, destination Observer[T]) Teardown {
			subscriptions := NewSubscription(nil)
			subscriptions.AddUnsubscribable(source.SubscribeWithContext(subscriberCtx, NewObserverWithContext(
				destination.NextWithContext,
				func(ctx context.Context, err error) {
					subscriptions.Unsubscribe()
					subscriptions.AddUnsubscribable(fallback.SubscribeWithContext(ctx, NewObserverWithContext(
						destination.NextWithContext, destination.ErrorWithContext, destination.CompleteWithContext)))
				},
				destination.CompleteWithContext)))
			return subscriptions.Unsubscribe
		})
	}
}

func verifControlPrematureRelease[T, S any](other Observable[S]) func(Observable[T]) Observable[T] {
	return func(source Observable[T]) Observable[T] {
		return NewObservableWithContext(func(subscriberCtx context.Context, destination Observer[T]) Teardown {
			subscriptions := NewSubscription(nil)
			subscriptions.AddUnsubscribable(source.SubscribeWithContext(subscriberCtx, NewObserverWithContext(
				destination.NextWithContext, destination.ErrorWithContext, destination.CompleteWithContext)))
			subscriptions.AddUnsubscribable(other.SubscribeWithContext(subscriberCtx, NewObserverWithContext(
				func(ctx context.Context, value S) {},
				destination.ErrorWithContext,
				func(ctx context.Context) { subscriptions.Unsubscribe() })))
			return subscriptions.Unsubscribe
		})
	}
}
`

func C05() *check.Property {
	return &check.Property{
		ID:       "C05",
		Title:    "Multi-source operators honour every arrival order of their inputs",
		Patterns: CorePatterns,
		Scope:    []string{ro},
		Rules:    []check.Rule{ruleInnerTerminalBeforeDestination(), ruleInnerTerminated(), ruleCompletionCounted(), ruleErrPropagation(), ruleArity(), ruleNoPrematureRelease(), ruleRaceLateLoser(), ruleComposition(), ruleSequentialInnerGuard(), ruleOuterCompleteWaitsInner(), ruleTerminalPropagation(), ruleObservableParamUsed(), ruleQueueFIFO(), rulePublishBeforeEmit(), ruleConsumeFlag(), ruleStateLevel(), ruleSlotGuardAgreement(), ruleAddAfterClose(), ruleTerminalCallAgreement(), ruleAccessGuarded(), ruleSubjectDelivers(), ruleSubjectBroadcastLocked(), ruleInnerFilledBeforeHandover(), ruleNoDuplicateForward(), ruleGetOrCreate(), ruleAtomicPointeeImmutable()},
		Explanation: "Narrow structural claim. Arrival orders are run-time histories and are NOT decided. Two necessary conditions are: ERR-PROPAGATION — 'an error from any source ends the output at once': for every upstream subscribe site of every operator " +
			"(multi-source ones included) the observer's error slot reaches an Error notification to the destination, or the operator's definition consumes the error (listed with reasons); partial observers that swallow errors are reported. NO-PREMATURE-RELEASE — 'nothing is lost, completion comes when the definition says': inside a notification slot of one source the other sources are unsubscribed only on paths that also terminate the output. ARITY — the fixed-arity " +
			"CombineLatestWithK/ZipWithK families subscribe K+1 distinct sources, build K+1-tuples from K+1 distinct variables and (CombineLatest) use only counter constants consistent with K+1 sources.",
		NotDecided:  "the output assigned to each interleaving (ordering, completion timing, loss/duplication) for merge, concat, combine-latest, zip, race, buffer/window/sample/throttle-when, group-by, flat-map — in particular ZipAll's early outer completion (DESIGN.md section 7) is outside these rules.",
		Assumptions: []string{"the destination's subscriber closes on the first terminal notification (C01) and its teardown releases the other sources (C03)"},
		Floors:      map[string]int{"sites_checked": 140, "sites_of_multi_source_operators": 50, "sibling_releases_in_slots": 30, "complete_slots_checked": 120, "counting_complete_slots": 14, "counted_completes": 14},
		Controls:    map[string]string{"zz_verif_controls_c05.go": roControl(controlsC05 + controlsInnerTerminal + controlsInnerTerminated), "zz_verif_controls_c12.go": roControl(controlsC12), "zz_verif_controls_access.go": roControl(controlsAccessGuard), "zz_verif_controls_atomicptr.go": roControl(controlsAtomicPointee), "zz_verif_controls_c05c.go": roControl(controlsC05c + controlsC05d)},
	}
}

// sourceParamName names the subscribe site by the observable parameter it subscribes (directly or wrapped in a call).
func sourceParamName(s *model.SubSite) string {
	if s.Source != nil && s.Source.Kind == model.AVParam && s.Source.Param != nil {
		return s.Source.Param.Name()
	}
	name := ""
	if s.SourceExpr != nil {
		ast.Inspect(s.SourceExpr, func(x ast.Node) bool {
			if id, ok := x.(*ast.Ident); ok && name == "" {
				if v, ok := objOf(s.Pkg.TypesInfo, id).(*types.Var); ok && !v.IsField() {
					if _, isSig := v.Type().Underlying().(*types.Signature); !isSig {
						name = v.Name()
					}
				}
			}
			return name == ""
		})
	}
	return name
}

package rules

import (
	"go/ast"
	"go/constant"
	"go/types"
	"regexp"
	"sort"
	"strconv"

	"rocheck/internal/check"
	"rocheck/internal/model"
)

// errorHandledByDefinition: operators whose definition consumes the upstream error.
var errorHandledByDefinition = map[string]string{
	"ro.Catch":                 "replaces the error by the fallback observable",
	"ro.RetryWithConfig":       "re-subscribes on error; the last error is emitted after the loop",
	"ro.OnErrorResumeNextWith": "continues with the next source; the last error is emitted after the loop",
	"ro.OnErrorReturn":         "replaces the error by a value",
	"ro.Materialize":           "turns the error into a value",
	"ro.ToChannel":             "sends the error into the channel",
	"ro.Delay":                 "queues the error like a value and re-emits it from the timer callback",
	"ro.detachOn":              "queues the error like a value and re-emits it from the consumer",
	"ro.CollectWithContext":    "returns the error",
	"ro.ShareWithConfig":       "forwards the error to the connection subject (site 2); site 1 hands the destination to the subject",
}

// ERR-PROPAGATION
func ruleErrPropagation() check.Rule {
	return check.Rule{
		Name:        "ERR-PROPAGATION",
		Doc:         "for every upstream subscribe site of every operator, the error slot of the observer sends an Error notification to the destination (directly, as the method value, through a local closure or an inlined helper), unless the operator's definition consumes the error (listed with the reason); an observer that has no error slot (OnNext-only) swallows the error",
		NeedControl: true,
		Run: func(c *check.Ctx) {
			for _, sc := range c.M.SCs {
				armed := c.Armed(sc)
				multi := len(sc.SubSites) > 1
				for _, s := range sc.SubSites {
					if s.Observer == nil {
						continue
					}
					c.Inc("sites_checked", 1)
					key := s.Key + "/error"
					if multi {
						c.Inc("sites_of_multi_source_operators", 1)
					}
					if why, ok := errorHandledByDefinition[sc.String()]; ok {
						if armed {
							c.OK(key, s.Pos, "by definition: %s", why)
						}
						continue
					}
					switch s.Observer.Kind {
					case model.AVDest:
						if armed {
							c.OK(key, s.Pos, "the destination itself is the observer")
						}
						continue
					case model.AVObserver:
					default:
						if armed {
							c.Info(key, s.Pos, "observer is not built in place (errors go wherever that observer sends them)")
						}
						continue
					}
					emits := false
					for _, e := range sc.Emits {
						if e.ToDest && e.Kind == model.EmitError && e.Ctx == s.Src && e.Slot == model.SlotError {
							emits = true
						}
					}
					// nested contexts created in the error slot (e.g. a subscribe in the error slot) do not count
					switch {
					case emits:
						if armed {
							c.OK(key, s.Pos, "the error slot sends Error to the destination")
						}
					case s.Observer.Slots[model.SlotError] == nil:
						c.Report(armed, key, s.Pos, "this source is observed with a partial observer (%s) that swallows its error: an error from this source neither ends the output nor releases the other sources", s.Observer.OCtor.Name)
					default:
						c.Report(armed, key, s.Pos, "the error slot of this source's observer never sends an Error notification to the destination: an error from this source does not end the output")
					}
				}
			}
			unknownsFailClosed(c)
		},
	}
}

var arityRe = regexp.MustCompile(`^ro\.(CombineLatestWith|ZipWith)([0-9]+)$`)

// ARITY: the fixed-arity families agree with their own arity.
func ruleArity() check.Rule {
	return check.Rule{
		Name:        "ARITY",
		FamilyShape: true,
		Doc:         "for CombineLatestWithK / ZipWithK: K+1 upstream subscribe sites, a K+1-tuple as value, and (CombineLatest) the completion counter is compared with / set to K+1 and K+2 only; siblings are cross-checked",
		Run: func(c *check.Ctx) {
			m := c.M
			recognised := 0
			for _, sc := range m.SCs {
				mt := arityRe.FindStringSubmatch(sc.String())
				if mt == nil {
					continue
				}
				k, _ := strconv.Atoi(mt[2])
				recognised++
				info := sc.Pkg.TypesInfo
				key := sc.String() + "/arity"
				// distinct upstream sources
				srcs := map[types.Object]bool{}
				for _, s := range sc.SubSites {
					if s.Source != nil && s.Source.Kind == model.AVParam {
						srcs[s.Source.Param] = true
					}
				}
				bad := false
				if len(sc.SubSites) != k+1 || len(srcs) != k+1 {
					bad = true
					c.Violation(key+"/sites", sc.Lit.Pos(), "%d subscribe sites over %d distinct sources, expected %d: a source is subscribed twice or not at all", len(sc.SubSites), len(srcs), k+1)
				}
				// tuple arity of the emitted value
				for _, e := range sc.Emits {
					if !e.ToDest || e.Kind != model.EmitNext || len(e.Args) != 1 {
						continue
					}
					if call, ok := ast.Unparen(e.Args[0]).(*ast.CallExpr); ok {
						if cl := model.Callee(e.Pkg.TypesInfo, call); cl != nil && cl.Pkg() != nil && cl.Pkg().Path() == "github.com/samber/lo" {
							if len(call.Args) != k+1 {
								bad = true
								c.Violation(key+"/tuple", e.Pos, "value is built from %d components, expected %d", len(call.Args), k+1)
							}
							// each component is a distinct variable
							seen := map[types.Object]bool{}
							for _, a := range call.Args {
								if id, _ := rootIdent(a); id != nil {
									seen[objOf(e.Pkg.TypesInfo, id)] = true
								}
							}
							if len(seen) != k+1 {
								bad = true
								c.Violation(key+"/tuple-distinct", e.Pos, "the %d components of the emitted tuple come from %d distinct variables: a source's value is used twice", k+1, len(seen))
							}
						}
					}
				}
				if mt[1] == "CombineLatestWith" {
					// constants used with the status counter
					var statusVar types.Object
					ast.Inspect(sc.Lit.Body, func(n ast.Node) bool {
						if vs, ok := n.(*ast.ValueSpec); ok {
							for _, id := range vs.Names {
								if id.Name == "status" {
									statusVar = info.Defs[id]
								}
							}
						}
						return true
					})
					consts := map[int64]bool{}
					if statusVar != nil {
						ast.Inspect(sc.Lit.Body, func(n ast.Node) bool {
							switch x := n.(type) {
							case *ast.BinaryExpr:
								if mentionsObj(info, x.X, statusVar) || mentionsObj(info, x.Y, statusVar) {
									for _, side := range []ast.Expr{x.X, x.Y} {
										if tv, ok := info.Types[side]; ok && tv.Value != nil {
											if v, ok := constant.Int64Val(tv.Value); ok {
												consts[v] = true
											}
										}
									}
								}
							case *ast.CallExpr:
								if cl := model.Callee(info, x); cl != nil && cl.Pkg() != nil && cl.Pkg().Path() == "sync/atomic" && len(x.Args) == 2 && mentionsObj(info, x.Args[0], statusVar) {
									if tv, ok := info.Types[x.Args[1]]; ok && tv.Value != nil {
										if v, ok := constant.Int64Val(tv.Value); ok {
											consts[v] = true
										}
									}
								}
							}
							return true
						})
						var got []int64
						for v := range consts {
							got = append(got, v)
						}
						sort.Slice(got, func(i, j int) bool { return got[i] < got[j] })
						for _, v := range got {
							if v != 1 && v != int64(k+1) && v != int64(k+2) {
								bad = true
								c.Violation(key+"/status-constants", sc.Lit.Pos(), "the completion counter is compared with / set to %d; with %d sources only 1 (increment), %d (all done) and %d (error) are consistent", v, k+1, k+1, k+2)
							}
						}
						if !consts[int64(k+1)] {
							bad = true
							c.Violation(key+"/status-constants", sc.Lit.Pos(), "the completion counter is never compared with %d (all %d sources done)", k+1, k+1)
						}
					}
				}
				if !bad {
					c.OK(key, sc.Lit.Pos(), "%d sites, %d-tuple, consistent counter constants", k+1, k+1)
				}
			}
			c.Inc("arity_family_members", recognised)
			c.Note("ARITY recognised=%d", recognised)
		},
	}
}

func mentionsObj(info *types.Info, e ast.Expr, o types.Object) bool {
	found := false
	ast.Inspect(e, func(n ast.Node) bool {
		if id, ok := n.(*ast.Ident); ok && objOf(info, id) == o {
			found = true
		}
		return true
	})
	return found
}

const controlsC05 = `
func verifControlErrSwallowed[T, S any](signal Observable[S]) func(Observable[T]) Observable[T] {
	return func(source Observable[T]) Observable[T] {
		return NewObservableWithContext(func(subscriberCtx context.Context, destination Observer[T]) Teardown {
			subscriptions := NewSubscription(nil)
			subscriptions.AddUnsubscribable(source.SubscribeWithContext(subscriberCtx, NewObserverWithContext(
				destination.NextWithContext, destination.ErrorWithContext, destination.CompleteWithContext)))
			subscriptions.AddUnsubscribable(signal.SubscribeWithContext(subscriberCtx, OnNextWithContext(
				func(ctx context.Context, value S) { destination.CompleteWithContext(ctx) })))
			return subscriptions.Unsubscribe
		})
	}
}
`

func C05() *check.Property {
	return &check.Property{
		ID:       "C05",
		Title:    "Multi-source operators honour every arrival order of their inputs",
		Patterns: CorePatterns,
		Scope:    []string{ro},
		Rules:    []check.Rule{ruleErrPropagation(), ruleArity()},
		Explanation: "Narrow structural claim. Arrival orders are run-time histories and are NOT decided. Two necessary conditions are: ERR-PROPAGATION — 'an error from any source ends the output at once': for every upstream subscribe site of every operator " +
			"(multi-source ones included) the observer's error slot reaches an Error notification to the destination, or the operator's definition consumes the error (listed with reasons); partial observers that swallow errors are reported. ARITY — the fixed-arity " +
			"CombineLatestWithK/ZipWithK families subscribe K+1 distinct sources, build K+1-tuples from K+1 distinct variables and (CombineLatest) use only counter constants consistent with K+1 sources.",
		NotDecided:  "the output assigned to each interleaving (ordering, completion timing, loss/duplication) for merge, concat, combine-latest, zip, race, buffer/window/sample/throttle-when, group-by, flat-map — in particular ZipAll's early outer completion and zipInnerSubscription's shared-composite unsubscribe (DESIGN.md section 7) are outside these rules.",
		Assumptions: []string{"the destination's subscriber closes on the first terminal notification (C01) and its teardown releases the other sources (C03)"},
		Floors:      map[string]int{"sites_checked": 140, "sites_of_multi_source_operators": 50},
		Controls:    map[string]string{"zz_verif_controls_c05.go": roControl(controlsC05)},
	}
}

package rules

import (
	"fmt"
	"go/ast"
	"go/token"
	"go/types"
	"strings"

	"rocheck/internal/check"
	"rocheck/internal/model"
)

// POSITION-STABLE: positions handed out into a slice stay valid.
func rulePositionStable() check.Rule {
	return check.Rule{
		Name:        "POSITION-STABLE",
		NeedControl: true,
		Doc:         "for every slice-typed struct field F of an armed package: if some function records a position in F — a variable defined from len(x.F) (possibly ±1) that is then captured by a function literal, stored in a field or returned — then no function compacts F (x.F = append(x.F[:i], x.F[j:]...), copy(x.F[i:], x.F[j:]), or x.F = x.F[k:]), because compaction shifts the later elements and every position recorded before it now designates a neighbour: a composite subscription that forgets a closed child by its recorded position removes the finalizer of a live child instead, which is then never unsubscribed when the downstream terminates",
		Run: func(c *check.Ctx) {
			m := c.M
			nFields := 0
			for _, p := range m.Pkgs {
				armed := c.ArmedPkg(p.PkgPath)
				info := p.TypesInfo
				fieldOf := func(e ast.Expr) *types.Var {
					sel, ok := ast.Unparen(e).(*ast.SelectorExpr)
					if !ok {
						return nil
					}
					s := info.Selections[sel]
					if s == nil || s.Kind() != types.FieldVal {
						return nil
					}
					v, _ := s.Obj().(*types.Var)
					if v == nil {
						return nil
					}
					if _, isSlice := v.Type().Underlying().(*types.Slice); !isSlice {
						return nil
					}
					return v
				}
				// the field whose length e is (len(x.F), len(x.F)-1, len(x.F)+1)
				var lenOf func(e ast.Expr) *types.Var
				lenOf = func(e ast.Expr) *types.Var {
					switch y := ast.Unparen(e).(type) {
					case *ast.CallExpr:
						if id, ok := ast.Unparen(y.Fun).(*ast.Ident); ok && id.Name == "len" && len(y.Args) == 1 {
							if _, isBuiltin := info.Uses[id].(*types.Builtin); isBuiltin {
								return fieldOf(y.Args[0])
							}
						}
					case *ast.BinaryExpr:
						if y.Op == token.ADD || y.Op == token.SUB {
							if v := lenOf(y.X); v != nil {
								return v
							}
						}
					}
					return nil
				}
				recorded := map[*types.Var]token.Pos{}
				type compaction struct {
					pos  token.Pos
					decl string
					how  string
				}
				compacted := map[*types.Var][]compaction{}
				seen := map[*types.Var]bool{}
				for _, f := range p.Syntax {
					if strings.HasSuffix(c.Prog.Fset.Position(f.Pos()).Filename, "_test.go") {
						continue
					}
					for _, d := range f.Decls {
						fd, ok := d.(*ast.FuncDecl)
						if !ok || fd.Body == nil {
							continue
						}
						// positions: pos := len(x.F) ... captured / stored / returned
						posVars := map[types.Object]*types.Var{}
						ast.Inspect(fd.Body, func(x ast.Node) bool {
							if sel, ok := x.(*ast.SelectorExpr); ok {
								if v := fieldOf(sel); v != nil {
									seen[v] = true
								}
							}
							as, ok := x.(*ast.AssignStmt)
							if !ok || len(as.Lhs) != len(as.Rhs) {
								return true
							}
							for i, l := range as.Lhs {
								id, ok := l.(*ast.Ident)
								if !ok {
									continue
								}
								if v := lenOf(as.Rhs[i]); v != nil {
									if o := objOf(info, id); o != nil {
										posVars[o] = v
									}
								}
							}
							return true
						})
						if len(posVars) > 0 {
							var lits []*ast.FuncLit
							ast.Inspect(fd.Body, func(x ast.Node) bool {
								switch y := x.(type) {
								case *ast.FuncLit:
									lits = append(lits, y)
								case *ast.ReturnStmt:
									for _, r := range y.Results {
										if id, ok := ast.Unparen(r).(*ast.Ident); ok {
											if v := posVars[objOf(info, id)]; v != nil {
												recorded[v] = y.Pos()
											}
										}
									}
								case *ast.AssignStmt:
									for i, r := range y.Rhs {
										if id, ok := ast.Unparen(r).(*ast.Ident); ok && i < len(y.Lhs) {
											if v := posVars[objOf(info, id)]; v != nil {
												if _, isSel := ast.Unparen(y.Lhs[i]).(*ast.SelectorExpr); isSel {
													recorded[v] = y.Pos()
												}
											}
										}
									}
								case *ast.KeyValueExpr:
									if id, ok := ast.Unparen(y.Value).(*ast.Ident); ok {
										if v := posVars[objOf(info, id)]; v != nil {
											recorded[v] = y.Pos()
										}
									}
								}
								return true
							})
							for _, l := range lits {
								ast.Inspect(l.Body, func(x ast.Node) bool {
									if id, ok := x.(*ast.Ident); ok {
										if v := posVars[objOf(info, id)]; v != nil {
											recorded[v] = id.Pos()
										}
									}
									return true
								})
							}
						}
						// compactions
						isSliceOf := func(e ast.Expr) *types.Var {
							if se, ok := ast.Unparen(e).(*ast.SliceExpr); ok {
								return fieldOf(se.X)
							}
							return nil
						}
						ast.Inspect(fd.Body, func(x ast.Node) bool {
							switch y := x.(type) {
							case *ast.AssignStmt:
								for i, l := range y.Lhs {
									v := fieldOf(l)
									if v == nil || i >= len(y.Rhs) {
										continue
									}
									switch r := ast.Unparen(y.Rhs[i]).(type) {
									case *ast.CallExpr:
										if id, ok := ast.Unparen(r.Fun).(*ast.Ident); ok && id.Name == "append" && len(r.Args) >= 2 && r.Ellipsis.IsValid() {
											if isSliceOf(r.Args[0]) == v && isSliceOf(r.Args[len(r.Args)-1]) == v {
												compacted[v] = append(compacted[v], compaction{y.Pos(), model.DeclName(fd), "append(F[:i], F[j:]...)"})
											}
										}
									case *ast.SliceExpr:
										if fieldOf(r.X) == v && r.Low != nil {
											compacted[v] = append(compacted[v], compaction{y.Pos(), model.DeclName(fd), "F = F[k:]"})
										}
									}
								}
							case *ast.CallExpr:
								if id, ok := ast.Unparen(y.Fun).(*ast.Ident); ok && id.Name == "copy" && len(y.Args) == 2 {
									if v := isSliceOf(y.Args[0]); v != nil && isSliceOf(y.Args[1]) == v {
										compacted[v] = append(compacted[v], compaction{y.Pos(), model.DeclName(fd), "copy(F[i:], F[j:])"})
									}
								}
							}
							return true
						})
					}
				}
				nFields += len(seen)
				if !armed {
					// controls live in armed packages only
				}
				for v, at := range recorded {
					key := fmt.Sprintf("%s.%s/positions-stay-valid", model.ShortPkg(p.PkgPath), v.Name())
					if cs := compacted[v]; len(cs) > 0 {
						for _, cp := range cs {
							c.Report(armed, key+"@"+cp.decl, cp.pos, "%s compacts the slice field %s (%s) although a position in it is recorded at %s for later use: the elements after the removed one shift down and every recorded position now designates a neighbour (or is out of range)", cp.decl, v.Name(), cp.how, c.Prog.Rel(at))
						}
					} else if armed {
						c.OK(key, at, "a position in %s is recorded, and the field is never compacted", v.Name())
					}
				}
			}
			c.Inc("slice_fields_scanned", nFields)
		},
	}
}

const controlsPositionStable = `
type verifControlPosList struct {
	items []func()
}

func (l *verifControlPosList) add(f func()) func() {
	position := len(l.items)
	l.items = append(l.items, f)
	return func() {
		l.items = append(l.items[:position], l.items[position+1:]...)
	}
}
`

package rules

import (
	"fmt"
	"go/ast"
	"go/token"
	"go/types"

	"golang.org/x/tools/go/cfg"

	"rocheck/internal/check"
	"rocheck/internal/model"
)

// reachableAvoiding: some CFG path leads from just after `from` to `to` without passing a node for which avoid holds.
func reachableAvoiding(body *ast.BlockStmt, from, to ast.Node, avoid func(ast.Node) bool) bool {
	g := cfg.New(body, func(*ast.CallExpr) bool { return true })
	locate := func(n ast.Node) (*cfg.Block, int) {
		var tb *cfg.Block
		ti := -1
		best := token.Pos(-1)
		for _, b := range g.Blocks {
			for i, nd := range b.Nodes {
				if nd.Pos() <= n.Pos() && n.End() <= nd.End() {
					if span := nd.End() - nd.Pos(); best < 0 || span < best {
						best, tb, ti = span, b, i
					}
				}
			}
		}
		return tb, ti
	}
	fb, fi := locate(from)
	tb, ti := locate(to)
	if fb == nil || tb == nil {
		return false
	}
	// scan the rest of the start block
	scan := func(b *cfg.Block, start, end int) (hitTarget, blocked bool) {
		for i := start; i < end; i++ {
			if b == tb && i == ti {
				return true, false
			}
			if avoid(b.Nodes[i]) {
				return false, true
			}
		}
		return false, false
	}
	if hit, blocked := scan(fb, fi+1, len(fb.Nodes)); hit {
		return true
	} else if blocked {
		return false
	}
	seen := map[int32]bool{}
	found := false
	var dfs func(b *cfg.Block)
	dfs = func(b *cfg.Block) {
		if found || seen[b.Index] {
			return
		}
		seen[b.Index] = true
		hit, blocked := scan(b, 0, len(b.Nodes))
		if hit {
			found = true
			return
		}
		if blocked {
			return
		}
		for _, sc := range b.Succs {
			dfs(sc)
		}
	}
	for _, sc := range fb.Succs {
		dfs(sc)
	}
	return found
}

// READ-AFTER-WAIT: what an awaited attempt reports is read after the wait.
func ruleReadAfterWait() check.Rule {
	return check.Rule{
		Name:        "READ-AFTER-WAIT",
		NeedControl: true,
		Doc:         "in an operator that subscribes an attempt and waits for it (`sub.Wait()`), a variable that the attempt's observer callbacks write (last error, completed flag, next context) is not read, in the function that waits, on a path that leads from the subscribe call to the read without passing the wait: an attempt that reports from another goroutine has not written it yet, so the loop decides on the previous attempt's outcome — it re-subscribes once more after an error, or abandons a running attempt",
		Run: func(c *check.Ctx) {
			m := c.M
			n := 0
			for _, sc := range m.SCs {
				armed := c.Armed(sc)
				info := sc.Pkg.TypesInfo
				for _, s := range sc.SubSites {
					if s.Src == nil || !s.Src.Awaited || s.Observer == nil || s.Observer.Kind != model.AVObserver {
						continue
					}
					fn := innermostFunc(m, s.Pkg, s.Call)
					body := funcBody(fn)
					if body == nil {
						continue
					}
					// variables written by the attempt's callbacks
					written := map[types.Object]bool{}
					for _, slot := range s.Observer.Slots {
						if slot == nil || slot.Lit == nil {
							continue
						}
						for _, w := range writesIn(info, slot.Lit) {
							if !(slot.Lit.Pos() <= w.Var.Pos() && w.Var.Pos() <= slot.Lit.End()) {
								written[w.Var] = true
							}
						}
					}
					if len(written) == 0 {
						continue
					}
					isWait := func(nd ast.Node) bool {
						found := false
						ast.Inspect(nd, func(x ast.Node) bool {
							if l, ok := x.(*ast.FuncLit); ok && ast.Node(l) != fn {
								return false
							}
							if call, ok := x.(*ast.CallExpr); ok {
								if name, isSub := m.Obj.SubscriptionMethods[model.Callee(info, call)]; isSub && name == "Wait" {
									found = true
								}
							}
							return !found
						})
						return found
					}
					// `source.Subscribe(...).Wait()`: the wait is part of the subscribing expression itself
					if sel, ok := m.Parent(s.Pkg, s.Call).(*ast.SelectorExpr); ok && sel.Sel.Name == "Wait" {
						if _, ok := m.Parent(s.Pkg, sel).(*ast.CallExpr); ok {
							continue
						}
					}
					// reads in the waiting function itself (not in nested literals)
					ast.Inspect(body, func(x ast.Node) bool {
						if l, ok := x.(*ast.FuncLit); ok && ast.Node(l) != fn {
							return false
						}
						id, ok := x.(*ast.Ident)
						if !ok || !written[info.Uses[id]] {
							return true
						}
						// not a pure write
						if as, ok := m.Parent(s.Pkg, id).(*ast.AssignStmt); ok {
							for _, l := range as.Lhs {
								if l == ast.Expr(id) {
									return true
								}
							}
						}
						if u, ok := m.Parent(s.Pkg, id).(*ast.UnaryExpr); ok && u.Op == token.AND {
							return true
						}
						n++
						key := fmt.Sprintf("%s/read-%s-after-wait@L%d", s.Key, id.Name, m.Prog.Fset.Position(id.Pos()).Line-m.Prog.Fset.Position(s.Call.Pos()).Line)
						if reachableAvoiding(body, s.Call, id, isWait) {
							c.Report(armed, key, id.Pos(), "%s is written by the callbacks of the attempt subscribed at %s and is read here on a path that has not waited for that attempt: an attempt reporting from another goroutine has not written it yet", id.Name, m.Prog.Rel(s.Call.Pos()))
						} else if armed {
							c.OK(key, id.Pos(), "read only after the wait for the attempt that writes it")
						}
						return true
					})
				}
			}
			c.Inc("attempt_outcome_reads", n)
		},
	}
}

const controlsReadAfterWait = `
func verifControlReadBeforeWait[T any]() func(Observable[T]) Observable[T] {
	return func(source Observable[T]) Observable[T] {
		return NewUnsafeObservableWithContext(func(subscriberCtx context.Context, destination Observer[T]) Teardown {
			subscriptions := NewSubscription(nil)
			for {
				var lastErr error
				sub := source.SubscribeWithContext(subscriberCtx, NewObserverWithContext(
					destination.NextWithContext,
					func(ctx context.Context, err error) { lastErr = err },
					func(ctx context.Context) {},
				))
				subscriptions.AddUnsubscribable(sub)
				if lastErr != nil {
					destination.ErrorWithContext(subscriberCtx, lastErr)
					break
				}
				sub.Wait()
				if lastErr == nil {
					destination.CompleteWithContext(subscriberCtx)
					break
				}
			}
			return subscriptions.Unsubscribe
		})
	}
}
`

// LOOP-STOPS-AFTER-ERROR: a re-subscribing loop does not go on after it forwarded an error.
func ruleLoopStopsAfterError() check.Rule {
	return check.Rule{
		Name:        "LOOP-STOPS-AFTER-ERROR",
		NeedControl: true,
		Doc:         "when an operator subscribes its sources one after the other in a loop, waiting for each (`sub.Wait()`), and the error callback of an attempt forwards the Error to the destination — which ends the output — the loop has an exit that this error takes: a `break` / `return` (or the loop condition) that tests the destination's closed state, a variable the error callback writes, or the closed state of a subscription the error callback unsubscribes. Otherwise the remaining sources are still subscribed, one after the other, after the output has failed: their side effects run although nobody can receive their notifications",
		Run: func(c *check.Ctx) {
			m := c.M
			n := 0
			for _, sc := range m.SCs {
				armed := c.Armed(sc)
				info := sc.Pkg.TypesInfo
				for _, s := range sc.SubSites {
					if !s.InLoop || s.Src == nil || !s.Src.Awaited {
						continue
					}
					// does the error slot of this attempt send the Error on?
					forwards := false
					for _, e := range sc.Emits {
						if e.ToDest && e.Kind == model.EmitError && e.Ctx == s.Src && e.Slot == model.SlotError {
							forwards = true
						}
					}
					if !forwards {
						continue
					}
					fn := innermostFunc(m, s.Pkg, s.Call)
					var loop ast.Stmt
					for cn := m.Parent(s.Pkg, s.Call); cn != nil && cn != fn; cn = m.Parent(s.Pkg, cn) {
						switch l := cn.(type) {
						case *ast.ForStmt:
							if loop == nil {
								loop = l
							}
						case *ast.RangeStmt:
							if loop == nil {
								loop = l
							}
						}
					}
					if loop == nil {
						continue
					}
					n++
					// what the error path changes
					errWrites := map[types.Object]bool{}
					errCloses := map[types.Object]bool{}
					if s.Observer != nil && s.Observer.Kind == model.AVObserver {
						if slot := s.Observer.Slots[model.SlotError]; slot != nil && slot.Lit != nil {
							for _, w := range writesIn(info, slot.Lit) {
								errWrites[w.Var] = true
							}
							ast.Inspect(slot.Lit.Body, func(x ast.Node) bool {
								if call, ok := x.(*ast.CallExpr); ok {
									if name, isSub := m.Obj.SubscriptionMethods[model.Callee(info, call)]; isSub && name == "Unsubscribe" {
										if sel := callSelector(info, call); sel != nil {
											if id, _ := rootIdent(sel.X); id != nil {
												errCloses[objOf(info, id)] = true
											}
										}
									}
								}
								return true
							})
						}
					}
					takesErrorExit := func(cond ast.Expr) bool {
						if cond == nil {
							return false
						}
						found := false
						ast.Inspect(cond, func(x ast.Node) bool {
							switch y := x.(type) {
							case *ast.Ident:
								if errWrites[objOf(info, y)] {
									found = true
								}
							case *ast.CallExpr:
								if sel := callSelector(info, y); sel != nil && sel.Sel.Name == "IsClosed" {
									if id, _ := rootIdent(sel.X); id != nil {
										o := objOf(info, id)
										if (sc.Dest != nil && o == types.Object(sc.Dest)) || errCloses[o] {
											found = true
										}
									}
								}
							}
							return !found
						})
						return found
					}
					stops := false
					if fs, ok := loop.(*ast.ForStmt); ok && takesErrorExit(fs.Cond) {
						stops = true
					}
					var lbody *ast.BlockStmt
					switch l := loop.(type) {
					case *ast.ForStmt:
						lbody = l.Body
					case *ast.RangeStmt:
						lbody = l.Body
					}
					ast.Inspect(lbody, func(x ast.Node) bool {
						if _, ok := x.(*ast.FuncLit); ok {
							return false
						}
						ifs, ok := x.(*ast.IfStmt)
						if !ok || !takesErrorExit(ifs.Cond) {
							return true
						}
						ast.Inspect(ifs.Body, func(y ast.Node) bool {
							switch z := y.(type) {
							case *ast.FuncLit:
								return false
							case *ast.BranchStmt:
								if z.Tok == token.BREAK || z.Tok == token.GOTO {
									stops = true
								}
							case *ast.ReturnStmt:
								stops = true
							}
							return true
						})
						return true
					})
					key := fmt.Sprintf("%s/loop-stops-after-error", s.Key)
					if stops {
						if armed {
							c.OK(key, s.Pos, "the loop has an exit taken after the attempt's error was forwarded")
						}
					} else {
						c.Report(armed, key, loop.Pos(), "the error callback of the attempt subscribed at %s forwards the Error to the destination, but no exit of this loop tests the destination's closed state or anything that callback changes: the loop goes on subscribing the remaining sources after the output has failed", m.Prog.Rel(s.Call.Pos()))
					}
				}
			}
			c.Inc("awaited_loop_attempts_forwarding_errors", n)
		},
	}
}

const controlsLoopStops = `
func verifControlLoopGoesOn[T any](obs ...Observable[T]) Observable[T] {
	return NewUnsafeObservableWithContext(func(subscriberCtx context.Context, destination Observer[T]) Teardown {
		subscriptions := NewSubscription(nil)
		for i := range obs {
			if subscriptions.IsClosed() {
				break
			}
			sub := obs[i].SubscribeWithContext(subscriberCtx, NewObserverWithContext(
				destination.NextWithContext,
				destination.ErrorWithContext,
				func(ctx context.Context) {},
			))
			subscriptions.AddUnsubscribable(sub)
			sub.Wait()
		}
		destination.CompleteWithContext(subscriberCtx)
		return subscriptions.Unsubscribe
	})
}
`

// ATTEMPT-DECISION-ERROR-BLIND: whether another attempt is made does not depend on what the error is.
func ruleAttemptDecisionErrorBlind() check.Rule {
	return check.Rule{
		Name: "ATTEMPT-DECISION-ERROR-BLIND",
		Doc:  "in every operator that subscribes to a source in a loop (Retry, RepeatWith, While/DoWhile, ...), the error callback of the attempt's observer never tests its error parameter in a condition (if, switch, for) of its own: the number of attempts is what the configuration and the outcomes dictate, so the error is stored, forwarded or handed to a function the caller supplied (a predicate of the options, a user callback), and nothing else decides on it. A Retry that gives up when the source's error wraps context.Canceled stops before its retries are spent although the subscription context is alive",
		Run: func(c *check.Ctx) {
			m := c.M
			n := 0
			for _, sc := range m.SCs {
				if !c.Armed(sc) && !check.IsControlName(sc.Name) {
					continue
				}
				info := sc.Pkg.TypesInfo
				for _, site := range sc.SubSites {
					if !site.InLoop || site.Observer == nil || site.Observer.Kind != model.AVObserver {
						continue
					}
					av := site.Observer.Slots[model.SlotError]
					if av == nil || av.Lit == nil {
						continue
					}
					var errParam types.Object
					for _, pv := range model.FlattenParams(info, av.Lit.Type.Params) {
						if pv != nil && isErrorType(pv.Type()) {
							errParam = pv
						}
					}
					if errParam == nil {
						continue
					}
					n++
					key := fmt.Sprintf("%s/attempt-decision-error-blind", sc)
					bad := token.NoPos
					mentions := func(e ast.Expr) bool {
						if e == nil {
							return false
						}
						found := false
						ast.Inspect(e, func(x ast.Node) bool {
							if found {
								return false
							}
							if call, ok := x.(*ast.CallExpr); ok {
								// a function the caller supplied decides: opts.ShouldRetry(err), predicate(err)
								if id, _ := rootIdent(call.Fun); id != nil {
									if v, ok := objOf(info, id).(*types.Var); ok && isParamVar(m, v) {
										if _, isSig := info.TypeOf(call.Fun).Underlying().(*types.Signature); isSig {
											return false
										}
									}
								}
							}
							if be, ok := x.(*ast.BinaryExpr); ok && (be.Op == token.EQL || be.Op == token.NEQ) && (isNilIdent(be.X) || isNilIdent(be.Y)) {
								return false // a nil guard does not look at what the error is
							}
							if id, ok := x.(*ast.Ident); ok && objOf(info, id) == errParam {
								found = true
							}
							return !found
						})
						return found
					}
					ast.Inspect(av.Lit.Body, func(x ast.Node) bool {
						if bad.IsValid() {
							return false
						}
						switch y := x.(type) {
						case *ast.IfStmt:
							if mentions(y.Cond) {
								bad = y.Pos()
							}
						case *ast.SwitchStmt:
							if mentions(y.Tag) {
								bad = y.Pos()
							}
							for _, cl := range y.Body.List {
								for _, e := range cl.(*ast.CaseClause).List {
									if mentions(e) {
										bad = cl.Pos()
									}
								}
							}
						case *ast.TypeSwitchStmt:
							ast.Inspect(y.Assign, func(z ast.Node) bool {
								if ta, ok := z.(*ast.TypeAssertExpr); ok && mentions(ta.X) {
									bad = y.Pos()
								}
								return true
							})
						case *ast.ForStmt:
							if mentions(y.Cond) {
								bad = y.Pos()
							}
						}
						return true
					})
					if bad.IsValid() {
						c.Report(c.Armed(sc), key, bad, "the error callback of the attempt decides on the value of its error: whether the source is subscribed again no longer follows from the configuration and the outcome alone (an error that wraps context.Canceled ends Retry early although the subscription context is alive)")
					} else if c.Armed(sc) {
						c.OK(key, av.Lit.Pos(), "the error is stored, forwarded or handed to caller-supplied functions only")
					}
				}
			}
			c.Inc("attempt_error_callbacks", n)
		},
	}
}

package rules

import (
	"fmt"
	"go/ast"
	"go/token"
	"go/types"
	"sort"
	"strings"

	"golang.org/x/tools/go/packages"

	"rocheck/internal/check"
	"rocheck/internal/load"
	"rocheck/internal/model"
)

// notifKind maps a method name to its notification kind (0 next, 1 error, 2 complete).
func notifKind(name string) int {
	switch {
	case strings.HasPrefix(name, "Next"):
		return 0
	case strings.HasPrefix(name, "Error"):
		return 1
	case strings.HasPrefix(name, "Complete"):
		return 2
	}
	return -1
}

// GATE-SUBSCRIBER / GATE-OBSERVER
func ruleGates() check.Rule { return ruleGatesOf(true) }

// ruleGatesOf checks subscriberImpl's gates and, when withObserver is set, observerImpl's.
func ruleGatesOf(withObserver bool) check.Rule {
	return check.Rule{
		Name: "GATE",
		Doc:  "in subscriberImpl every call through the destination field, and in observerImpl every call of a try* helper (the only places that invoke the user callbacks), is dominated by the open-status test (Next: atomic load == 0) or by winning the compare-and-swap 0 -> k != 0 (terminals); helpers are followed to all their call sites",
		Run: func(c *check.Ctx) {
			m := c.M
			p := m.Obj.Ro
			info := p.TypesInfo
			open, won := atomStatusOpen(info), atomCASWon(info)
			h := newHeldDB(m)
			// subscriberImpl
			for _, fd := range methodsOf(p, "subscriberImpl") {
				if fd.Body == nil {
					continue
				}
				rv := recvObj(info, fd)
				n := 0
				ast.Inspect(fd.Body, func(x ast.Node) bool {
					call, ok := x.(*ast.CallExpr)
					if !ok {
						return true
					}
					sel, ok := ast.Unparen(call.Fun).(*ast.SelectorExpr)
					if !ok {
						return true
					}
					inner, ok := ast.Unparen(sel.X).(*ast.SelectorExpr)
					if !ok || fieldSelOf(info, inner, rv) == nil || inner.Sel.Name != "destination" {
						return true
					}
					kind := notifKind(sel.Sel.Name)
					if kind < 0 {
						return true
					}
					n++
					c.Inc("gated_calls", 1)
					key := fmt.Sprintf("ro.subscriberImpl.%s/gate#%d", fd.Name.Name, n)
					atom, what := open, "status == 0"
					if kind != 0 {
						atom, what = won, "winning CompareAndSwap(&status, 0, k)"
					}
					underLock := func(cond ast.Expr, polarity bool) bool {
						return implies(cond, polarity, atom) && h.heldNorm(p, cond)["recv.mu"]
					}
					if guardedBy(fd.Body, call, atom) && !guardedByEdge(fd.Body, call, underLock) {
						c.Violation(key, call.Pos(), "destination.%s is guarded by %s, but that test is evaluated before the producer lock is taken: a notification that passed the test and then waited for the lock behind a terminal one is delivered after it", sel.Sel.Name, what)
					} else if guardedBy(fd.Body, call, atom) {
						c.OK(key, call.Pos(), "destination.%s is dominated by %s, evaluated with the producer lock held", sel.Sel.Name, what)
					} else {
						c.Violation(key, call.Pos(), "destination.%s can be reached without %s: a notification can be delivered after a terminal one (or two terminals can both be delivered)", sel.Sel.Name, what)
					}
					return true
				})
			}
			// observerImpl: call sites of try*
			for _, fd := range methodsOf(p, "observerImpl") {
				if !withObserver {
					break
				}
				if fd.Body == nil {
					continue
				}
				n := 0
				ast.Inspect(fd.Body, func(x ast.Node) bool {
					call, ok := x.(*ast.CallExpr)
					if !ok {
						return true
					}
					sel, ok := ast.Unparen(call.Fun).(*ast.SelectorExpr)
					if !ok || !strings.HasPrefix(sel.Sel.Name, "try") {
						return true
					}
					cl := model.Callee(info, call)
					if cl == nil || !model.IsMethod(cl, ro, "observerImpl", sel.Sel.Name) {
						return true
					}
					kind := notifKind(strings.TrimPrefix(sel.Sel.Name, "try"))
					if kind < 0 {
						return true
					}
					n++
					c.Inc("gated_calls", 1)
					key := fmt.Sprintf("ro.observerImpl.%s/call-%s#%d", fd.Name.Name, sel.Sel.Name, n)
					atom, what := open, "status == 0"
					if kind != 0 {
						atom, what = won, "winning CompareAndSwap(&status, 0, k)"
					}
					// the call may sit inside a literal (panic handler of tryNext): then it is not dominated by any
					// guard of this method's CFG
					inLit := innermostFunc(m, p, call) != ast.Node(fd)
					if !inLit && guardedBy(fd.Body, call, atom) {
						c.OK(key, call.Pos(), "%s is dominated by %s", sel.Sel.Name, what)
					} else {
						c.Violation(key, call.Pos(), "%s is invoked from %s without %s: the observer can receive an %s notification while it stays open (values and a second terminal still follow)", sel.Sel.Name, fd.Name.Name, what, strings.TrimPrefix(sel.Sel.Name, "try"))
					}
					return true
				})
			}
		},
	}
}

// CORE-DELIVERS: the contract-enforcing types pass on what they accept.
func ruleCoreDelivers() check.Rule {
	return check.Rule{
		Name: "CORE-DELIVERS",
		Doc:  "subscriberImpl.NextWithContext/ErrorWithContext/CompleteWithContext each contain a call of the same notification on the destination field; observerImpl's three methods each call their try* helper and each try* helper calls the user callback field; subscriptionImpl.AddUnsubscribable registers the Unsubscribe of its argument with Add: a gate that lets nothing through satisfies every other rule of C01",
		Run: func(c *check.Ctx) {
			m := c.M
			p := m.Obj.Ro
			info := p.TypesInfo
			has := func(fd *ast.FuncDecl, pred func(call *ast.CallExpr, sel *ast.SelectorExpr) bool) bool {
				found := false
				ast.Inspect(fd.Body, func(x ast.Node) bool {
					if call, ok := x.(*ast.CallExpr); ok {
						if sel, ok := ast.Unparen(call.Fun).(*ast.SelectorExpr); ok && pred(call, sel) {
							found = true
						}
					}
					return !found
				})
				return found
			}
			n := 0
			for _, kind := range []string{"Next", "Error", "Complete"} {
				mn := kind + "WithContext"
				if fd := load.FuncDeclOf(p, "subscriberImpl."+mn); fd != nil && fd.Body != nil {
					n++
					rv := recvObj(info, fd)
					key := "ro.subscriberImpl." + mn + "/delivers"
					if has(fd, func(call *ast.CallExpr, sel *ast.SelectorExpr) bool {
						inner, ok := ast.Unparen(sel.X).(*ast.SelectorExpr)
						return ok && sel.Sel.Name == mn && fieldSelOf(info, inner, rv) != nil && inner.Sel.Name == "destination"
					}) {
						c.OK(key, fd.Pos(), "delivers %s to the destination", kind)
					} else {
						c.Violation(key, fd.Pos(), "subscriberImpl.%s never calls destination.%s: every %s notification of every pipeline is swallowed", mn, mn, kind)
					}
				} else {
					c.Undecided("ro.subscriberImpl."+mn+"/delivers", p.Syntax[0].Pos(), "anchor not found")
				}
				if fd := load.FuncDeclOf(p, "observerImpl."+mn); fd != nil && fd.Body != nil {
					n++
					rv := recvObj(info, fd)
					key := "ro.observerImpl." + mn + "/delivers"
					if has(fd, func(call *ast.CallExpr, sel *ast.SelectorExpr) bool {
						id, ok := ast.Unparen(sel.X).(*ast.Ident)
						return ok && objOf(info, id) == types.Object(rv) && sel.Sel.Name == "try"+kind
					}) {
						c.OK(key, fd.Pos(), "hands the notification to try%s", kind)
					} else {
						c.Violation(key, fd.Pos(), "observerImpl.%s never calls try%s: the observer's %s callback is never invoked", mn, kind, kind)
					}
				}
				if fd := load.FuncDeclOf(p, "observerImpl.try"+kind); fd != nil && fd.Body != nil {
					n++
					rv := recvObj(info, fd)
					key := "ro.observerImpl.try" + kind + "/calls-callback"
					if has(fd, func(call *ast.CallExpr, sel *ast.SelectorExpr) bool {
						return fieldSelOf(info, call.Fun, rv) != nil && sel.Sel.Name == "on"+kind
					}) {
						c.OK(key, fd.Pos(), "calls the on%s callback", kind)
					} else {
						c.Violation(key, fd.Pos(), "try%s never calls the on%s callback", kind, kind)
					}
				}
			}
			if fd := load.FuncDeclOf(p, "subscriptionImpl.AddUnsubscribable"); fd != nil && fd.Body != nil {
				n++
				rv := recvObj(info, fd)
				params := model.FlattenParams(info, fd.Type.Params)
				key := "ro.subscriptionImpl.AddUnsubscribable/registers"
				if len(params) == 1 && has(fd, func(call *ast.CallExpr, sel *ast.SelectorExpr) bool {
					id, ok := ast.Unparen(sel.X).(*ast.Ident)
					if !ok || objOf(info, id) != types.Object(rv) || sel.Sel.Name != "Add" || len(call.Args) != 1 {
						return false
					}
					asel, ok := ast.Unparen(call.Args[0]).(*ast.SelectorExpr)
					if !ok || asel.Sel.Name != "Unsubscribe" {
						return false
					}
					aid, ok := ast.Unparen(asel.X).(*ast.Ident)
					return ok && objOf(info, aid) == types.Object(params[0])
				}) {
					c.OK(key, fd.Pos(), "registers the argument's Unsubscribe as a finalizer")
				} else {
					c.Violation(key, fd.Pos(), "AddUnsubscribable does not register its argument's Unsubscribe with Add: composite subscriptions never release what was added to them")
				}
			}
			c.Inc("core_delivery_points", n)
		},
	}
}

// coreStatusTypes: the types whose status word/field implements the grammar.
func coreStatusTypes(m *model.Model) []string {
	out := []string{"observerImpl", "subscriberImpl"}
	out = append(out, subjectTypes(m)...)
	sort.Strings(out)
	return out
}

// STATUS-MONOTONE
func ruleStatusMonotone() check.Rule {
	return check.Rule{
		Name: "STATUS-MONOTONE",
		Doc:  "every write of a status field of observerImpl, subscriberImpl and the subjects is the constructor's initialiser, a compare-and-swap whose old value is the constant 0 and whose new value is non-zero, or (subjects) an assignment of KindError/KindComplete under the subject mutex inside the status == KindNext branch; the status never returns to open",
		Run: func(c *check.Ctx) {
			m := c.M
			p := m.Obj.Ro
			info := p.TypesInfo
			h := newHeldDB(m)
			core := map[string]bool{}
			for _, t := range coreStatusTypes(m) {
				core[t] = true
			}
			isCoreStatus := func(e ast.Expr) (string, bool) {
				sel, ok := ast.Unparen(e).(*ast.SelectorExpr)
				if !ok || sel.Sel.Name != "status" {
					return "", false
				}
				s, ok := info.Selections[sel]
				if !ok || s.Kind() != types.FieldVal {
					return "", false
				}
				n := load.NamedOf(s.Recv())
				if n == nil || !core[n.Obj().Name()] {
					return "", false
				}
				return n.Obj().Name(), true
			}
			cnt := map[string]int{}
			for _, f := range p.Syntax {
				ast.Inspect(f, func(n ast.Node) bool {
					switch x := n.(type) {
					case *ast.AssignStmt:
						for i, l := range x.Lhs {
							tn, ok := isCoreStatus(l)
							if !ok {
								continue
							}
							fd := topDecl(m.EnclosingFuncs(p, x))
							cnt[tn]++
							c.Inc("status_writes", 1)
							key := fmt.Sprintf("ro.%s.%s/status-write#%d", tn, model.DeclName(fd), cnt[tn])
							if x.Tok != token.ASSIGN || i >= len(x.Rhs) {
								c.Violation(key, x.Pos(), "status is modified with %s", x.Tok)
								continue
							}
							v, isConst := constVal(info, x.Rhs[i])
							switch {
							case !isConst:
								c.Violation(key, x.Pos(), "status is assigned a non-constant value")
							case v == 0:
								c.Violation(key, x.Pos(), "status is reset to the open state (KindNext/0): a terminated stream could deliver again")
							case fd == nil || fd.Body == nil || !guardedBy(fd.Body, x, atomStatusOpen(info)):
								c.Violation(key, x.Pos(), "status is set to a terminal kind outside the status == KindNext branch: a second terminal can overwrite the first")
							case !h.heldNorm(p, x)["recv.mu"]:
								c.Violation(key, x.Pos(), "status is written without the subject mutex")
							default:
								c.OK(key, x.Pos(), "open -> terminal, under the mutex, inside the status == KindNext branch")
							}
						}
					case *ast.IncDecStmt:
						if tn, ok := isCoreStatus(x.X); ok {
							c.Violation(fmt.Sprintf("ro.%s/status-incdec", tn), x.Pos(), "status is incremented/decremented")
						}
					case *ast.CallExpr:
						cl := model.Callee(info, x)
						if cl == nil || cl.Pkg() == nil || cl.Pkg().Path() != "sync/atomic" || len(x.Args) == 0 {
							return true
						}
						u, ok := ast.Unparen(x.Args[0]).(*ast.UnaryExpr)
						if !ok || u.Op != token.AND {
							return true
						}
						tn, ok := isCoreStatus(u.X)
						if !ok {
							return true
						}
						if strings.HasPrefix(cl.Name(), "Load") {
							return true
						}
						fd := topDecl(m.EnclosingFuncs(p, x))
						cnt[tn]++
						c.Inc("status_writes", 1)
						key := fmt.Sprintf("ro.%s.%s/status-write#%d", tn, model.DeclName(fd), cnt[tn])
						if cl.Name() == "CompareAndSwapInt32" && len(x.Args) == 3 && constIs(info, x.Args[1], 0) {
							if k, ok := constVal(info, x.Args[2]); ok && k != 0 {
								c.OK(key, x.Pos(), "compare-and-swap 0 -> %d", k)
								return true
							}
						}
						c.Violation(key, x.Pos(), "status is written with atomic.%s in a way other than CompareAndSwap(&status, 0, k != 0): the status could leave a terminal state or be overwritten", cl.Name())
					case *ast.KeyValueExpr:
						if id, ok := x.Key.(*ast.Ident); ok && id.Name == "status" {
							if fo, ok := info.Uses[id].(*types.Var); ok && fo.IsField() {
								if v, isConst := constVal(info, x.Value); isConst && v == 0 {
									return true // initialiser: open
								}
								// only report for core types
								if cl, ok := m.Parent(p, x).(*ast.CompositeLit); ok {
									if n := load.NamedOf(info.TypeOf(cl)); n != nil && core[n.Obj().Name()] {
										c.Violation("ro."+n.Obj().Name()+"/status-init", x.Pos(), "a %s is constructed with a non-open status", n.Obj().Name())
									}
								}
							}
						}
					}
					return true
				})
			}
		},
	}
}

// observableImplementations lists the named types of pkg whose pointer type has a
// SubscribeWithContext(ctx, Observer) Subscription method.
func observableImplementations(m *model.Model, p *packages.Package) []string {
	var out []string
	scope := p.Types.Scope()
	for _, name := range scope.Names() {
		tn, ok := scope.Lookup(name).(*types.TypeName)
		if !ok {
			continue
		}
		if _, isIface := tn.Type().Underlying().(*types.Interface); isIface {
			continue
		}
		for _, fd := range methodsOf(p, name) {
			if fd.Name.Name == "SubscribeWithContext" {
				out = append(out, name)
			}
		}
	}
	sort.Strings(out)
	return out
}

// WRAP
func ruleWrap() check.Rule {
	return check.Rule{
		Name:        "WRAP",
		Doc:         "in every type that implements Observable, the destination parameter of SubscribeWithContext is used only as the argument of a subscriber constructor (NewSubscriber*) or forwarded to another SubscribeWithContext; every notification goes to the wrapped subscriber, never to the raw destination",
		NeedControl: true,
		Run: func(c *check.Ctx) {
			m := c.M
			for _, p := range m.Pkgs {
				if !c.ArmedPkg(p.PkgPath) {
					continue
				}
				info := p.TypesInfo
				for _, tname := range observableImplementations(m, p) {
					fd := load.FuncDeclOf(p, tname+".SubscribeWithContext")
					if fd == nil || fd.Body == nil {
						continue
					}
					c.Inc("observable_implementations", 1)
					key := model.ShortPkg(p.PkgPath) + "." + tname + ".SubscribeWithContext/wrap"
					var dest *types.Var
					for _, prm := range model.FlattenParams(info, fd.Type.Params) {
						if prm != nil && model.IsNamed(prm.Type(), m.Obj.Observer) {
							dest = prm
						}
					}
					if dest == nil {
						c.Undecided(key, fd.Pos(), "no Observer parameter found")
						continue
					}
					bad := ""
					uses := 0
					ast.Inspect(fd.Body, func(n ast.Node) bool {
						id, ok := n.(*ast.Ident)
						if !ok || objOf(info, id) != dest {
							return true
						}
						uses++
						par := m.Parent(p, id)
						call, ok := par.(*ast.CallExpr)
						if !ok {
							bad = fmt.Sprintf("used as %T", par)
							return true
						}
						cl := model.Callee(info, call)
						if _, isCtor := m.Obj.SubscriberCtors[cl]; isCtor {
							return true
						}
						if name, isObs := m.Obj.ObservableMethods[cl]; isObs && name == "SubscribeWithContext" {
							return true
						}
						bad = "passed to " + types.ExprString(call.Fun)
						return true
					})
					switch {
					case bad != "":
						c.Violation(key, fd.Pos(), "the raw destination is %s: notifications that bypass the subscriber are not gated by its status word", bad)
					case uses == 0:
						c.Violation(key, fd.Pos(), "the destination is never used: the observer is dropped")
					default:
						c.OK(key, fd.Pos(), "the destination is only wrapped (NewSubscriber*) or forwarded to another SubscribeWithContext")
					}
				}
			}
		},
	}
}

// SUBJECT-GATE
func ruleSubjectGate() check.Rule {
	return check.Rule{
		Name: "SUBJECT-GATE",
		Doc:  "in each subject's NextWithContext/ErrorWithContext/CompleteWithContext every broadcast, stored-observer notification and state store is inside the status == KindNext branch; in SubscribeWithContext the registration is reached only when the status is open (the switch returns for the closed kinds)",
		Run: func(c *check.Ctx) {
			m := c.M
			p := m.Obj.Ro
			info := p.TypesInfo
			open := atomStatusOpen(info)
			for _, tname := range subjectTypes(m) {
				for _, mn := range []string{"NextWithContext", "ErrorWithContext", "CompleteWithContext"} {
					fd := load.FuncDeclOf(p, tname+"."+mn)
					if fd == nil || fd.Body == nil {
						c.Undecided(fmt.Sprintf("ro.%s.%s/gate", tname, mn), p.Syntax[0].Pos(), "anchor not found")
						continue
					}
					rv := recvObj(info, fd)
					n := 0
					check1 := func(node ast.Node, what string) {
						n++
						c.Inc("subject_gated_effects", 1)
						key := fmt.Sprintf("ro.%s.%s/effect#%d", tname, mn, n)
						if guardedBy(fd.Body, node, open) {
							c.OK(key, node.Pos(), "%s only when status == KindNext", what)
						} else {
							c.Violation(key, node.Pos(), "%s can happen although the subject already terminated: a notification is delivered (or stored) after the terminal one", what)
						}
					}
					ast.Inspect(fd.Body, func(x ast.Node) bool {
						switch y := x.(type) {
						case *ast.FuncLit:
							return false
						case *ast.CallExpr:
							cl := model.Callee(info, y)
							if cl == nil {
								return true
							}
							// broadcast helpers and notifications to stored observers
							if sel, ok := ast.Unparen(y.Fun).(*ast.SelectorExpr); ok {
								if id, ok := ast.Unparen(sel.X).(*ast.Ident); ok && objOf(info, id) == rv && subjectHelperKind(m, p, y) == "broadcast" {
									check1(y, "broadcast "+sel.Sel.Name)
									return true
								}
								if name, isObs := m.Obj.ObserverMethods[cl]; isObs && notifKind(name) >= 0 {
									if id, ok := ast.Unparen(sel.X).(*ast.Ident); !ok || objOf(info, id) != rv {
										check1(y, "notification "+name+" to a stored observer")
									}
								}
							}
						case *ast.AssignStmt:
							for _, l := range y.Lhs {
								if s := fieldSelOf(info, l, rv); s != nil {
									check1(y, "store to field "+s.Sel.Name)
									break
								}
							}
						}
						return true
					})
				}
				// registration in SubscribeWithContext
				fd := load.FuncDeclOf(p, tname+".SubscribeWithContext")
				if fd == nil || fd.Body == nil {
					continue
				}
				rv := recvObj(info, fd)
				n := 0
				ast.Inspect(fd.Body, func(x ast.Node) bool {
					if _, isLit := x.(*ast.FuncLit); isLit {
						return false
					}
					var node ast.Node
					what := ""
					switch y := x.(type) {
					case *ast.CallExpr:
						if sel, ok := ast.Unparen(y.Fun).(*ast.SelectorExpr); ok && sel.Sel.Name == "Store" {
							if s := fieldSelOf(info, sel.X, rv); s != nil {
								node, what = y, "registration in "+s.Sel.Name
							}
						}
					case *ast.AssignStmt:
						for _, l := range y.Lhs {
							if s := fieldSelOf(info, l, rv); s != nil && s.Sel.Name == "observer" {
								node, what = y, "registration of the single observer"
							}
						}
					}
					if node == nil {
						return true
					}
					n++
					c.Inc("subject_gated_effects", 1)
					key := fmt.Sprintf("ro.%s.SubscribeWithContext/register#%d", tname, n)
					if afterTerminatingSwitch(m, info, fd.Body, node, 2) || inOpenClause(info, fd.Body, node, 2) || guardedBy(fd.Body, node, open) {
						c.OK(key, node.Pos(), "%s is reached only with an open status (closed kinds return first)", what)
					} else {
						c.Violation(key, node.Pos(), "%s can happen on a terminated subject: the observer would never be notified nor released", what)
					}
					return true
				})
			}
		},
	}
}

// DROP-HOOK
func ruleDropHook() check.Rule {
	return check.Rule{
		Name: "DROP-HOOK",
		Doc:  "every branch of observerImpl, subscriberImpl and the subjects that refuses a notification (the failing side of a status gate in a Next/Error/Complete method) calls OnDroppedNotification",
		Run: func(c *check.Ctx) {
			m := c.M
			p := m.Obj.Ro
			info := p.TypesInfo
			atoms := []guardAtom{atomStatusOpen(info), atomCASWon(info)}
			callsHook := func(n ast.Node) bool {
				found := false
				if n == nil {
					return false
				}
				ast.Inspect(n, func(x ast.Node) bool {
					if call, ok := x.(*ast.CallExpr); ok {
						if id, ok := ast.Unparen(call.Fun).(*ast.Ident); ok && id.Name == "OnDroppedNotification" {
							if _, isVar := objOf(info, id).(*types.Var); isVar {
								found = true
							}
						}
					}
					return true
				})
				return found
			}
			for _, tname := range coreStatusTypes(m) {
				for _, fd := range methodsOf(p, tname) {
					if fd.Body == nil || notifKind(fd.Name.Name) < 0 || !strings.HasSuffix(fd.Name.Name, "WithContext") {
						continue
					}
					n := 0
					ast.Inspect(fd.Body, func(x ast.Node) bool {
						var fail ast.Node
						matched := false
						var at ast.Node
						switch y := x.(type) {
						case *ast.IfStmt:
							at = y
							for _, a := range atoms {
								if implies(y.Cond, true, a) {
									matched, fail = true, y.Else
								} else if implies(y.Cond, false, a) {
									matched, fail = true, y.Body
								}
							}
						case *ast.SwitchStmt:
							// switch s.status { case KindNext: deliver; default: refuse }: the clauses other than the open one refuse
							if y.Tag == nil {
								return true
							}
							at = y
							var rest []ast.Stmt
							for _, cl := range y.Body.List {
								cc, ok := cl.(*ast.CaseClause)
								if !ok {
									continue
								}
								open := false
								for _, e := range cc.List {
									eq := &ast.BinaryExpr{X: y.Tag, OpPos: e.Pos(), Op: token.EQL, Y: e}
									for _, a := range atoms {
										if implies(eq, true, a) {
											open = true
										}
									}
								}
								if open {
									matched = true
								} else {
									rest = append(rest, cc.Body...)
								}
							}
							if matched {
								fail = &ast.BlockStmt{Lbrace: y.Body.Lbrace, List: rest, Rbrace: y.Body.Rbrace}
								if len(rest) == 0 {
									fail = nil
								}
							}
						default:
							return true
						}
						if !matched {
							return true
						}
						n++
						c.Inc("refusal_branches", 1)
						key := fmt.Sprintf("ro.%s.%s/refusal#%d", tname, fd.Name.Name, n)
						// every path through the refusing branch reports to the hook (an else-if chain that diverts some refusals
						// elsewhere does not)
						reports := callsHook(fail)
						if reports && fail != nil {
							blk, isBlk := fail.(*ast.BlockStmt)
							if !isBlk {
								if st, isStmt := fail.(ast.Stmt); isStmt {
									blk = &ast.BlockStmt{Lbrace: fail.Pos(), List: []ast.Stmt{st}, Rbrace: fail.End()}
								}
							}
							if blk != nil {
								reports = everyPathPasses(blk, func(nd ast.Node) bool { return callsHook(nd) })
							}
						}
						if reports {
							c.OK(key, at.Pos(), "the refusing branch reports the notification to OnDroppedNotification")
						} else {
							c.Violation(key, at.Pos(), "a notification refused by the status gate is discarded silently: OnDroppedNotification is not called on the refusing branch")
						}
						return true
					})
				}
			}
		},
	}
}

const controlsC01 = `
type verifControlRawObservable[T any] struct{ value T }

func (o *verifControlRawObservable[T]) Subscribe(destination Observer[T]) Subscription {
	return o.SubscribeWithContext(context.Background(), destination)
}

func (o *verifControlRawObservable[T]) SubscribeWithContext(ctx context.Context, destination Observer[T]) Subscription {
	destination.NextWithContext(ctx, o.value)
	destination.CompleteWithContext(ctx)
	return NewSubscription(nil)
}
`

func C01() *check.Property {
	return &check.Property{
		ID:       "C01",
		Title:    "Observable contract: values, then at most one terminal, then silence",
		Patterns: CorePatterns,
		Scope:    []string{ro},
		Rules:    []check.Rule{ruleGates(), ruleStatusMonotone(), ruleWrap(), ruleSubjectGate(), ruleDropHook(), ruleLockRegion(), ruleSubjectBroadcastLocked(), ruleCoreDelivers(), ruleNilGuardPolarity(), ruleNilableCallbackGuarded(), ruleSubjectDelivers(), ruleLateEmission(), ruleMultiProducerSafe(), ruleTypeProtection()},
		Explanation: "Static check of the premises of the grammar argument. Every observer reaches a stream only through a subscriber created by the Subscribe it was passed to (WRAP, over every type that implements Observable); a subscriber delivers Next only " +
			"after testing status == 0 under the producer lock and a terminal only after winning the compare-and-swap 0 -> k (GATE, CFG dominance; LOCK-REGION); the same one level down in observerImpl, whose callbacks are only invoked by the try* helpers, " +
			"whose call sites are gated; the status word only ever moves away from open (STATUS-MONOTONE, all writes enumerated); subjects gate broadcasts, stores and registrations on status == KindNext under their mutex (SUBJECT-GATE); refusals go to the hook (DROP-HOOK). " +
			"Given these, whatever an operator body or a user's subscribe function emits, nothing crosses a stage boundary after a terminal notification.",
		NotDecided:  "that compare-and-swap and sync.Mutex behave as specified; the three-line interleaving argument itself (argued, not machine-checked); custom Observer implementations supplied by users.",
		Assumptions: []string{"sync/atomic and sync.Mutex semantics", "Kind/status encoding: 0 is the open state (checked: KindNext == 0)"},
		Floors:      map[string]int{"gated_calls": 7, "status_writes": 10, "observable_implementations": 7, "subject_gated_effects": 30, "refusal_branches": 20, "delivering_methods": 3},
		Controls:    map[string]string{"zz_verif_controls_c01.go": roControl(controlsC01), "zz_verif_controls_nilguard.go": roControl(controlsNilGuard + controlsNilableCallback), "zz_verif_controls_c02.go": roControl(controlsC02)},
	}
}

package rules

import (
	"fmt"
	"go/ast"
	"go/token"
	"go/types"

	"golang.org/x/tools/go/packages"

	"rocheck/internal/check"
	"rocheck/internal/model"
)

// COMPLETION-COUNTED: where completions are counted, the count decides.
func ruleCompletionCounted() check.Rule {
	return check.Rule{
		Name: "COMPLETION-COUNTED",
		Doc:  "in an operator whose source completion callbacks count completions — a variable X of the subscribe closure updated with ++/--/atomic.Add in a complete callback of a source (CombineLatest*, Zip*, Merge*: the output completes when all sources have completed) — every Complete notification sent to the destination from such a callback (directly, or in a local closure it calls) is guarded by a condition that reads X, in the function where it is sent or at a call on the way to it. A Complete sent on another ground (this source ended without having emitted) ends the output while other sources are still running: completion then depends on the arrival order instead of on all sources being done",
		Run: func(c *check.Ctx) {
			m := c.M
			nSlots, nEmits := 0, 0
			for _, sc := range m.SCs {
				if !c.Armed(sc) && !check.IsControlName(sc.Name) {
					continue
				}
				info := sc.Pkg.TypesInfo
				// counter updated in e: atomic.AddIntN(&X, k), X++, X--, X += k
				counterOf := func(n ast.Node) types.Object {
					switch y := n.(type) {
					case *ast.IncDecStmt:
						if id, ok := ast.Unparen(y.X).(*ast.Ident); ok {
							return objOf(info, id)
						}
					case *ast.AssignStmt:
						if (y.Tok == token.ADD_ASSIGN || y.Tok == token.SUB_ASSIGN) && len(y.Lhs) == 1 {
							if id, ok := ast.Unparen(y.Lhs[0]).(*ast.Ident); ok {
								return objOf(info, id)
							}
						}
					case *ast.CallExpr:
						cl := model.Callee(info, y)
						if cl == nil || cl.Pkg() == nil || cl.Pkg().Path() != "sync/atomic" || len(cl.Name()) < 3 || cl.Name()[:3] != "Add" {
							return nil
						}
						if len(y.Args) >= 1 {
							if u, ok := ast.Unparen(y.Args[0]).(*ast.UnaryExpr); ok && u.Op == token.AND {
								if id, ok := ast.Unparen(u.X).(*ast.Ident); ok {
									return objOf(info, id)
								}
							}
						}
						// x.Add(k) on an atomic.Int32 variable
						if sel, ok := ast.Unparen(y.Fun).(*ast.SelectorExpr); ok && len(y.Args) == 1 {
							if id, ok := ast.Unparen(sel.X).(*ast.Ident); ok {
								return objOf(info, id)
							}
						}
					}
					return nil
				}
				mentions := func(e ast.Node, x types.Object) bool {
					found := false
					ast.Inspect(e, func(z ast.Node) bool {
						if id, ok := z.(*ast.Ident); ok && objOf(info, id) == x {
							found = true
						}
						return !found
					})
					return found
				}
				// the condition reads the counter, or a local defined from it (n := atomic.AddInt32(&X, -1); if n == 0)
				reads := func(x types.Object) func(cond ast.Expr, polarity bool) bool {
					return func(cond ast.Expr, _ bool) bool {
						if mentions(cond, x) {
							return true
						}
						found := false
						ast.Inspect(cond, func(z ast.Node) bool {
							if id, ok := z.(*ast.Ident); ok && !found {
								if v, ok := objOf(info, id).(*types.Var); ok {
									for _, d := range m.Defs[v] {
										if d.Expr != nil && mentions(d.Expr, x) {
											found = true
										}
									}
								}
							}
							return !found
						})
						return found
					}
				}
				seenSlot := map[*ast.FuncLit]bool{}
				for _, site := range sc.SubSites {
					if site.Observer == nil || site.Observer.Kind != model.AVObserver {
						continue
					}
					av := site.Observer.Slots[model.SlotComplete]
					if av == nil || av.Lit == nil || seenSlot[av.Lit] {
						continue
					}
					seenSlot[av.Lit] = true
					// counters this complete callback updates (through local closures too)
					counters := map[types.Object]bool{}
					var walk func(q *packages.Package, body ast.Node, depth int)
					walk = func(q *packages.Package, body ast.Node, depth int) {
						ast.Inspect(body, func(n ast.Node) bool {
							if _, isLit := n.(*ast.FuncLit); isLit {
								return false // another callback: not this completion
							}
							if q == sc.Pkg {
								if o := counterOf(n); o != nil {
									if v, ok := o.(*types.Var); ok && !v.IsField() && !isParamVar(m, v) {
										counters[o] = true
									}
								}
							}
							if call, ok := n.(*ast.CallExpr); ok && depth > 0 {
								for _, b := range calleeBodies(m, q, call) {
									walk(b.Pkg, b.Body, depth-1)
								}
							}
							return true
						})
					}
					walk(sc.Pkg, av.Lit.Body, 2)
					if len(counters) == 0 {
						continue
					}
					nSlots++
					for _, e := range sc.Emits {
						if !e.ToDest || e.Kind != model.EmitComplete || e.Ctx == nil || e.Ctx.Kind != model.KSrc || e.Ctx.Site != site || e.Slot != model.SlotComplete {
							continue
						}
						nEmits++
						guarded := false
						for x := range counters {
							pass := reads(x)
							if fn := innermostFunc(m, e.Pkg, e.Node); fn != nil && guardedByEdge(funcBody(fn), e.Node, pass) {
								guarded = true
							}
							for _, call := range e.Stack {
								if fn := innermostFunc(m, e.Pkg, call); fn != nil && guardedByEdge(funcBody(fn), call, pass) {
									guarded = true
								}
							}
						}
						key := fmt.Sprintf("%s/counted", e.Key)
						if guarded {
							if c.Armed(sc) {
								c.OK(key, e.Pos, "guarded by a test of the completion counter")
							}
						} else {
							c.Report(c.Armed(sc), key, e.Pos, "this Complete is sent from a source's completion callback that counts completions, but no condition on the way to it reads the counter: the output ends on another ground than all sources being done")
						}
					}
				}
			}
			c.Inc("counting_complete_slots", nSlots)
			c.Inc("counted_completes", nEmits)
		},
	}
}

package rules

import (
	"fmt"
	"go/ast"
	"go/token"
	"go/types"

	"rocheck/internal/check"
	"rocheck/internal/model"
)

// asyncByDefinition: operators whose documented meaning is to hand values to another
// goroutine or to shift them in time.
var asyncByDefinition = map[string]string{
	"ro.detachOn": "ObserveOn/SubscribeOn: documented hand-off through a bounded queue",
	"ro.Delay":    "documented time shift: notifications are re-emitted from timer callbacks",
}

var queueByDefinition = map[string]string{
	"ro.detachOn":  "ObserveOn/SubscribeOn: documented hand-off through a bounded queue",
	"ro.ToChannel": "documented bridge into a channel of the configured size",
}

func hasAsyncAncestor(c *model.Ctx) *model.Ctx {
	for ; c != nil; c = c.Parent {
		if c.Kind == model.KGo || c.Kind == model.KTimer {
			return c
		}
	}
	return nil
}

// SYNC-EMISSION: values are delivered on the producer's goroutine.
func ruleSyncEmission() check.Rule {
	return check.Rule{
		Name:        "SYNC-EMISSION",
		Doc:         "in every operator that has an upstream subscribe site, no value is emitted to the destination from a goroutine or timer callback, and no upstream callback parks a value in a channel, except in the documented hand-off/time-shift operators (detachOn, Delay; ToChannel for the channel); creation operators (no upstream) may emit asynchronously by definition",
		NeedControl: true,
		Run: func(c *check.Ctx) {
			for _, sc := range c.M.SCs {
				armed := c.Armed(sc)
				if len(sc.SubSites) == 0 {
					if armed {
						c.OK(sc.String()+"/creation", sc.Lit.Pos(), "creation operator (no upstream subscribe site): %d goroutine(s), %d timer(s)", len(sc.Gos), len(sc.Timers))
					}
					continue
				}
				c.Inc("operators_with_upstream", 1)
				nAsync := 0
				for _, e := range sc.Emits {
					if !e.ToDest || e.Kind != model.EmitNext {
						continue
					}
					a := hasAsyncAncestor(e.Ctx)
					if a == nil {
						continue
					}
					nAsync++
					key := fmt.Sprintf("%s/async-next#%d", sc, nAsync)
					if why, ok := asyncByDefinition[sc.String()]; ok {
						if armed {
							c.OK(key, e.Pos, "exempt: %s", why)
						}
						continue
					}
					c.Report(armed, key, e.Pos, "a value is emitted to the destination from a %s context (%s): the producer's Next returns before downstream handled the value and a hidden goroutine delivers it", a.Kind, model.CtxKey(e.Ctx, e.Slot))
				}
				nSend := 0
				for _, b := range sc.Blocks {
					if b.What != "send" || b.Ctx.Kind != model.KSrc {
						continue
					}
					nSend++
					key := fmt.Sprintf("%s/queue-send#%d", sc, nSend)
					if why, ok := queueByDefinition[sc.String()]; ok {
						if armed {
							c.OK(key, b.Pos, "exempt: %s", why)
						}
						continue
					}
					c.Report(armed, key, b.Pos, "an upstream callback parks its notification in a channel: values wait in a hidden queue outside the documented hand-off operators")
				}
				if armed && nAsync == 0 && nSend == 0 {
					c.OK(sc.String()+"/synchronous", sc.Lit.Pos(), "every value emission runs in the subscribe body or in an upstream slot (on the producer's goroutine)")
				}
			}
			unknownsFailClosed(c)
		},
	}
}

// BOUNDED-QUEUE + FIFO-TERMINAL for the hand-off operators.
func ruleBoundedQueue() check.Rule {
	return check.Rule{
		Name: "BOUNDED-QUEUE",
		Doc:  "in detachOn and ToChannel the only inter-goroutine store is one channel created with the operator's size parameter as capacity; all three upstream slots send into that channel, terminal slots send before they close it, and (detachOn) the consumer is a single range over it that forwards each kind to the matching destination method",
		Run: func(c *check.Ctx) {
			m := c.M
			for _, name := range []string{"ro.detachOn", "ro.ToChannel"} {
				sc := m.SCByName(name)
				if sc == nil {
					c.Undecided(name+"/anchor", m.Obj.Ro.Syntax[0].Pos(), "subscribe closure %s not found", name)
					continue
				}
				info := sc.Pkg.TypesInfo
				// channel creations in the SC body
				var chanVar types.Object
				var capExpr ast.Expr
				nmake := 0
				ast.Inspect(sc.Lit.Body, func(n ast.Node) bool {
					as, ok := n.(*ast.AssignStmt)
					if !ok || len(as.Lhs) != 1 || len(as.Rhs) != 1 {
						return true
					}
					call, ok := ast.Unparen(as.Rhs[0]).(*ast.CallExpr)
					if !ok {
						return true
					}
					if id, ok := ast.Unparen(call.Fun).(*ast.Ident); ok {
						if b, ok := info.Uses[id].(*types.Builtin); ok && b.Name() == "make" {
							if t := info.TypeOf(call); t != nil {
								if _, isChan := t.Underlying().(*types.Chan); isChan {
									nmake++
									if lid, ok := as.Lhs[0].(*ast.Ident); ok {
										chanVar = objOf(info, lid)
									}
									if len(call.Args) >= 2 {
										capExpr = call.Args[1]
									}
								}
							}
						}
					}
					return true
				})
				key := name + "/capacity"
				switch {
				case nmake != 1 || chanVar == nil:
					c.Violation(key, sc.Lit.Pos(), "%d channels are created in the subscribe closure (expected exactly one queue)", nmake)
					continue
				case capExpr == nil:
					c.Violation(key, sc.Lit.Pos(), "the hand-off channel is unbuffered/has no capacity operand: the configured size is ignored")
				default:
					// the size parameter itself, or a field of an options parameter (opts.bufferSize)
					id, _ := rootIdent(capExpr)
					if _, isCall := ast.Unparen(capExpr).(*ast.CallExpr); isCall {
						id = nil
					}
					v, _ := objOf(info, id).(*types.Var)
					isParam := false
					if v != nil && sc.Decl != nil {
						for _, prm := range model.FlattenParams(info, sc.Decl.Type.Params) {
							if prm == v {
								isParam = true
							}
						}
					}
					if isParam {
						c.OK(key, capExpr.Pos(), "capacity is the operator's size parameter %s", v.Name())
					} else {
						c.Violation(key, capExpr.Pos(), "the hand-off channel's capacity is %s, not the operator's size parameter: the producer may run ahead of the consumer by more (or less) than configured", types.ExprString(capExpr))
					}
				}
				// the queue is received from in one place only: the range loop of the consumer. Any other receive (`<-ch`
				// into a local batch) is a second, hidden buffer in front of the consumer
				// receive sites: range loops over the queue and `<-queue` expressions. The consumer is one loop — the range
				// form, or `for { x, ok := <-queue; if !ok { break } … }` — every other receive is a second buffer
				var ranges []*ast.RangeStmt
				var recvs []*ast.UnaryExpr
				ast.Inspect(sc.Lit.Body, func(n ast.Node) bool {
					switch x := n.(type) {
					case *ast.RangeStmt:
						if id, _ := rootIdent(x.X); id != nil && objOf(info, id) == chanVar {
							ranges = append(ranges, x)
						}
					case *ast.UnaryExpr:
						if x.Op == token.ARROW {
							if id, _ := rootIdent(x.X); id != nil && objOf(info, id) == chanVar {
								recvs = append(recvs, x)
							}
						}
					}
					return true
				})
				inLoop := func(n ast.Node) bool {
					for cn := m.Parent(sc.Pkg, n); cn != nil; cn = m.Parent(sc.Pkg, cn) {
						switch cn.(type) {
						case *ast.ForStmt, *ast.RangeStmt:
							return true
						case *ast.FuncLit:
							return false
						}
					}
					return false
				}
				recvLoopConsumer := len(ranges) == 0 && len(recvs) == 1 && inLoop(recvs[0])
				extra := 0
				for i, u := range recvs {
					if recvLoopConsumer && i == 0 {
						continue
					}
					extra++
					c.Violation(fmt.Sprintf("%s/extra-receive#%d", name, extra), u.Pos(), "the hand-off queue is also received from outside the consumer's loop: the items taken here wait in a second buffer, so the producer runs ahead of the consumer by more than the configured capacity")
				}
				if extra == 0 && name == "ro.detachOn" {
					c.OK(name+"/single-receive", sc.Lit.Pos(), "the queue is only received from by the consumer's loop")
				}
				// no slice/list queue written from upstream slots
				// sends: one per slot kind, all to chanVar; in terminal slots the send precedes the close
				sent := map[int]*model.BlockSite{}
				for _, b := range sc.Blocks {
					if b.What != "send" || b.Ctx.Kind != model.KSrc {
						continue
					}
					if id, _ := rootIdent(b.Expr); id == nil || objOf(b.Pkg.TypesInfo, id) != chanVar {
						c.Violation(name+"/single-queue", b.Pos, "an upstream slot sends into a channel other than the hand-off queue")
						continue
					}
					if prev := sent[b.Slot]; prev == nil || b.Pos < prev.Pos {
						sent[b.Slot] = b
					}
				}
				for k := 0; k < 3; k++ {
					kk := fmt.Sprintf("%s/slot-%s-queued", name, model.SlotNames[k])
					if sent[k] == nil {
						c.Violation(kk, sc.Lit.Pos(), "the %s slot of the upstream observer does not send into the queue: that notification bypasses the FIFO", model.SlotNames[k])
					} else {
						c.OK(kk, sent[k].Pos, "queued like a value")
					}
				}
				for _, op := range sc.SubOps {
					if op.Method != "close" || op.Ctx.Kind != model.KSrc {
						continue
					}
					kk := fmt.Sprintf("%s/slot-%s-close-after-send", name, model.SlotNames[op.Slot])
					s := sent[op.Slot]
					if s != nil && s.BasePos < op.BasePos {
						c.OK(kk, op.Pos, "the terminal notification is queued before the channel is closed")
					} else {
						c.Violation(kk, op.Pos, "the channel is closed before (or without) queuing the terminal notification")
					}
				}
				if name == "ro.detachOn" {
					nrange := 0
					for _, b := range sc.Blocks {
						if b.What == "range-chan" {
							if id, _ := rootIdent(b.Expr); id != nil && objOf(b.Pkg.TypesInfo, id) == chanVar {
								nrange++
							}
						}
					}
					// the consumer closure is walked once per arm (goroutine / body): one syntactic loop
					if nrange >= 1 || recvLoopConsumer {
						c.OK(name+"/consumer", sc.Lit.Pos(), "the consumer ranges over the queue (FIFO by channel semantics)")
					} else {
						c.Violation(name+"/consumer", sc.Lit.Pos(), "no range over the hand-off queue found")
					}
				}
			}
			// processNotification* dispatch kind k to callback k (FIFO consumer of detachOn/Delay/Dematerialize)
			checkNotificationDispatch(c)
		},
	}
}

// checkNotificationDispatch: processNotification[WithContext] are exhaustive switches over
// Kind that call callback k for kind k.
func checkNotificationDispatch(c *check.Ctx) {
	m := c.M
	p := m.Obj.Ro
	info := p.TypesInfo
	for _, name := range []string{"processNotification", "processNotificationWithContext"} {
		d := m.Decls[lookupFunc(p.Types, name)]
		key := "ro." + name + "/dispatch"
		if d == nil {
			c.Undecided(key, p.Syntax[0].Pos(), "anchor not found")
			continue
		}
		params := model.FlattenParams(info, d.Decl.Type.Params)
		var sw *ast.SwitchStmt
		ast.Inspect(d.Decl.Body, func(n ast.Node) bool {
			if s, ok := n.(*ast.SwitchStmt); ok && sw == nil {
				sw = s
			}
			return true
		})
		if sw == nil {
			c.Violation(key, d.Decl.Pos(), "no switch over the notification kind")
			continue
		}
		want := map[string]string{"KindNext": "onNext", "KindError": "onError", "KindComplete": "onComplete"}
		seen := map[string]bool{}
		bad := false
		for _, cl := range sw.Body.List {
			cc := cl.(*ast.CaseClause)
			for _, e := range cc.List {
				id, ok := ast.Unparen(e).(*ast.Ident)
				if !ok {
					continue
				}
				k, ok := objOf(info, id).(*types.Const)
				if !ok {
					continue
				}
				seen[k.Name()] = true
				called := ""
				ast.Inspect(cc, func(n ast.Node) bool {
					if call, ok := n.(*ast.CallExpr); ok {
						if fid, ok := ast.Unparen(call.Fun).(*ast.Ident); ok {
							if v, ok := objOf(info, fid).(*types.Var); ok {
								for _, prm := range params {
									if prm == v {
										called = v.Name()
									}
								}
							}
						}
					}
					return true
				})
				if called != want[k.Name()] {
					bad = true
					c.Violation(key, cc.Pos(), "kind %s is dispatched to %q, expected %q", k.Name(), called, want[k.Name()])
				}
			}
		}
		for k := range want {
			if !seen[k] {
				bad = true
				c.Violation(key, sw.Pos(), "the switch has no case for %s", k)
			}
		}
		if !bad {
			c.OK(key, sw.Pos(), "exhaustive over Kind; kind k calls callback k")
		}
	}
}

func lookupFunc(pkg *types.Package, name string) *types.Func {
	f, _ := pkg.Scope().Lookup(name).(*types.Func)
	return f
}

const controlsC08 = `
func verifControlAsyncNext[T any]() func(Observable[T]) Observable[T] {
	return func(source Observable[T]) Observable[T] {
		return NewObservableWithContext(func(subscriberCtx context.Context, destination Observer[T]) Teardown {
			sub := source.SubscribeWithContext(subscriberCtx, NewObserverWithContext(
				func(ctx context.Context, value T) { go recoverUnhandledError(func() { destination.NextWithContext(ctx, value) }) },
				destination.ErrorWithContext, destination.CompleteWithContext))
			return sub.Unsubscribe
		})
	}
}
`

func C08() *check.Property {
	return &check.Property{
		ID:       "C08",
		Title:    "Backpressure: Next returns after downstream is done; queues are bounded FIFO",
		Patterns: cat(CorePatterns, PluginPkgs, IOPluginPkgs, []string{PromPkg}, RatePkgs),
		Scope:    append([]string{ro}, IOPluginPkgs...),
		Rules:    []check.Rule{ruleSyncEmission(), ruleBoundedQueue(), ruleLockRegion(), ruleCoreDelivers(), ruleNoDowngrade(), ruleIncorporateBeforeDecide(), ruleNoTryLockSkip(), withCore(ruleSubjectDelivers()), withCore(ruleSubjectBroadcastLocked())},
		Explanation: "Static who-may-use check of asynchrony constructs. From the model of every subscribe closure: a value emission whose context has a goroutine or timer-callback ancestor, or an upstream slot that sends into a channel, is allowed only in creation operators " +
			"(no upstream) and in the documented hand-off/time-shift operators; everywhere else the emission provably runs inside the upstream's callback, i.e. on the producer's goroutine before its Next returns. For detachOn/ToChannel the queue is one channel whose capacity " +
			"operand is the size parameter, all three slots go through it, terminal notifications are queued before the close, the consumer ranges over it and the notification dispatcher maps kind k to callback k. The blocking (not dropping) producer lock is checked by LOCK-REGION.",
		NotDecided:  "the numeric bound 'capacity + 1' at run time (follows from Go channel semantics given the premises); Delay's queue, which is unbounded by its own TODO and not in the property's list of bounded hand-offs.",
		Assumptions: []string{"Go channel semantics (FIFO, capacity)", "user callbacks do not start goroutines themselves"},
		Floors:      map[string]int{"operators_with_upstream": 100, "delivering_methods": 3},
		Controls:    map[string]string{"zz_verif_controls_c08.go": roControl(controlsC08), "zz_verif_controls_c02.go": roControl(controlsC02), "zz_verif_controls_c05c.go": roControl(controlsC05c)},
	}
}

// INCORPORATE-BEFORE-DECIDE: the value is part of the state before the state decides what to emit.
func ruleIncorporateBeforeDecide() check.Rule {
	return check.Rule{
		Name: "INCORPORATE-BEFORE-DECIDE",
		Doc:  "in the next callback of an upstream observer, when the callback stores (something derived from) its value into captured state X and sends a notification under a condition that reads X (a buffer that is flushed when full), the store precedes the condition on every path: otherwise the output that this value gives rise to is not delivered by the time Next returns, but one value later (or at completion, or never when an error follows)",
		Run: func(c *check.Ctx) {
			m := c.M
			n := 0
			for _, sc := range m.SCs {
				armed := c.Armed(sc)
				info := sc.Pkg.TypesInfo
				for _, s := range sc.SubSites {
					if s.Observer == nil || s.Observer.Kind != model.AVObserver {
						continue
					}
					sl := s.Observer.Slots[model.SlotNext]
					if sl == nil || sl.Lit == nil {
						continue
					}
					prm := model.FlattenParams(info, sl.Lit.Type.Params)
					if len(prm) == 0 || prm[len(prm)-1] == nil {
						continue
					}
					writes, _ := stateWritesOfValue(info, sl.Lit, prm[len(prm)-1])
					if len(writes) == 0 {
						continue
					}
					ast.Inspect(sl.Lit.Body, func(x ast.Node) bool {
						if l, ok := x.(*ast.FuncLit); ok && l != sl.Lit {
							return false
						}
						ifs, ok := x.(*ast.IfStmt)
						if !ok {
							return true
						}
						// does the guarded block (or its else) emit to the destination?
						emits := false
						for _, e := range sc.Emits {
							if e.ToDest && ifs.Pos() <= e.Node.Pos() && e.Node.End() <= ifs.End() {
								emits = true
							}
						}
						if !emits {
							return true
						}
						for obj, wnode := range writes {
							reads := false
							ast.Inspect(ifs.Cond, func(y ast.Node) bool {
								if id, ok := y.(*ast.Ident); ok && objOf(info, id) == obj {
									reads = true
								}
								return !reads
							})
							if !reads {
								continue
							}
							n++
							key := fmt.Sprintf("%s/next/decides-on-%s", s.Key, obj.Name())
							if pathsPassBefore(sl.Lit.Body, ifs.Cond, func(nd ast.Node) bool { return nd.Pos() <= wnode.Pos() && wnode.End() <= nd.End() }) {
								if armed {
									c.OK(key, ifs.Pos(), "the value is stored into %s before the condition that reads it", obj.Name())
								}
							} else {
								c.Report(armed, key, ifs.Pos(), "the emission is decided by a condition on %s, but the value of this notification is stored into %s only afterwards: what this value completes (a full buffer) is delivered one notification late", obj.Name(), obj.Name())
							}
						}
						return true
					})
				}
			}
			c.Inc("state_guarded_emissions", n)
		},
	}
}

package rules

import (
	"fmt"
	"go/ast"
	"go/token"
	"go/types"

	"rocheck/internal/check"
	"rocheck/internal/model"
)

// writesOfValue lists the statements of lit that store (something derived from) the slot's value parameter into a
// variable captured from outside the literal: `x = v`, `x = f(v)`, `x.Store(&v)`, `x = append(x, v)`.
func stateWritesOfValue(info *types.Info, lit *ast.FuncLit, val *types.Var) (map[types.Object]ast.Node, []ast.Node) {
	captured := func(e ast.Expr) types.Object {
		id, _ := rootIdent(e)
		if id == nil {
			return nil
		}
		v, ok := objOf(info, id).(*types.Var)
		if !ok || v.IsField() || (lit.Pos() <= v.Pos() && v.Pos() <= lit.End()) {
			return nil
		}
		return v
	}
	mentionsVal := func(n ast.Node) bool {
		found := false
		ast.Inspect(n, func(x ast.Node) bool {
			if id, ok := x.(*ast.Ident); ok && objOf(info, id) == types.Object(val) {
				found = true
			}
			return !found
		})
		return found
	}
	out := map[types.Object]ast.Node{}
	var nodes []ast.Node
	ast.Inspect(lit.Body, func(x ast.Node) bool {
		if l, ok := x.(*ast.FuncLit); ok && l != lit {
			return false
		}
		switch y := x.(type) {
		case *ast.AssignStmt:
			if y.Tok == token.DEFINE {
				return true
			}
			for i, l := range y.Lhs {
				if o := captured(l); o != nil && i < len(y.Rhs) && mentionsVal(y.Rhs[i]) {
					out[o] = y
					nodes = append(nodes, y)
				}
			}
		case *ast.CallExpr:
			if sel, ok := ast.Unparen(y.Fun).(*ast.SelectorExpr); ok && sel.Sel.Name == "Store" && len(y.Args) >= 1 {
				if o := captured(sel.X); o != nil && mentionsVal(y.Args[len(y.Args)-1]) {
					out[o] = y
					nodes = append(nodes, y)
				}
			}
		}
		return true
	})
	return out, nodes
}

// PUBLISH-BEFORE-EMIT: in an operator with several sources, a source's callback publishes its value to the shared
// state before it lets anything be emitted.
func rulePublishBeforeEmit() check.Rule {
	return check.Rule{
		Name: "PUBLISH-BEFORE-EMIT",
		Doc:  "in a subscribe closure with two or more upstream sites, when the next callback of one source stores its value into state that code reachable from another source's callbacks reads (the latest-value cells of combine-latest, with-latest-from, sample), that store precedes, on every path, every notification the callback sends or lets a shared closure send: otherwise the other source, running concurrently while the emission is being delivered, still sees the previous value and the output shows this source going backwards",
		Run: func(c *check.Ctx) {
			m := c.M
			n := 0
			for _, sc := range m.SCs {
				if len(sc.SubSites) < 2 {
					continue
				}
				armed := c.Armed(sc)
				info := sc.Pkg.TypesInfo
				// who reads what: objects mentioned in each site's slot literals and in local closures they call
				mentionedBySite := map[*model.SubSite]map[types.Object]bool{}
				closureBodies := map[types.Object]*ast.FuncLit{}
				ast.Inspect(sc.Lit.Body, func(x ast.Node) bool {
					if as, ok := x.(*ast.AssignStmt); ok && len(as.Lhs) == len(as.Rhs) {
						for i, l := range as.Lhs {
							if id, ok := l.(*ast.Ident); ok {
								if lit, ok := ast.Unparen(as.Rhs[i]).(*ast.FuncLit); ok {
									closureBodies[objOf(info, id)] = lit
								}
							}
						}
					}
					return true
				})
				collect := func(lit *ast.FuncLit, into map[types.Object]bool) {
					var walk func(l *ast.FuncLit, depth int)
					walk = func(l *ast.FuncLit, depth int) {
						ast.Inspect(l.Body, func(x ast.Node) bool {
							if id, ok := x.(*ast.Ident); ok {
								o := objOf(info, id)
								into[o] = true
								if cb := closureBodies[o]; cb != nil && depth < 3 && cb != l {
									walk(cb, depth+1)
								}
							}
							return true
						})
					}
					walk(lit, 0)
				}
				for _, s := range sc.SubSites {
					mentionedBySite[s] = map[types.Object]bool{}
					if s.Observer == nil || s.Observer.Kind != model.AVObserver {
						continue
					}
					for k := 0; k < 3; k++ {
						if sl := s.Observer.Slots[k]; sl != nil && sl.Lit != nil {
							collect(sl.Lit, mentionedBySite[s])
						}
					}
				}
				for _, s := range sc.SubSites {
					if s.Observer == nil || s.Observer.Kind != model.AVObserver {
						continue
					}
					sl := s.Observer.Slots[model.SlotNext]
					if sl == nil || sl.Lit == nil {
						continue
					}
					prm := model.FlattenParams(info, sl.Lit.Type.Params)
					if len(prm) == 0 || prm[len(prm)-1] == nil {
						continue
					}
					writes, _ := stateWritesOfValue(info, sl.Lit, prm[len(prm)-1])
					for obj, wnode := range writes {
						shared := false
						for o, ment := range mentionedBySite {
							if o != s && ment[obj] {
								shared = true
							}
						}
						if !shared {
							continue
						}
						// every emission (or call of a closure that emits) in this slot literal comes after the write
						for _, e := range sc.Emits {
							if e.Ctx != s.Src || e.Slot != model.SlotNext || e.Deferred {
								continue
							}
							var target ast.Node = e.Node
							if innermostFunc(m, e.Pkg, e.Node) != ast.Node(sl.Lit) {
								target = nil
								for _, call := range e.Stack {
									if innermostFunc(m, e.Pkg, call) == ast.Node(sl.Lit) {
										target = call
									}
								}
							}
							if target == nil {
								continue
							}
							n++
							key := fmt.Sprintf("%s/publishes-%s", e.Key, obj.Name())
							if pathsPassBefore(sl.Lit.Body, target, func(nd ast.Node) bool { return nd.Pos() <= wnode.Pos() && wnode.End() <= nd.End() }) {
								if armed {
									c.OK(key, e.Pos, "%s is stored before this notification can be sent", obj.Name())
								}
							} else {
								c.Report(armed, key, e.Pos, "the value is stored into %s, which the callbacks of another source read, only after this notification can already be sent: a concurrent notification of the other source combines with the previous value and the output shows this source going backwards", obj.Name())
							}
						}
					}
				}
			}
			c.Inc("published_values_checked", n)
		},
	}
}

// CONSUME-FLAG: a sampled value is taken, not copied.
func ruleConsumeFlag() check.Rule {
	return check.Rule{
		Name: "CONSUME-FLAG",
		Doc:  "in a subscribe closure with two or more upstream sites, when a callback of one source emits (directly or deferred) inside `if flag { ... }` where flag is a boolean state variable that the next callback of another source sets to true (a value is pending), the guarded block sets the flag back to false: otherwise the pending value is emitted again on every later trigger although the source did not emit again",
		Run: func(c *check.Ctx) {
			m := c.M
			n := 0
			for _, sc := range m.SCs {
				if len(sc.SubSites) < 2 {
					continue
				}
				armed := c.Armed(sc)
				info := sc.Pkg.TypesInfo
				// flags set to true in a next slot: flag object -> site
				setBy := map[types.Object]*model.SubSite{}
				slotOf := map[*ast.FuncLit]*model.SubSite{}
				for _, s := range sc.SubSites {
					if s.Observer == nil || s.Observer.Kind != model.AVObserver {
						continue
					}
					for k := 0; k < 3; k++ {
						if sl := s.Observer.Slots[k]; sl != nil && sl.Lit != nil {
							slotOf[sl.Lit] = s
						}
					}
					sl := s.Observer.Slots[model.SlotNext]
					if sl == nil || sl.Lit == nil {
						continue
					}
					ast.Inspect(sl.Lit.Body, func(x ast.Node) bool {
						as, ok := x.(*ast.AssignStmt)
						if !ok || len(as.Lhs) != 1 || len(as.Rhs) != 1 || as.Tok != token.ASSIGN {
							return true
						}
						id, ok := as.Lhs[0].(*ast.Ident)
						if !ok {
							return true
						}
						if tv, ok := info.Types[as.Rhs[0]]; ok && tv.Value != nil && tv.Value.String() == "true" {
							if v, ok := objOf(info, id).(*types.Var); ok && !(sl.Lit.Pos() <= v.Pos() && v.Pos() <= sl.Lit.End()) {
								setBy[v] = s
							}
						}
						return true
					})
				}
				if len(setBy) == 0 {
					continue
				}
				for lit, s := range slotOf {
					for flag, setter := range setBy {
						if setter == s {
							continue
						}
						reads, clears := false, false
						ast.Inspect(lit.Body, func(y ast.Node) bool {
							switch z := y.(type) {
							case *ast.AssignStmt:
								for i, l := range z.Lhs {
									if lid, ok := l.(*ast.Ident); ok && objOf(info, lid) == flag {
										if i < len(z.Rhs) {
											if tv, ok := info.Types[z.Rhs[i]]; ok && tv.Value != nil && tv.Value.String() == "false" {
												clears = true
											}
										}
									}
								}
								for _, r := range z.Rhs {
									ast.Inspect(r, func(w ast.Node) bool {
										if id, ok := w.(*ast.Ident); ok && objOf(info, id) == flag {
											reads = true
										}
										return true
									})
								}
								return false
							case *ast.Ident:
								if objOf(info, z) == flag {
									reads = true
								}
							}
							return true
						})
						if !reads {
							continue
						}
						emits := false
						for _, e := range sc.Emits {
							if e.ToDest && e.Kind == model.EmitNext && lit.Body.Pos() <= e.Node.Pos() && e.Node.End() <= lit.Body.End() {
								emits = true
							}
						}
						if !emits {
							continue
						}
						n++
						key := fmt.Sprintf("%s/consumes-%s", s.Key, flag.Name())
						if clears {
							if armed {
								c.OK(key, lit.Pos(), "the pending-value flag %s is cleared where the value is emitted", flag.Name())
							}
						} else {
							c.Report(armed, key, lit.Pos(), "this callback reads the pending-value flag %s, which only the other source's next callback sets, and emits a value, but never clears the flag: the same value is emitted again on every later trigger although the source did not emit again", flag.Name())
						}
					}
				}
			}
			c.Inc("pending_value_flags", n)
		},
	}
}

// SLOT-GUARD-AGREEMENT: the three callbacks of one observer that are each wrapped in one guard use the same guard.
func ruleSlotGuardAgreement() check.Rule {
	return check.Rule{
		Name: "SLOT-GUARD-AGREEMENT",
		Doc:  "sibling cross-check: when the next, error and complete callbacks of one upstream observer each consist of a single `if <guard> { ... }`, and two of the guards are the same expression, the third is that expression too (Race's \"am I the winner\" test): a callback whose guard was weakened or strengthened alone treats its notification kind differently from its siblings, e.g. swallows the error of a source that has already won",
		Run: func(c *check.Ctx) {
			m := c.M
			n := 0
			for _, sc := range m.SCs {
				armed := c.Armed(sc)
				for _, s := range sc.SubSites {
					if s.Observer == nil || s.Observer.Kind != model.AVObserver {
						continue
					}
					var conds [3]string
					var pos [3]token.Pos
					ok := true
					for k := 0; k < 3; k++ {
						sl := s.Observer.Slots[k]
						if sl == nil || sl.Lit == nil || len(sl.Lit.Body.List) != 1 {
							ok = false
							break
						}
						ifs, isIf := sl.Lit.Body.List[0].(*ast.IfStmt)
						if !isIf || ifs.Else != nil || ifs.Init != nil {
							ok = false
							break
						}
						conds[k] = types.ExprString(ifs.Cond)
						pos[k] = ifs.Pos()
					}
					if !ok {
						continue
					}
					n++
					key := s.Key + "/slot-guards"
					switch {
					case conds[0] == conds[1] && conds[1] == conds[2]:
						if armed {
							c.OK(key, s.Pos, "the three callbacks use the same guard")
						}
					case conds[0] == conds[1] || conds[0] == conds[2] || conds[1] == conds[2]:
						odd := 0
						if conds[0] == conds[1] {
							odd = 2
						} else if conds[0] == conds[2] {
							odd = 1
						}
						c.Report(armed, key, pos[odd], "the %s callback is guarded by `%s` while its two siblings are guarded by `%s`: this kind of notification is let through (or swallowed) in situations where the others are not", model.SlotNames[odd], conds[odd], conds[(odd+1)%3])
					default:
						if armed {
							c.OK(key, s.Pos, "three different guards (no majority to compare with)")
						}
					}
				}
			}
			c.Inc("guarded_observers", n)
		},
	}
}

package rules

import (
	"go/ast"
	"go/constant"
	"go/token"
	"go/types"

	"rocheck/internal/model"
)

// A tiny tri-state evaluator for boolean conditions over enumeration constants, used to
// decide small decision tables (subscriber reuse) from the source instead of trusting names.

type tri int

const (
	triUnknown tri = iota
	triTrue
	triFalse
)

func triOf(b bool) tri {
	if b {
		return triTrue
	}
	return triFalse
}

type evalEnv struct {
	m     *model.Model
	info  *types.Info
	vals  map[types.Object]constant.Value // variables with known constant values
	bools map[types.Object]tri            // boolean variables
	// selector hook: value of a selector expression (e.g. existing.mode), nil when unknown
	sel   func(e *ast.SelectorExpr) constant.Value
	depth int
}

func (ev *evalEnv) constOf(e ast.Expr) constant.Value {
	e = ast.Unparen(e)
	if tv, ok := ev.info.Types[e]; ok && tv.Value != nil {
		return tv.Value
	}
	switch x := e.(type) {
	case *ast.Ident:
		if o := objOf(ev.info, x); o != nil {
			if v, ok := ev.vals[o]; ok {
				return v
			}
		}
	case *ast.SelectorExpr:
		if ev.sel != nil {
			return ev.sel(x)
		}
	}
	return nil
}

func (ev *evalEnv) evalBool(e ast.Expr) tri {
	e = ast.Unparen(e)
	if tv, ok := ev.info.Types[e]; ok && tv.Value != nil && tv.Value.Kind() == constant.Bool {
		return triOf(constant.BoolVal(tv.Value))
	}
	switch x := e.(type) {
	case *ast.Ident:
		if o := objOf(ev.info, x); o != nil {
			if b, ok := ev.bools[o]; ok {
				return b
			}
		}
		return triUnknown
	case *ast.UnaryExpr:
		if x.Op == token.NOT {
			switch ev.evalBool(x.X) {
			case triTrue:
				return triFalse
			case triFalse:
				return triTrue
			}
		}
		return triUnknown
	case *ast.BinaryExpr:
		switch x.Op {
		case token.LAND:
			a, b := ev.evalBool(x.X), ev.evalBool(x.Y)
			if a == triFalse || b == triFalse {
				return triFalse
			}
			if a == triTrue && b == triTrue {
				return triTrue
			}
			return triUnknown
		case token.LOR:
			a, b := ev.evalBool(x.X), ev.evalBool(x.Y)
			if a == triTrue || b == triTrue {
				return triTrue
			}
			if a == triFalse && b == triFalse {
				return triFalse
			}
			return triUnknown
		case token.EQL, token.NEQ:
			a, b := ev.constOf(x.X), ev.constOf(x.Y)
			if a == nil || b == nil {
				return triUnknown
			}
			eq := constant.Compare(a, token.EQL, b)
			if x.Op == token.NEQ {
				eq = !eq
			}
			return triOf(eq)
		}
		return triUnknown
	case *ast.CallExpr:
		return ev.evalCallBool(x)
	}
	return triUnknown
}

// evalCallBool evaluates a call of a same-repo pure function returning bool whose body is a
// switch over a parameter / if-return chain.
func (ev *evalEnv) evalCallBool(call *ast.CallExpr) tri {
	if ev.depth > 3 {
		return triUnknown
	}
	callee := model.Callee(ev.info, call)
	d := ev.m.Decls[callee]
	if d == nil || d.Decl.Body == nil {
		return triUnknown
	}
	params := model.FlattenParams(d.Pkg.TypesInfo, d.Decl.Type.Params)
	sub := &evalEnv{m: ev.m, info: d.Pkg.TypesInfo, vals: map[types.Object]constant.Value{}, bools: map[types.Object]tri{}, depth: ev.depth + 1}
	for i, p := range params {
		if p == nil || i >= len(call.Args) {
			continue
		}
		if v := ev.constOf(call.Args[i]); v != nil {
			sub.vals[p] = v
		} else if b := ev.evalBool(call.Args[i]); b != triUnknown {
			sub.bools[p] = b
		}
	}
	r, ok := sub.evalStmts(d.Decl.Body.List)
	if !ok {
		return triUnknown
	}
	return r
}

// evalStmts evaluates a statement list up to its return; ok=false when control flow is not understood.
func (ev *evalEnv) evalStmts(list []ast.Stmt) (tri, bool) {
	for _, s := range list {
		switch x := s.(type) {
		case *ast.ReturnStmt:
			if len(x.Results) != 1 {
				return triUnknown, false
			}
			return ev.evalBool(x.Results[0]), true
		case *ast.IfStmt:
			if x.Init != nil {
				return triUnknown, false
			}
			switch ev.evalBool(x.Cond) {
			case triTrue:
				if r, ok := ev.evalStmts(x.Body.List); ok {
					return r, true
				}
				return triUnknown, false
			case triFalse:
				if x.Else != nil {
					if blk, isBlk := x.Else.(*ast.BlockStmt); isBlk {
						if r, ok := ev.evalStmts(blk.List); ok {
							return r, true
						}
					}
					return triUnknown, false
				}
			default:
				return triUnknown, false
			}
		case *ast.SwitchStmt:
			if x.Init != nil || x.Tag == nil {
				return triUnknown, false
			}
			tag := ev.constOf(x.Tag)
			if tag == nil {
				return triUnknown, false
			}
			var def *ast.CaseClause
			matched := false
			for _, cl := range x.Body.List {
				cc := cl.(*ast.CaseClause)
				if cc.List == nil {
					def = cc
					continue
				}
				for _, e := range cc.List {
					v := ev.constOf(e)
					if v == nil {
						return triUnknown, false
					}
					if constant.Compare(tag, token.EQL, v) {
						matched = true
					}
				}
				if matched {
					if r, ok := ev.evalStmts(cc.Body); ok {
						return r, true
					}
					return triUnknown, false
				}
			}
			if def != nil {
				if r, ok := ev.evalStmts(def.Body); ok {
					return r, true
				}
				return triUnknown, false
			}
		default:
			return triUnknown, false
		}
	}
	return triUnknown, false
}

package rules

import (
	"fmt"
	"go/ast"
	"go/token"
	"go/types"
	"golang.org/x/tools/go/cfg"
	"strings"

	"golang.org/x/tools/go/packages"

	"rocheck/internal/check"
	"rocheck/internal/model"
)

// zeroCtxExempt lists zero-declared context variables (keyed by declaring function and ordinal among its zero-declared context variables) whose reads were shown by hand to
// never deliver the zero value; one symbol each, with the reason.
var zeroCtxExempt = map[string]string{
	"ro.MergeAll/zero-ctx#1":              "the live-subscription counter starts at 1 for the outer source, so it reaches 0 (the only guarded read) only after the outer completion slot stored parentCtx",
	"ro.RepeatWith/zero-ctx#1":            "Wait returns either after the completion slot stored lastCtx or after the error slot closed the destination, in which case the trailing Complete is dropped",
	"ro.OnErrorResumeNextWith/zero-ctx#1": "nothing can close the composite during the loop, so every attempt ends through the error or completion slot and both store lastCtx",
	"ro.CollectWithContext/zero-ctx#1":    "returned to the caller, not delivered to a callback",
}

func ruleCtxProvenance() check.Rule {
	return check.Rule{
		Name:        "CTX-PROVENANCE",
		Doc:         "the context operand of every upstream subscription and of every notification is derived from the subscriber context, the slot's context, a user callback result, context.With*(those) or a store of those that cannot be read as zero; never context.Background()/TODO()/nil; context-less Next/Error/Complete/Subscribe are not used inside pipelines",
		NeedControl: true,
		Run: func(c *check.Ctx) {
			m := c.M
			cp := newCtxProv(m)
			cp.exempt = zeroCtxExempt
			report := func(armed bool, key string, n ast.Node, r prov, what string) {
				switch {
				case r.ok:
					if armed {
						c.OK(key, n.Pos(), "%s: %s", what, r.why)
					}
				case r.undecided:
					if armed {
						c.Undecided(key, n.Pos(), "%s: origin not understood: %s", what, r.why)
					} else {
						c.Info(key, n.Pos(), "(out of armed scope) %s: origin not understood: %s", what, r.why)
					}
				default:
					c.Report(armed, key, n.Pos(), "%s carries a context that is not derived from the subscription: %s", what, r.why)
				}
			}
			for _, sc := range m.SCs {
				armed := c.Armed(sc)
				for _, s := range sc.SubSites {
					c.Inc("ctx_sinks", 1)
					key := s.Key + "/ctx"
					cp.stack = s.Stack
					switch {
					case s.Method == "Subscribe" || s.Method == "Connect":
						c.Report(armed, key, s.Call.Pos(), "context-less %s inside a subscribe closure: the upstream is subscribed with context.Background() instead of the subscriber context", s.Method)
					case s.CtxArg != nil:
						if r := cp.classify(s.Pkg, s.CtxArg, s.Call, 0); r.ok && strings.Contains(r.why, "API-supplied context parameter") {
							c.Report(armed, key, s.Call.Pos(), "the upstream is subscribed with a context the caller of the operator supplied (%s), not with one derived from the subscriber's: cancelling the subscription context no longer reaches the source", r.why)
						} else {
							report(armed, key, s.Call, r, "upstream subscription")
						}
					}
				}
				for _, e := range sc.Emits {
					c.Inc("ctx_sinks", 1)
					key := e.Key + "/ctx"
					cp.stack = e.Stack
					switch {
					case e.Forwarder:
						if armed {
							c.OK(key, e.Node.Pos(), "method value used as the callback: the slot's context is passed through unchanged")
						}
					case !e.WithCtx:
						c.Report(armed, key, e.Node.Pos(), "context-less %s notification inside a subscribe closure: the observer receives context.Background()", model.SlotNames[e.Kind])
					case e.CtxArg != nil:
						if inSourceSlot(e.Ctx) && sc.Ctx0 != nil && reachesOnlySubscriberCtx(m, e.Pkg, e.CtxArg, e.Node, sc.Ctx0) {
							c.Inc("slot_ctx_sinks", 1)
							c.Report(armed, key, e.Node.Pos(), "%s notification sent from inside a source callback carries the subscription-time context %s instead of (a context derived from) the one the callback received: values attached upstream per notification (context operators, context-aware callbacks) are not visible downstream", model.SlotNames[e.Kind], sc.Ctx0.Name())
							continue
						}
						if inSourceSlot(e.Ctx) {
							c.Inc("slot_ctx_sinks", 1)
						}
						report(armed, key, e.Node, cp.classify(e.Pkg, e.CtxArg, e.Node, 0), model.SlotNames[e.Kind]+" notification")
					}
				}
			}
			cp.stack = nil
			// sinks outside subscribe closures (subjects, subscriber, connectable, helpers)
			scs := scLits(m)
			for _, p := range m.Pkgs {
				if !c.ArmedPkg(p.PkgPath) {
					continue
				}
				info := p.TypesInfo
				cnt := map[string]int{}
				for _, f := range p.Syntax {
					ast.Inspect(f, func(n ast.Node) bool {
						if l, ok := n.(*ast.FuncLit); ok && scs[l] != nil {
							return false
						}
						call, ok := n.(*ast.CallExpr)
						if !ok {
							return true
						}
						callee := model.Callee(info, call)
						if callee == nil {
							return true
						}
						name, isObs := m.Obj.ObserverMethods[callee]
						if !isObs {
							name, isObs = m.Obj.ObservableMethods[callee]
						}
						if !isObs {
							if n2, ok := m.Obj.ConnectableMethods[callee]; ok && (n2 == "Connect" || n2 == "ConnectWithContext") {
								name, isObs = n2, true
							}
						}
						if !isObs {
							return true
						}
						switch name {
						case "IsClosed", "HasThrown", "IsCompleted":
							return true
						}
						chain := m.EnclosingFuncs(p, call)
						fd := topDecl(chain)
						if fd == nil {
							return true
						}
						base := fmt.Sprintf("%s.%s/%s", model.ShortPkg(p.PkgPath), model.DeclName(fd), name)
						cnt[base]++
						key := fmt.Sprintf("%s#%d/ctx", base, cnt[base])
						c.Inc("ctx_sinks_core", 1)
						withCtx := len(name) > 11 && name[len(name)-11:] == "WithContext"
						if !withCtx {
							// context-less call outside an SC: fine only in user-facing adapters that have no context
							if hasCtxInScope(m, p, chain) {
								c.Violation(key, call.Pos(), "context-less %s although a context is in scope", name)
							} else {
								c.OK(key, call.Pos(), "context-less %s in a function that has no context in scope", name)
							}
							return true
						}
						if len(call.Args) == 0 {
							return true
						}
						if isDefinitionalEntry(info, fd, call) {
							c.OK(key, call.Pos(), "definitional context-less entry point %s -> %s(context.Background(), ...)", fd.Name.Name, name)
							return true
						}
						report(true, key, call, cp.classify(p, call.Args[0], call, 0), name)
						return true
					})
				}
			}
			for k := range zeroCtxExempt {
				if !cp.Used[k] {
					c.Note("zero-value exemption %s not used on this tree", k)
				}
			}
		},
	}
}

// hasCtxInScope reports whether any enclosing function has a context.Context parameter.
func hasCtxInScope(m *model.Model, p *packages.Package, chain []ast.Node) bool {
	for _, fn := range chain {
		for _, v := range model.FlattenParams(p.TypesInfo, funcType(fn).Params) {
			if v != nil && model.IsContext(v.Type()) {
				return true
			}
		}
	}
	return false
}

// isDefinitionalEntry: decl X calls XWithContext(context.Background(), ...) — the documented
// meaning of the context-less variant.
func isDefinitionalEntry(info *types.Info, fd *ast.FuncDecl, call *ast.CallExpr) bool {
	callee := model.Callee(info, call)
	if callee == nil || callee.Name() != fd.Name.Name+"WithContext" || len(call.Args) == 0 {
		return false
	}
	return isFreshCtx(info, call.Args[0]) == "Background"
}

func isFreshCtx(info *types.Info, e ast.Expr) string {
	call, ok := ast.Unparen(e).(*ast.CallExpr)
	if !ok {
		return ""
	}
	callee := model.Callee(info, call)
	if model.IsPkgFunc(callee, "context", "Background") {
		return "Background"
	}
	if model.IsPkgFunc(callee, "context", "TODO") {
		return "TODO"
	}
	return ""
}

// ruleNoFreshContext: who-may-call rule for context.Background()/TODO().
func ruleNoFreshContext() check.Rule {
	return check.Rule{
		Name:        "NO-FRESH-CONTEXT",
		Doc:         "context.Background()/context.TODO() appear only in the definitional context-less entry points (X -> XWithContext(Background)), in hook calls that have no subscription context, as the nil replacement of an API-supplied context, or as constructor seeds whose reads are guarded",
		NeedControl: true,
		Run: func(c *check.Ctx) {
			m := c.M
			cp := newCtxProv(m)
			scs := scLits(m)
			for _, p := range m.Pkgs {
				info := p.TypesInfo
				armed := c.ArmedPkg(p.PkgPath)
				cnt := map[string]int{}
				for _, f := range p.Syntax {
					ast.Inspect(f, func(n ast.Node) bool {
						call, ok := n.(*ast.CallExpr)
						if !ok {
							return true
						}
						kind := isFreshCtx(info, call)
						if kind == "" {
							return true
						}
						chain := m.EnclosingFuncs(p, call)
						fd := topDecl(chain)
						name := "<pkg>"
						if fd != nil {
							name = model.DeclName(fd)
						}
						base := fmt.Sprintf("%s.%s/%s", model.ShortPkg(p.PkgPath), name, kind)
						cnt[base]++
						key := fmt.Sprintf("%s#%d", base, cnt[base])
						c.Inc("fresh_context_sites", 1)
						par, _ := m.Parent(p, call).(*ast.CallExpr)
						if par != nil && fd != nil {
							pc := model.Callee(info, par)
							// (a) definitional entry points
							fdObj, _ := info.Defs[fd.Name].(*types.Func)
							isOperator := fdObj != nil && isOperatorSig(m, fdObj.Type().(*types.Signature))
							if pc != nil && !isOperator && pc.Name() == fd.Name.Name+"WithContext" && len(par.Args) > 0 && ast.Unparen(par.Args[0]) == ast.Expr(call) {
								if armed {
									c.OK(key, call.Pos(), "definitional entry point %s -> %s", fd.Name.Name, pc.Name())
								}
								return true
							}
							// (b) hooks: calls through the package-level hook variables
							if id, ok := ast.Unparen(par.Fun).(*ast.Ident); ok {
								if v, ok := info.Uses[id].(*types.Var); ok && v.Parent() == p.Types.Scope() {
									if _, isSig := v.Type().Underlying().(*types.Signature); isSig {
										if armed {
											c.OK(key, call.Pos(), "argument of hook %s (no subscription context exists here)", v.Name())
										}
										return true
									}
								}
							}
							if sel, ok := ast.Unparen(par.Fun).(*ast.SelectorExpr); ok {
								if v, ok := info.Uses[sel.Sel].(*types.Var); ok && v.Pkg() != nil && v.Pkg().Path() == ro && v.Parent() == v.Pkg().Scope() {
									if armed {
										c.OK(key, call.Pos(), "argument of hook %s (no subscription context exists here)", v.Name())
									}
									return true
								}
							}
						}
						// (c) nil replacement of an API-supplied context: `if p == nil { p = context.Background() }`
						if as, ok := m.Parent(p, call).(*ast.AssignStmt); ok && len(as.Lhs) == 1 {
							if id, ok := as.Lhs[0].(*ast.Ident); ok {
								if v, ok := objOf(info, id).(*types.Var); ok {
									if _, isParam := cp.params[v]; isParam && guardedByNilTest(m, p, as, v) {
										if armed {
											c.OK(key, call.Pos(), "replaces a nil API-supplied context %s", v.Name())
										}
										return true
									}
								}
							}
						}
						// (d) constructor seeds of tuple fields whose reads are guarded (checked by CTX-PROVENANCE on the reads)
						if par != nil {
							pc := model.Callee(info, par)
							if pc != nil && pc.Pkg() != nil && pc.Pkg().Path() == "github.com/samber/lo" {
								if kv, ok := m.Parent(p, par).(*ast.KeyValueExpr); ok {
									if id, ok := kv.Key.(*ast.Ident); ok {
										if fo, ok := info.Uses[id].(*types.Var); ok && fo.IsField() {
											if armed {
												c.OK(key, call.Pos(), "constructor seed of field %s (reads are classified by CTX-PROVENANCE)", fo.Name())
											}
											return true
										}
									}
								}
							}
						}
						// (d') the same seed written as a tuple literal: field: lo.Tuple2[context.Context, T]{A: context.TODO(), …}
						{
							var n ast.Node = call
							if kv, ok := m.Parent(p, n).(*ast.KeyValueExpr); ok && kv.Value == ast.Expr(call) {
								n = kv
							}
							if cl, ok := m.Parent(p, n).(*ast.CompositeLit); ok && isCtxTuple(info.TypeOf(cl)) {
								if kv, ok := m.Parent(p, cl).(*ast.KeyValueExpr); ok {
									if id, ok := kv.Key.(*ast.Ident); ok {
										if fo, ok := info.Uses[id].(*types.Var); ok && fo.IsField() {
											if armed {
												c.OK(key, call.Pos(), "constructor seed of field %s (reads are classified by CTX-PROVENANCE)", fo.Name())
											}
											return true
										}
									}
								}
							}
						}
						// dead helper: unexported function without any caller
						inSC := false
						for _, cn := range chain {
							if l, ok := cn.(*ast.FuncLit); ok && scs[l] != nil {
								inSC = true
							}
						}
						if fd != nil && fd.Recv == nil && !inSC {
							if fo, ok := info.Defs[fd.Name].(*types.Func); ok && !fo.Exported() && len(cp.callsOf[fo]) == 0 && !usedAsValue(m, fo) {
								c.Info(key, call.Pos(), "fresh context in unexported function %s that has no caller (dead code)", fo.Name())
								return true
							}
						}
						c.Report(armed, key, call.Pos(), "context.%s() is used here; a context derived from the subscription must be used instead", kind)
						return true
					})
				}
			}
		},
	}
}

func usedAsValue(m *model.Model, fo *types.Func) bool {
	for _, p := range m.Pkgs {
		for id, o := range p.TypesInfo.Uses {
			if o == fo {
				// any use counts (calls are in callsOf; if there were calls we would not be here)
				_ = id
				return true
			}
		}
	}
	return false
}

// guardedByNilTest: stmt is inside `if v == nil { ... }`.
func guardedByNilTest(m *model.Model, p *packages.Package, stmt ast.Node, v *types.Var) bool {
	for c := stmt; c != nil; c = m.Parent(p, c) {
		if ifs, ok := m.Parent(p, c).(*ast.IfStmt); ok && c == ifs.Body {
			if be, ok := ast.Unparen(ifs.Cond).(*ast.BinaryExpr); ok {
				if id, ok := ast.Unparen(be.X).(*ast.Ident); ok && objOf(p.TypesInfo, id) == v {
					if id2, ok := ast.Unparen(be.Y).(*ast.Ident); ok {
						if _, isNil := p.TypesInfo.Uses[id2].(*types.Nil); isNil {
							return true
						}
					}
				}
			}
		}
	}
	return false
}

const controlsC09 = `
func verifControlCtxBackground[T any]() func(Observable[T]) Observable[T] {
	return func(source Observable[T]) Observable[T] {
		return NewUnsafeObservableWithContext(func(subscriberCtx context.Context, destination Observer[T]) Teardown {
			sub := source.SubscribeWithContext(subscriberCtx, NewObserverWithContext(
				func(ctx context.Context, value T) { destination.NextWithContext(context.Background(), value) },
				destination.ErrorWithContext, destination.CompleteWithContext))
			return sub.Unsubscribe
		})
	}
}

func verifControlCtxZero[T any]() func(Observable[T]) Observable[T] {
	return func(source Observable[T]) Observable[T] {
		return NewUnsafeObservableWithContext(func(subscriberCtx context.Context, destination Observer[T]) Teardown {
			var last lo.Tuple2[context.Context, T]
			sub := source.SubscribeWithContext(subscriberCtx, NewObserverWithContext(
				func(ctx context.Context, value T) { last = lo.T2(ctx, value) },
				destination.ErrorWithContext,
				func(ctx context.Context) { destination.NextWithContext(last.A, last.B); destination.CompleteWithContext(ctx) }))
			return sub.Unsubscribe
		})
	}
}

func verifControlDeadCtxStore[T any](k, v any) func(Observable[T]) Observable[T] {
	return func(source Observable[T]) Observable[T] {
		return NewUnsafeObservableWithContext(func(subscriberCtx context.Context, destination Observer[T]) Teardown {
			sub := source.SubscribeWithContext(subscriberCtx, NewObserverWithContext(
				func(ctx context.Context, value T) {
					destination.NextWithContext(ctx, value)
					ctx = context.WithValue(ctx, k, v)
				},
				destination.ErrorWithContext, destination.CompleteWithContext))
			return sub.Unsubscribe
		})
	}
}

func verifControlSlotCtxArg[T any](predicate func(ctx context.Context, item T) bool) func(Observable[T]) Observable[T] {
	return func(source Observable[T]) Observable[T] {
		return NewUnsafeObservableWithContext(func(subscriberCtx context.Context, destination Observer[T]) Teardown {
			sub := source.SubscribeWithContext(subscriberCtx, NewObserverWithContext(
				func(ctx context.Context, value T) {
					if predicate(subscriberCtx, value) {
						destination.NextWithContext(ctx, value)
					}
				},
				destination.ErrorWithContext, destination.CompleteWithContext))
			return sub.Unsubscribe
		})
	}
}
`

func C09() *check.Property {
	return &check.Property{
		ID:       "C09",
		Title:    "Context flows from Subscribe through every callback and is never nil",
		Patterns: cat(CorePatterns, PluginPkgs, IOPluginPkgs, []string{PromPkg}, RatePkgs),
		Scope:    append([]string{ro}, IOPluginPkgs...),
		Rules:    []check.Rule{ruleTerminalCtxFresh(), ruleCtxProvenance(), ruleNoFreshContext(), ruleCtxPairing(), ruleDeadContextStore(), ruleSlotCtxArgument(), ruleCallbackCtxUsed(), ruleContextRewriterUniform(), ruleSlotCtxStable(), ruleTerminalCtxCaptured(), ruleCtxTupleWhole()},
		Explanation: "Static def-use classification of every context operand. Sinks: the context argument of each upstream SubscribeWithContext and of each Next/Error/Complete notification in every subscribe closure " +
			"(through inlined helpers and local closures), plus the same calls in the subjects, the subscriber and the connectable observable. Each operand is traced through assignments, tuple fields (lo.T2), slices/channels of tuples, " +
			"atomic.Value, struct fields, closure and helper parameters to its origins; allowed origins are the subscriber context, the slot context, user-callback results and context.With* of those; Background/TODO/nil and " +
			"unguarded zero values are violations, unknown forms are undecided (fail closed). A who-may-call rule additionally confines context.Background()/TODO() to the definitional entry points, hooks and guarded seeds.",
		NotDecided:  "what user callbacks return; whether a context-typed value stored by an allowed origin is the *right* one among several allowed ones (e.g. last vs. first item's context).",
		Assumptions: []string{"the upstream source itself honours the property (induction over the pipeline)", "zero-value exemptions listed in the checker (4 symbols) were argued by hand"},
		Floors:      map[string]int{"ctx_sinks": 600, "ctx_sinks_core": 40, "fresh_context_sites": 30, "stored_payload_emissions": 12},
		Controls:    map[string]string{"zz_verif_controls_c09.go": roControl(controlsC09 + controlsC09b + controlsTerminalCtx + controlsCtxTupleWhole + controlsTerminalCtxFresh)},
	}
}

// CTX-PAIRING: a value that was stored keeps the context it was stored with.
func ruleCtxPairing() check.Rule {
	return check.Rule{
		Name:        "CTX-PAIRING",
		Doc:         "when a notification's payload is taken out of a stored (context, value) tuple (x.B) the context operand of the same call is that tuple's context (x.A); when the payload is an element read from a queue kept by the operator or subject (index, range, channel receive) the context operand comes from the same element — a payload that was queued without its context, or re-paired with another context (the subscriber's, the timer's), loses the per-item context values",
		NeedControl: true,
		Run: func(c *check.Ctx) {
			m := c.M
			scs := scLits(m)
			for _, p := range m.Pkgs {
				armed := c.ArmedPkg(p.PkgPath)
				info := p.TypesInfo
				cnt := map[string]int{}
				for _, f := range p.Syntax {
					ast.Inspect(f, func(n ast.Node) bool {
						call, ok := n.(*ast.CallExpr)
						if !ok || len(call.Args) < 2 {
							return true
						}
						// calls with a context operand followed by payload operands
						ctxIdx := -1
						for i, a := range call.Args {
							if t := info.TypeOf(a); t != nil && model.IsContext(t) {
								ctxIdx = i
								break
							}
						}
						if ctxIdx < 0 {
							return true
						}
						callee := model.Callee(info, call)
						isEmit := false
						if callee != nil {
							if name, ok := m.Obj.ObserverMethods[callee]; ok && notifKind(name) >= 0 {
								isEmit = true
							}
							if callee.Pkg() != nil && callee.Pkg().Path() == ro && len(callee.Name()) > 19 && callee.Name()[:19] == "processNotification" {
								isEmit = true
							}
						}
						if !isEmit {
							return true
						}
						chain := m.EnclosingFuncs(p, call)
						fd := topDecl(chain)
						if fd == nil {
							return true
						}
						for i, a := range call.Args {
							if i == ctxIdx {
								continue
							}
							root, kind := payloadRoot(m, p, a, chain, scs)
							if kind == "" {
								continue
							}
							base := model.ShortPkg(p.PkgPath) + "." + model.DeclName(fd)
							cnt[base]++
							key := fmt.Sprintf("%s/paired-emission#%d", base, cnt[base])
							c.Inc("stored_payload_emissions", 1)
							ctxArg := ast.Unparen(call.Args[ctxIdx])
							ok := false
							if sel, isSel := ctxArg.(*ast.SelectorExpr); isSel && sel.Sel.Name == "A" && sameExpr(info, sel.X, root) {
								ok = true
							}
							// the context variable itself was assigned from root.A
							if id, isID := ctxArg.(*ast.Ident); isID && !ok {
								for _, d := range m.Defs[objOf(info, id)] {
									if sel, isSel := ast.Unparen(d.Expr).(*ast.SelectorExpr); isSel && sel.Sel.Name == "A" && sameExpr(info, sel.X, root) {
										ok = true
									}
								}
							}
							if !ok && kind == "tuple field" && inUnsetBranch(m, p, call, root) {
								if armed {
									c.OK(key, call.Pos(), "payload %s is read on the branch where the companion flag says nothing was stored (zero value, no stored context exists)", types.ExprString(a))
								}
								break
							}
							if ok {
								if armed {
									c.OK(key, call.Pos(), "payload %s is delivered with the context stored beside it", types.ExprString(a))
								}
							} else {
								c.Report(armed, key, call.Pos(), "payload %s (%s) is delivered with context %s instead of the context stored with it: per-item context values are lost or attached to the wrong item", types.ExprString(a), kind, types.ExprString(ctxArg))
							}
							break
						}
						return true
					})
				}
			}
		},
	}
}

// payloadRoot recognises a stored payload: `x.B` of a (context, value) tuple -> (x, "tuple
// field"); or a variable/expression that is an element read (index, range, receive) from a
// container kept in operator/subject state -> (element, "queue element").
func payloadRoot(m *model.Model, p *packages.Package, e ast.Expr, chain []ast.Node, scs map[*ast.FuncLit]*model.SC) (ast.Expr, string) {
	info := p.TypesInfo
	e = ast.Unparen(e)
	if sel, ok := e.(*ast.SelectorExpr); ok && sel.Sel.Name == "B" {
		if isCtxTuple(info.TypeOf(sel.X)) {
			return sel.X, "tuple field"
		}
	}
	id, ok := e.(*ast.Ident)
	if !ok {
		return nil, ""
	}
	v, ok := objOf(info, id).(*types.Var)
	if !ok {
		return nil, ""
	}
	defs := m.Defs[v]
	if len(defs) != 1 {
		return nil, ""
	}
	var container ast.Expr
	switch n := defs[0].Node.(type) {
	case *ast.RangeStmt:
		if vid, ok := n.Value.(*ast.Ident); ok && objOf(info, vid) == v {
			container = n.X
		}
	case *ast.AssignStmt:
		if defs[0].Expr != nil {
			switch x := ast.Unparen(defs[0].Expr).(type) {
			case *ast.IndexExpr:
				container = x.X
			case *ast.UnaryExpr:
				if x.Op.String() == "<-" {
					container = x.X
				}
			}
		}
	}
	if container == nil {
		return nil, ""
	}
	// the container must be operator/subject state: a struct field, or a variable declared in a
	// subscribe closure's own body (not a parameter, not a slot-local)
	switch cx := ast.Unparen(container).(type) {
	case *ast.SelectorExpr:
		if s, ok := info.Selections[cx]; !ok || s.Kind() != types.FieldVal {
			return nil, ""
		}
	case *ast.Ident:
		cv, ok := objOf(info, cx).(*types.Var)
		if !ok {
			return nil, ""
		}
		stateful := false
		for _, fn := range chain {
			if l, ok := fn.(*ast.FuncLit); ok && scs[l] != nil {
				for dv := range directLocals(info, l) {
					if dv == cv {
						stateful = true
					}
				}
			}
		}
		// a queue is built by the operator (make / literal / append), not a range variable over an argument
		built := false
		for _, d := range m.Defs[cv] {
			switch x := ast.Unparen(d.Expr).(type) {
			case *ast.CompositeLit:
				built = true
			case *ast.CallExpr:
				if id, ok := ast.Unparen(x.Fun).(*ast.Ident); ok && (id.Name == "make" || id.Name == "append") {
					built = true
				}
			}
		}
		if !built {
			stateful = false
		}
		if !stateful {
			return nil, ""
		}
	default:
		return nil, ""
	}
	// a tuple-typed element is handled through its .B field at the use site
	if isCtxTuple(v.Type()) {
		return nil, ""
	}
	return e, "queue element of " + types.ExprString(container)
}

// sameExpr: structurally the same variable / field / index expression.
func sameExpr(info *types.Info, a, b ast.Expr) bool {
	a, b = ast.Unparen(a), ast.Unparen(b)
	switch x := a.(type) {
	case *ast.Ident:
		y, ok := b.(*ast.Ident)
		return ok && objOf(info, x) != nil && objOf(info, x) == objOf(info, y)
	case *ast.SelectorExpr:
		y, ok := b.(*ast.SelectorExpr)
		return ok && x.Sel.Name == y.Sel.Name && sameExpr(info, x.X, y.X)
	case *ast.IndexExpr:
		y, ok := b.(*ast.IndexExpr)
		return ok && sameExpr(info, x.X, y.X) && types.ExprString(x.Index) == types.ExprString(y.Index)
	}
	return false
}

const controlsC09b = `
func verifControlCtxRepaired[T any]() func(Observable[T]) Observable[T] {
	return func(source Observable[T]) Observable[T] {
		return NewUnsafeObservableWithContext(func(subscriberCtx context.Context, destination Observer[T]) Teardown {
			var last lo.Tuple2[context.Context, T]
			hasValue := false
			sub := source.SubscribeWithContext(subscriberCtx, NewObserverWithContext(
				func(ctx context.Context, value T) { last = lo.T2(ctx, value); hasValue = true },
				destination.ErrorWithContext,
				func(ctx context.Context) {
					if hasValue {
						destination.NextWithContext(ctx, last.B)
					}
					destination.CompleteWithContext(ctx)
				}))
			return sub.Unsubscribe
		})
	}
}
`

// inUnsetBranch: the call lies on the branch of `if F` / `if !F` on which the companion flag F
// of the tuple variable root still has its "nothing stored" value. F is a boolean variable that
// is assigned a constant in every block where root is assigned; that constant is the "stored" value.
func inUnsetBranch(m *model.Model, p *packages.Package, call ast.Node, root ast.Expr) bool {
	info := p.TypesInfo
	id, ok := ast.Unparen(root).(*ast.Ident)
	if !ok {
		return false
	}
	v := objOf(info, id)
	stored := map[types.Object]bool{} // flag -> value it has once something is stored
	for _, d := range m.Defs[v] {
		blk := enclosingBlock(m, p, d.Node)
		if blk == nil {
			continue
		}
		for _, st := range blk.List {
			as, ok := st.(*ast.AssignStmt)
			if !ok || len(as.Lhs) != 1 || len(as.Rhs) != 1 {
				continue
			}
			fid, ok := as.Lhs[0].(*ast.Ident)
			if !ok {
				continue
			}
			tv, ok := info.Types[as.Rhs[0]]
			if !ok || tv.Value == nil {
				continue
			}
			if s := tv.Value.String(); s == "true" || s == "false" {
				stored[objOf(info, fid)] = s == "true"
			}
		}
	}
	if len(stored) == 0 {
		return false
	}
	for c := call; c != nil; c = m.Parent(p, c) {
		ifs, ok := m.Parent(p, c).(*ast.IfStmt)
		if !ok {
			continue
		}
		cond := ast.Unparen(ifs.Cond)
		neg := false
		if u, ok := cond.(*ast.UnaryExpr); ok && u.Op.String() == "!" {
			neg = true
			cond = ast.Unparen(u.X)
		}
		fid, ok := cond.(*ast.Ident)
		if !ok {
			continue
		}
		sv, has := stored[objOf(info, fid)]
		if !has {
			continue
		}
		// value of the flag on this branch
		var flagVal bool
		switch c {
		case ast.Node(ifs.Body):
			flagVal = !neg
		case ifs.Else:
			flagVal = neg
		default:
			continue
		}
		if flagVal != sv {
			return true
		}
	}
	return false
}

// DEAD-CONTEXT-STORE: a derived context that is computed and then not passed on.
func ruleDeadContextStore() check.Rule {
	return check.Rule{
		Name:        "DEAD-CONTEXT-STORE",
		Doc:         "inside a subscribe closure, every assignment of a derived context (context.With*(...) or the result of a context-aware user callback) to a local context variable is read afterwards on some path before the function ends or the variable is overwritten: a derived context that is never used means the notification that follows (or preceded it) carries the underived one, so the value the operator was asked to attach is not visible downstream",
		NeedControl: true,
		Run: func(c *check.Ctx) {
			m := c.M
			for _, sc := range m.SCs {
				armed := c.Armed(sc)
				info := sc.Pkg.TypesInfo
				n := 0
				var fns []ast.Node
				ast.Inspect(sc.Lit, func(x ast.Node) bool {
					if l, ok := x.(*ast.FuncLit); ok {
						fns = append(fns, l)
					}
					return true
				})
				for _, fn := range fns {
					body := funcBody(fn)
					if body == nil {
						continue
					}
					g := cfg.New(body, func(*ast.CallExpr) bool { return true })
					for _, b := range g.Blocks {
						for i, nd := range b.Nodes {
							as, ok := nd.(*ast.AssignStmt)
							if !ok || len(as.Rhs) == 0 {
								continue
							}
							if _, isCall := ast.Unparen(as.Rhs[0]).(*ast.CallExpr); !isCall {
								continue
							}
							for _, l := range as.Lhs {
								id, ok := l.(*ast.Ident)
								if !ok || id.Name == "_" {
									continue
								}
								v, ok := objOf(info, id).(*types.Var)
								if !ok || !model.IsContext(v.Type()) {
									continue
								}
								// only variables local to this function (captured ones outlive it)
								if !(fn.Pos() <= v.Pos() && v.Pos() <= fn.End()) {
									continue
								}
								n++
								c.Inc("derived_context_stores", 1)
								key := fmt.Sprintf("%s/ctx-store-%s#%d", sc, v.Name(), n)
								if readAfter(info, g, b, i, v) {
									if armed {
										c.OK(key, as.Pos(), "the derived context is used afterwards")
									}
								} else {
									c.Report(armed, key, as.Pos(), "the context assigned to %s here is never read afterwards: the derived context is computed but what is passed on is the underived one (or was already sent)", v.Name())
								}
							}
						}
					}
				}
			}
		},
	}
}

// readAfter: some path from just after node i of block b reaches a read of v before v is overwritten.
func readAfter(info *types.Info, g *cfg.CFG, b *cfg.Block, i int, v *types.Var) bool {
	reads := func(n ast.Node) (read, overwritten bool) {
		// an assignment whose only mention of v is as a plain left-hand side overwrites it
		if as, ok := n.(*ast.AssignStmt); ok {
			for _, r := range as.Rhs {
				if mentionsVar(info, r, v) {
					return true, false
				}
			}
			for _, l := range as.Lhs {
				if id, ok := l.(*ast.Ident); ok && objOf(info, id) == types.Object(v) {
					return false, true
				}
				if mentionsVar(info, l, v) {
					return true, false
				}
			}
			return false, false
		}
		return mentionsVar(info, n, v), false
	}
	seen := map[int32]bool{}
	found := false
	var dfs func(bl *cfg.Block, from int)
	dfs = func(bl *cfg.Block, from int) {
		if found {
			return
		}
		for _, n := range bl.Nodes[from:] {
			r, ow := reads(n)
			if r {
				found = true
				return
			}
			if ow {
				return
			}
		}
		for _, sc := range bl.Succs {
			if !seen[sc.Index] {
				seen[sc.Index] = true
				dfs(sc, 0)
			}
		}
	}
	dfs(b, i+1)
	return found
}

func mentionsVar(info *types.Info, n ast.Node, v *types.Var) bool {
	found := false
	ast.Inspect(n, func(x ast.Node) bool {
		if id, ok := x.(*ast.Ident); ok && objOf(info, id) == types.Object(v) {
			found = true
		}
		return !found
	})
	return found
}

// SLOT-CTX-ARGUMENT: inside a source callback the context to pass on is the one the callback received.
func ruleSlotCtxArgument() check.Rule {
	return check.Rule{
		Name:        "SLOT-CTX-ARGUMENT",
		Doc:         "inside the notification callbacks of an upstream observer (and the local closures they call with their own context), the subscription-time context of the operator is never handed to a user callback, a local closure, a helper or a notification as its context argument - only a new upstream subscription may be given it: every such argument must be (derived from) the context the callback received, otherwise values attached upstream per notification are invisible to the predicate / projection / downstream",
		NeedControl: true,
		Run: func(c *check.Ctx) {
			m := c.M
			for _, sc := range m.SCs {
				if sc.Ctx0 == nil {
					continue
				}
				armed := c.Armed(sc)
				info := sc.Pkg.TypesInfo
				cnt := 0
				seenLit := map[*ast.FuncLit]bool{}
				for _, s := range sc.SubSites {
					if s.Observer == nil || s.Observer.Kind != model.AVObserver {
						continue
					}
					for k := 0; k < 3; k++ {
						sl := s.Observer.Slots[k]
						if sl == nil || sl.Lit == nil || seenLit[sl.Lit] {
							continue
						}
						seenLit[sl.Lit] = true
						c.Inc("slot_literals", 1)
						ast.Inspect(sl.Lit.Body, func(x ast.Node) bool {
							call, ok := x.(*ast.CallExpr)
							if !ok {
								return true
							}
							// a new upstream subscription is subscribed with the subscriber context by definition
							if name, isObs := m.Obj.ObservableMethods[model.Callee(info, call)]; isObs && (name == "SubscribeWithContext" || name == "ConnectWithContext") {
								return true
							}
							for _, a := range call.Args {
								if t := info.TypeOf(a); t == nil || !model.IsContext(t) {
									continue
								}
								if reachesOnlySubscriberCtx(m, sc.Pkg, a, call, sc.Ctx0) {
									cnt++
									key := fmt.Sprintf("%s/%s/ctx-argument#%d", sc, model.SlotNames[k], cnt)
									c.Report(armed, key, a.Pos(), "the %s callback passes the subscription-time context %s on as a context argument instead of (a context derived from) the one it received: what was attached upstream per notification is not visible to the callee", model.SlotNames[k], sc.Ctx0.Name())
								}
							}
							return true
						})
					}
				}
				if cnt == 0 && armed && len(seenLit) > 0 {
					c.OK(sc.String()+"/slot-ctx-arguments", sc.Lit.Pos(), "no callback of an upstream observer passes the subscription-time context on")
				}
			}
		},
	}
}

// CALLBACK-CTX-USED: a context returned by a call is the one to pass on.
func ruleCallbackCtxUsed() check.Rule {
	return check.Rule{
		Name: "CALLBACK-CTX-USED",
		Doc:  "where a call made by an operator (a context-aware user callback, CollectWithContext, a helper; not the context package itself) returns a context that is bound to a variable, every notification sent to the destination from the same function at a point all of whose paths pass that binding carries that variable (or a context derived from it): a context-aware predicate / projection may attach values for downstream, and the context returned by CollectWithContext is the one the stream ended with",
		Run: func(c *check.Ctx) {
			m := c.M
			n := 0
			for _, sc := range m.SCs {
				armed := c.Armed(sc)
				info := sc.Pkg.TypesInfo
				var fns []ast.Node
				ast.Inspect(sc.Lit, func(x ast.Node) bool {
					if l, ok := x.(*ast.FuncLit); ok {
						fns = append(fns, l)
					}
					return true
				})
				for _, fn := range fns {
					body := funcBody(fn)
					if body == nil {
						continue
					}
					ast.Inspect(body, func(x ast.Node) bool {
						if l, ok := x.(*ast.FuncLit); ok && ast.Node(l) != fn {
							return false
						}
						as, ok := x.(*ast.AssignStmt)
						if !ok || len(as.Rhs) != 1 {
							return true
						}
						call, ok := ast.Unparen(as.Rhs[0]).(*ast.CallExpr)
						if !ok {
							return true
						}
						if cl := model.Callee(info, call); cl != nil && cl.Pkg() != nil && cl.Pkg().Path() == "context" {
							return true
						}
						for _, l := range as.Lhs {
							id, ok := l.(*ast.Ident)
							if !ok || id.Name == "_" {
								continue
							}
							v, ok := objOf(info, id).(*types.Var)
							if !ok || !model.IsContext(v.Type()) {
								continue
							}
							for _, e := range sc.Emits {
								if !e.ToDest || e.Forwarder || e.CtxArg == nil || e.Pkg != sc.Pkg || innermostFunc(m, e.Pkg, e.Node) != fn || e.Pos < as.Pos() {
									continue
								}
								if !pathsPassBefore(body, e.Node, func(nd ast.Node) bool { return nd.Pos() <= as.Pos() && as.End() <= nd.End() }) {
									continue
								}
								n++
								key := e.Key + "/uses-returned-ctx"
								root := ast.Unparen(e.CtxArg)
								for depth := 0; depth < 6; depth++ {
									c2, isCall := root.(*ast.CallExpr)
									if !isCall {
										break
									}
									cl := model.Callee(info, c2)
									if cl == nil || cl.Pkg() == nil || cl.Pkg().Path() != "context" || !strings.HasPrefix(cl.Name(), "With") || len(c2.Args) == 0 {
										break
									}
									root = ast.Unparen(c2.Args[0])
								}
								rid, isID := root.(*ast.Ident)
								if isID && objOf(info, rid) == types.Object(v) {
									if armed {
										c.OK(key, e.Pos, "carries the context returned by %s", types.ExprString(call.Fun))
									}
								} else {
									c.Report(armed, key, e.Pos, "the %s notification that follows the call of %s carries %s instead of the context that call returned (%s): values attached by the callee (or carried by the collected stream) are lost", model.SlotNames[e.Kind], types.ExprString(call.Fun), types.ExprString(e.CtxArg), v.Name())
								}
							}
						}
						return true
					})
				}
			}
			// re-subscribing loops: when a user callback hands back the context for the next pass, the pass is subscribed with it
			for _, sc := range m.SCs {
				if sc.Ctx0 == nil {
					continue
				}
				info := sc.Pkg.TypesInfo
				passCtx := false
				for _, u := range sc.UserCalls {
					if as, ok := m.Parent(u.Pkg, u.Call).(*ast.AssignStmt); ok {
						for _, l := range as.Lhs {
							if id, ok := l.(*ast.Ident); ok {
								if v, ok := objOf(info, id).(*types.Var); ok && model.IsContext(v.Type()) {
									passCtx = true
								}
							}
						}
					}
				}
				if !passCtx {
					continue
				}
				for _, s := range sc.SubSites {
					if !s.InLoop || s.CtxArg == nil {
						continue
					}
					n++
					key := s.Key + "/pass-ctx"
					if reachesOnlySubscriberCtx(m, s.Pkg, s.CtxArg, s.Call, sc.Ctx0) {
						c.Report(c.Armed(sc), key, s.Pos, "every pass of this loop is subscribed with the subscription-time context %s although a user callback returns the context for the next pass: from the second pass on neither the source nor its notifications see what the callback attached", sc.Ctx0.Name())
					} else if c.Armed(sc) {
						c.OK(key, s.Pos, "the pass is subscribed with the loop's own context variable")
					}
				}
			}
			c.Inc("returned_ctx_emissions", n)
		},
	}
}

// contextRewriters: operators whose definition is to replace / extend the context of every notification kind
// (instances confirmed by reading and frozen; ContextWithTimeout/Deadline/ContextMap rewrite values only, by design).
var contextRewriters = map[string]string{
	"ro.ContextWithValue": "attaches (k, v) to the context of values, errors and completion alike",
	"ro.ContextReset":     "replaces the context of values, errors and completion alike",
}

// CONTEXT-REWRITER-UNIFORM
func ruleContextRewriterUniform() check.Rule {
	return check.Rule{
		Name:        "CONTEXT-REWRITER-UNIFORM",
		FamilyShape: true,
		Doc:         "the operators whose definition is to rewrite the context of every notification (ContextWithValue, ContextReset) do so in all three callbacks: none of them forwards a notification with the unmodified context it received (a method value of the destination, or the slot's own context parameter without a reaching re-assignment)",
		Run: func(c *check.Ctx) {
			m := c.M
			n := 0
			for name, why := range contextRewriters {
				sc := m.SCByName(name)
				if sc == nil {
					c.Info(name+"/rewrites", m.Obj.Ro.Syntax[0].Pos(), "operator not found (family-shape rule: no alarm)")
					continue
				}
				info := sc.Pkg.TypesInfo
				for _, e := range sc.Emits {
					if !e.ToDest || e.Ctx == nil || e.Ctx.Kind != model.KSrc {
						continue
					}
					n++
					key := e.Key + "/rewrites-ctx"
					if e.Forwarder {
						c.Violation(key, e.Pos, "%s %s, but its %s callback is the destination's own method: that notification keeps the context it arrived with", name, why, model.SlotNames[e.Kind])
						continue
					}
					// the operand must not be the slot's context parameter as received
					unchanged := false
					if id, ok := ast.Unparen(e.CtxArg).(*ast.Ident); ok {
						if v, ok := objOf(info, id).(*types.Var); ok {
							fn := innermostFunc(m, e.Pkg, e.Node)
							if ft := funcType(fn); ft != nil {
								for _, pv := range model.FlattenParams(info, ft.Params) {
									if pv == v {
										// a parameter: is there a reaching re-assignment before the emission?
										reassigned := false
										for _, d := range m.Defs[v] {
											if d.Node != nil && d.Node.Pos() < e.Node.Pos() && innermostFunc(m, e.Pkg, d.Node) == fn {
												dn := d.Node
												if pathsPassBefore(funcBody(fn), e.Node, func(nd ast.Node) bool { return nd.Pos() <= dn.Pos() && dn.End() <= nd.End() }) {
													reassigned = true
												}
											}
										}
										unchanged = !reassigned
									}
								}
							}
						}
					}
					if unchanged {
						c.Violation(key, e.Pos, "%s %s, but this %s notification is forwarded with the context exactly as it was received", name, why, model.SlotNames[e.Kind])
					} else {
						c.OK(key, e.Pos, "the %s notification carries a rewritten context", model.SlotNames[e.Kind])
					}
				}
			}
			c.Inc("context_rewriter_emissions", n)
			c.Note("CONTEXT-REWRITER-UNIFORM recognised=%d emissions", n)
		},
	}
}

// inSourceSlot: the nearest enclosing non-body context is a source slot.
func inSourceSlot(cx *model.Ctx) bool {
	for ; cx != nil; cx = cx.Parent {
		if cx.Kind == model.KBody {
			continue
		}
		return cx.Kind == model.KSrc
	}
	return false
}

// reachesOnlySubscriberCtx: the context operand e used at node `at` is, on every path, the subscriber context ctx0
// itself or context.With*(...) of it. For a variable the unique reaching definition is used when one assignment in the
// same function lies on every path to the use and no other assignment follows it; otherwise the answer is false
// (flow-insensitive provenance stays in charge).
func reachesOnlySubscriberCtx(m *model.Model, p *packages.Package, e ast.Expr, at ast.Node, ctx0 *types.Var) bool {
	info := p.TypesInfo
	for depth := 0; depth < 8; depth++ {
		switch x := ast.Unparen(e).(type) {
		case *ast.CallExpr:
			cl := model.Callee(info, x)
			if cl != nil && cl.Pkg() != nil && cl.Pkg().Path() == "context" && strings.HasPrefix(cl.Name(), "With") && len(x.Args) > 0 {
				e = x.Args[0]
				continue
			}
			return false
		case *ast.Ident:
			v, ok := objOf(info, x).(*types.Var)
			if !ok {
				return false
			}
			if v == ctx0 && len(m.Defs[v]) == 0 {
				return true
			}
			fn := innermostFunc(m, p, at)
			body := funcBody(fn)
			if body == nil {
				return false
			}
			// a variable that is also assigned in another function (a callback of the operator) may hold something else
			for i := range m.Defs[v] {
				if d := m.Defs[v][i]; d.Node != nil && innermostFunc(m, p, d.Node) != fn {
					return false
				}
			}
			// assignments to v inside fn, before the use
			var last *model.DefSite
			for i := range m.Defs[v] {
				d := &m.Defs[v][i]
				if d.Node == nil || d.Expr == nil || !(body.Pos() <= d.Node.Pos() && d.Node.End() <= body.End()) || d.Node.Pos() >= at.Pos() {
					continue
				}
				if innermostFunc(m, p, d.Node) != fn {
					continue
				}
				if last == nil || d.Node.Pos() > last.Node.Pos() {
					last = d
				}
			}
			if last == nil {
				return false
			}
			dn := last.Node
			if !pathsPassBefore(body, at, func(n ast.Node) bool { return n.Pos() <= dn.Pos() && dn.End() <= n.End() }) {
				return false
			}
			e, at = last.Expr, last.Node
			continue
		default:
			return false
		}
	}
	return false
}

// SLOT-CTX-STABLE: a context parameter rebound on one branch must not leak into what follows the branch.
func ruleSlotCtxStable() check.Rule {
	return check.Rule{
		Name: "SLOT-CTX-STABLE",
		Doc:  "inside a callback of an operator, when the callback's own context parameter is re-bound from a call that is not a function of the context package (`ctx = contextOf(ctx)`, `ctx = project(ctx, v)` …) on some paths only, no notification reachable both through and around the re-binding carries that parameter: the context obtained for one notification (the fallback value's, the projected item's) would otherwise replace the received context of a later notification of the same invocation (the Complete that follows) depending on an unrelated branch, and values attached upstream are lost for it",
		Run: func(c *check.Ctx) {
			m := c.M
			n := 0
			for _, sc := range m.SCs {
				armed := c.Armed(sc)
				info := sc.Pkg.TypesInfo
				var fns []*ast.FuncLit
				ast.Inspect(sc.Lit, func(x ast.Node) bool {
					if l, ok := x.(*ast.FuncLit); ok {
						fns = append(fns, l)
					}
					return true
				})
				for _, fn := range fns {
					params := map[types.Object]bool{}
					if fn.Type.Params != nil {
						for _, f := range fn.Type.Params.List {
							for _, id := range f.Names {
								if v, ok := info.Defs[id].(*types.Var); ok && model.IsContext(v.Type()) {
									params[v] = true
								}
							}
						}
					}
					if len(params) == 0 {
						continue
					}
					ast.Inspect(fn.Body, func(x ast.Node) bool {
						if l, ok := x.(*ast.FuncLit); ok && l != fn {
							return false
						}
						as, ok := x.(*ast.AssignStmt)
						if !ok || as.Tok == token.DEFINE {
							return true
						}
						for i, l := range as.Lhs {
							id, ok := l.(*ast.Ident)
							if !ok || !params[objOf(info, id)] {
								continue
							}
							if len(as.Rhs) == len(as.Lhs) {
								if call, ok := ast.Unparen(as.Rhs[i]).(*ast.CallExpr); ok {
									if cl := model.Callee(info, call); cl != nil && cl.Pkg() != nil && cl.Pkg().Path() == "context" {
										continue // an enrichment of the same context
									}
								}
							}
							v := objOf(info, id)
							isAs := func(nd ast.Node) bool { return nd.Pos() <= as.Pos() && as.End() <= nd.End() }
							for _, e := range sc.Emits {
								if !e.ToDest || e.CtxArg == nil || e.Pkg != sc.Pkg || innermostFunc(m, e.Pkg, e.Node) != ast.Node(fn) {
									continue
								}
								rid, _ := rootIdent(e.CtxArg)
								if rid == nil || objOf(info, rid) != v {
									continue
								}
								if !reachableAfter(fn.Body, as, e.Node) {
									continue
								}
								n++
								key := fmt.Sprintf("%s/stable-ctx", e.Key)
								if pathsPassBefore(fn.Body, e.Node, isAs) {
									if armed {
										c.OK(key, e.Pos, "every path to this notification re-binds the context parameter the same way")
									}
									continue
								}
								c.Report(armed, key, e.Pos, "this %s notification carries %s, which is re-bound at %s on some of the paths that reach it only: on those paths it gets the context obtained for another notification instead of the one this callback received", model.SlotNames[e.Kind], v.Name(), m.Prog.Rel(as.Pos()))
							}
						}
						return true
					})
				}
			}
			c.Inc("rebound_ctx_uses", n)
		},
	}
}

// TERMINAL-CTX-CAPTURED: both terminal callbacks record the last context.
func ruleTerminalCtxCaptured() check.Rule {
	return check.Rule{
		Name:        "TERMINAL-CTX-CAPTURED",
		NeedControl: true,
		Doc:         "sibling cross-check on every observer built from three literals: a context-typed variable of the enclosing function that one terminal callback (error / complete) assigns from its context parameter is assigned by the other terminal callback too, when the variable is declared without a value and read outside the callbacks (CollectWithContext returns it; a sort operator forwards it with the collected error): a stream that ends with an error otherwise hands the zero (nil) context on",
		Run: func(c *check.Ctx) {
			m := c.M
			n := 0
			for _, p := range m.Pkgs {
				armed := c.ArmedPkg(p.PkgPath)
				info := p.TypesInfo
				for _, f := range p.Syntax {
					ast.Inspect(f, func(x ast.Node) bool {
						call, ok := x.(*ast.CallExpr)
						if !ok || len(call.Args) != 3 {
							return true
						}
						cl := model.Callee(info, call)
						if cl == nil || cl.Pkg() == nil || cl.Pkg().Path() != "github.com/samber/ro" || cl.Name() != "NewObserverWithContext" {
							return true
						}
						errLit, ok1 := ast.Unparen(call.Args[1]).(*ast.FuncLit)
						cmpLit, ok2 := ast.Unparen(call.Args[2]).(*ast.FuncLit)
						if !ok1 || !ok2 {
							return true
						}
						captured := func(lit *ast.FuncLit) map[*types.Var]bool {
							out := map[*types.Var]bool{}
							var param types.Object
							if lit.Type.Params != nil && len(lit.Type.Params.List) > 0 && len(lit.Type.Params.List[0].Names) > 0 {
								param = info.Defs[lit.Type.Params.List[0].Names[0]]
							}
							ast.Inspect(lit.Body, func(y ast.Node) bool {
								as, ok := y.(*ast.AssignStmt)
								if !ok || as.Tok == token.DEFINE || len(as.Lhs) != len(as.Rhs) {
									return true
								}
								for i, l := range as.Lhs {
									id, ok := l.(*ast.Ident)
									if !ok {
										continue
									}
									v, ok := objOf(info, id).(*types.Var)
									if !ok || !model.IsContext(v.Type()) || (v.Pos() >= lit.Pos() && v.Pos() < lit.End()) {
										continue
									}
									if rid, ok := ast.Unparen(as.Rhs[i]).(*ast.Ident); ok && param != nil && objOf(info, rid) == param {
										out[v] = true
									}
								}
								return true
							})
							return out
						}
						ce, cc := captured(errLit), captured(cmpLit)
						if len(ce) == 0 && len(cc) == 0 {
							return true
						}
						cp := newCtxProvLite(m, p)
						for _, pair := range []struct {
							have, other map[*types.Var]bool
							missing     *ast.FuncLit
							name        string
						}{{cc, ce, errLit, "error"}, {ce, cc, cmpLit, "complete"}} {
							for v := range pair.have {
								if !cp.zeroDeclared(v) || !cp.readOutside(v, call) {
									continue
								}
								n++
								key := fmt.Sprintf("%s/%s/captured-in-%s", chainKeyOf(m, p, call), v.Name(), pair.name)
								if pair.other[v] {
									if armed {
										c.OK(key, pair.missing.Pos(), "both terminal callbacks record their context in "+v.Name())
									}
								} else {
									c.Report(armed, key, pair.missing.Pos(), "the %s callback does not record its context in %s although the other terminal callback does and %s (declared without a value) is read after the stream ended: a stream that ends this way hands a nil context on", pair.name, v.Name(), v.Name())
								}
							}
						}
						return true
					})
				}
			}
			c.Inc("terminal_ctx_captures", n)
		},
	}
}

type ctxProvLite struct {
	m *model.Model
	p *packages.Package
}

func newCtxProvLite(m *model.Model, p *packages.Package) *ctxProvLite { return &ctxProvLite{m, p} }

// zeroDeclared: `var v context.Context` without a value.
func (cp *ctxProvLite) zeroDeclared(v *types.Var) bool {
	found := false
	for _, f := range cp.p.Syntax {
		if f.Pos() <= v.Pos() && v.Pos() < f.End() {
			ast.Inspect(f, func(x ast.Node) bool {
				if vs, ok := x.(*ast.ValueSpec); ok && len(vs.Values) == 0 {
					for _, id := range vs.Names {
						if cp.p.TypesInfo.Defs[id] == types.Object(v) {
							found = true
						}
					}
				}
				return !found
			})
		}
	}
	return found
}

// readOutside: v is read somewhere outside the observer construction call.
func (cp *ctxProvLite) readOutside(v *types.Var, call *ast.CallExpr) bool {
	info := cp.p.TypesInfo
	found := false
	for _, f := range cp.p.Syntax {
		if f.Pos() <= v.Pos() && v.Pos() < f.End() {
			ast.Inspect(f, func(x ast.Node) bool {
				if as, ok := x.(*ast.AssignStmt); ok {
					// the left-hand sides are writes
					for _, r := range as.Rhs {
						ast.Inspect(r, func(y ast.Node) bool {
							if id, ok := y.(*ast.Ident); ok && info.Uses[id] == types.Object(v) && (id.Pos() < call.Pos() || id.Pos() >= call.End()) {
								found = true
							}
							return true
						})
					}
					for _, l := range as.Lhs {
						if _, isId := l.(*ast.Ident); !isId {
							ast.Inspect(l, func(y ast.Node) bool {
								if id, ok := y.(*ast.Ident); ok && info.Uses[id] == types.Object(v) && (id.Pos() < call.Pos() || id.Pos() >= call.End()) {
									found = true
								}
								return true
							})
						}
					}
					return false
				}
				if id, ok := x.(*ast.Ident); ok && info.Uses[id] == types.Object(v) && (id.Pos() < call.Pos() || id.Pos() >= call.End()) {
					found = true
				}
				return true
			})
		}
	}
	return found
}

// chainKeyOf names the function chain that contains n.
func chainKeyOf(m *model.Model, p *packages.Package, n ast.Node) string {
	chain := m.EnclosingFuncs(p, n)
	return chainKey(m, p, chain, scLits(m))
}

const controlsTerminalCtx = `
func verifControlCollectCtx[T any](ctx context.Context, obs Observable[T]) context.Context {
	var lastCtx context.Context
	sub := obs.SubscribeWithContext(ctx, NewObserverWithContext(
		func(ctx context.Context, value T) {},
		func(_ context.Context, err error) {},
		func(ctx context.Context) { lastCtx = ctx },
	))
	sub.Wait()
	return lastCtx
}
`

// CTX-TUPLE-WHOLE: a stored (context, value) pair is replaced as a whole.
func ruleCtxTupleWhole() check.Rule {
	return check.Rule{
		Name:        "CTX-TUPLE-WHOLE",
		NeedControl: true,
		Doc:         "a stored lo.Tuple2[context.Context, T] (a buffer slot, a latest-value cell, an accumulator) is never updated by halves: an assignment to its value field .B is accompanied, in the same block, by an assignment to the context field .A of the same tuple (or the tuple is replaced as a whole): a slot whose value is refreshed while its context stays is later emitted with the context of an older notification",
		Run: func(c *check.Ctx) {
			m := c.M
			scs := scLits(m)
			n := 0
			for _, p := range m.Pkgs {
				armed := c.ArmedPkg(p.PkgPath)
				info := p.TypesInfo
				for _, f := range p.Syntax {
					ast.Inspect(f, func(x ast.Node) bool {
						blk, ok := x.(*ast.BlockStmt)
						if !ok {
							return true
						}
						// half writes in this block (direct statements only)
						type hw struct {
							tuple ast.Expr
							field string
							pos   token.Pos
						}
						var writes []hw
						for _, st := range blk.List {
							as, ok := st.(*ast.AssignStmt)
							if !ok {
								continue
							}
							for _, l := range as.Lhs {
								sel, ok := ast.Unparen(l).(*ast.SelectorExpr)
								if !ok || (sel.Sel.Name != "A" && sel.Sel.Name != "B") {
									continue
								}
								if t := info.TypeOf(sel.X); t == nil || !isCtxTuple(t) {
									continue
								}
								writes = append(writes, hw{sel.X, sel.Sel.Name, as.Pos()})
							}
						}
						for i, w := range writes {
							if w.field != "B" {
								continue
							}
							n++
							paired := false
							for j, o := range writes {
								if i != j && o.field == "A" && sameExpr(info, w.tuple, o.tuple) {
									paired = true
								}
							}
							key := fmt.Sprintf("%s/half-update#%d", chainKey(m, p, m.EnclosingFuncs(p, blk), scs), n)
							if paired {
								if armed {
									c.OK(key, w.pos, "value and context of the stored pair are written together")
								}
							} else {
								c.Report(armed, key, w.pos, "the value half of the stored (context, value) pair %s is replaced while its context half is kept: the pair is later emitted with the context of an older notification", types.ExprString(w.tuple))
							}
						}
						return true
					})
				}
			}
			c.Inc("tuple_value_writes", n)
		},
	}
}

const controlsCtxTupleWhole = `
func verifControlTupleHalf[T any](buffer []lo.Tuple2[context.Context, T], i int, ctx context.Context, v T) {
	buffer[i].B = v
}
`

// TERMINAL-CTX-FRESH: a terminal notification carries the context it was signalled with.
func ruleTerminalCtxFresh() check.Rule {
	return check.Rule{
		Name:        "TERMINAL-CTX-FRESH",
		NeedControl: true,
		Doc:         "(1) in the error / complete callback of the upstream observer of a single-source operator, the Error / Complete notification sent to the destination carries that callback's own context parameter (or a context derived from it in the callback), not a context stored from an earlier notification: values attached to the terminal notification upstream are otherwise dropped (Last completes with the context of its last value). (2) an Error re-issued from the subscribe function after an awaited attempt, whose error value was recorded by the attempt's error callback, carries a context recorded by that callback as well, not the subscriber context (Retry's final error loses what was attached between the source and Retry)",
		Run: func(c *check.Ctx) {
			m := c.M
			n := 0
			for _, sc := range m.SCs {
				if !c.Armed(sc) && !check.IsControlName(sc.Name) {
					continue
				}
				info := sc.Pkg.TypesInfo
				// variables written inside error / complete slots, per slot literal
				for _, e := range sc.Emits {
					if !e.ToDest || e.Kind == model.EmitNext || e.Forwarder || e.CtxArg == nil || e.Ctx == nil {
						continue
					}
					switch {
					case e.Ctx.Kind == model.KSrc && (e.Slot == model.SlotError || e.Slot == model.SlotComplete):
						lit, ok := innermostFunc(m, e.Pkg, e.Node).(*ast.FuncLit)
						if !ok || e.Pkg != sc.Pkg {
							continue
						}
						// single-source operators only: where several sources end jointly (MergeAll completes with the
						// outer source's completion context when the last inner one completes) the terminal is the
						// operator's own event and which stored context it carries is its definition
						if len(sc.SubSites) != 1 {
							continue
						}
						// the emission stands in the callback literal itself (not in a helper or closure it calls)
						isSlot := false
						if e.Ctx.Site != nil && e.Ctx.Site.Observer != nil && e.Ctx.Site.Observer.Kind == model.AVObserver {
							if av := e.Ctx.Site.Observer.Slots[e.Slot]; av != nil && av.Lit == lit {
								isSlot = true
							}
						}
						if !isSlot {
							continue
						}
						var ctxParam types.Object
						for _, pv := range model.FlattenParams(info, lit.Type.Params) {
							if pv != nil && model.IsContext(pv.Type()) {
								ctxParam = pv
							}
						}
						if ctxParam == nil {
							continue
						}
						n++
						key := e.Key + "/own-ctx"
						if why, isRewriter := contextRewriters[sc.String()]; isRewriter {
							if c.Armed(sc) {
								c.OK(key, e.Pos, "context rewriter by definition: %s", why)
							}
							continue
						}
						if ctxDerivesFrom(m, info, e.CtxArg, ctxParam, 3) {
							if c.Armed(sc) {
								c.OK(key, e.Pos, "carries the callback's own context")
							}
						} else {
							c.Report(c.Armed(sc), key, e.Pos, "the %s notification is sent with %s instead of the context this callback received: what upstream attached to the terminal notification is not visible downstream", model.SlotNames[e.Kind], types.ExprString(e.CtxArg))
						}
					case e.Ctx.Kind == model.KBody && e.Kind == model.EmitError && len(e.Args) >= 1:
						// the error value is a variable that an error callback of an awaited source assigns
						id, ok := ast.Unparen(e.Args[len(e.Args)-1]).(*ast.Ident)
						if !ok {
							continue
						}
						ev, ok := objOf(info, id).(*types.Var)
						if !ok {
							continue
						}
						var slotLit *ast.FuncLit
						for _, d := range m.Defs[ev] {
							if l, ok := innermostFunc(m, e.Pkg, d.Node).(*ast.FuncLit); ok && l != sc.Lit {
								for _, site := range sc.SubSites {
									if site.Observer != nil && site.Observer.Kind == model.AVObserver {
										if av := site.Observer.Slots[model.SlotError]; av != nil && av.Lit == l {
											slotLit = l
										}
									}
								}
							}
						}
						if slotLit == nil {
							continue
						}
						n++
						key := e.Key + "/recorded-ctx"
						okCtx := false
						if cid, ok := ast.Unparen(e.CtxArg).(*ast.Ident); ok {
							if cv, ok := objOf(info, cid).(*types.Var); ok {
								for _, d := range m.Defs[cv] {
									if innermostFunc(m, e.Pkg, d.Node) == ast.Node(slotLit) {
										okCtx = true
									}
								}
							}
						}
						if okCtx {
							if c.Armed(sc) {
								c.OK(key, e.Pos, "the re-issued error carries a context recorded with it")
							}
						} else {
							c.Report(c.Armed(sc), key, e.Pos, "the error recorded by the attempt's error callback (%s) is re-issued with %s, not with the context that callback received: values attached to the context between the source and this operator are lost on the Error although every Next carried them", id.Name, types.ExprString(e.CtxArg))
						}
					}
				}
			}
			c.Inc("terminal_ctx_sites", n)
		},
	}
}

// ctxDerivesFrom: e is the parameter, or a local every definition of which mentions it (ctx, key := f(ctx, …);
// context.WithValue(ctx, …)).
func ctxDerivesFrom(m *model.Model, info *types.Info, e ast.Expr, param types.Object, depth int) bool {
	found := false
	ast.Inspect(e, func(x ast.Node) bool {
		id, ok := x.(*ast.Ident)
		if !ok || found {
			return !found
		}
		o := objOf(info, id)
		if o == param {
			found = true
			return false
		}
		if v, ok := o.(*types.Var); ok && depth > 0 && model.IsContext(v.Type()) {
			defs := m.Defs[v]
			all := len(defs) > 0
			for _, d := range defs {
				switch {
				case d.Expr != nil:
					if !ctxDerivesFrom(m, info, d.Expr, param, depth-1) {
						all = false
					}
				default:
					as, ok := d.Node.(*ast.AssignStmt)
					if !ok || len(as.Rhs) != 1 || !ctxDerivesFrom(m, info, as.Rhs[0], param, depth-1) {
						all = false
					}
				}
			}
			if all {
				found = true
			}
		}
		return !found
	})
	return found
}

const controlsTerminalCtxFresh = `
func verifControlStaleTerminalCtx[T any]() func(Observable[T]) Observable[T] {
	return func(source Observable[T]) Observable[T] {
		return NewUnsafeObservableWithContext(func(subscriberCtx context.Context, destination Observer[T]) Teardown {
			lastCtx := subscriberCtx
			sub := source.SubscribeWithContext(subscriberCtx, NewObserverWithContext(
				func(ctx context.Context, value T) {
					lastCtx = ctx
					destination.NextWithContext(ctx, value)
				},
				destination.ErrorWithContext,
				func(ctx context.Context) {
					destination.CompleteWithContext(lastCtx)
				},
			))
			return sub.Unsubscribe
		})
	}
}
`

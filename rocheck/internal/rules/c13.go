package rules

import (
	"fmt"
	"go/ast"
	"go/token"
	"go/types"
	"sort"
	"strings"

	"golang.org/x/tools/go/packages"

	"rocheck/internal/check"
	"rocheck/internal/lockset"
	"rocheck/internal/model"
)

// concurrencySafeTypes: the types of package ro that are documented or evidently designed
// as goroutine-safe.
func concurrencySafeTypes(m *model.Model) []string {
	out := []string{"observerImpl", "subscriberImpl", "subscriptionImpl", "connectableObservableImpl"}
	out = append(out, subjectTypes(m)...)
	sort.Strings(out)
	return out
}

func ruleTypeProtection() check.Rule {
	return check.Rule{
		Name: "CONSISTENT-PROTECTION/types",
		Doc:  "lock-set discipline (Eraser) on the fields of the goroutine-safe types (observer, subscriber, subscription, the five subjects, the connectable observable): every field written after construction is accessed only through sync/atomic, through a concurrency-safe type, or with one common mutex held by all accesses",
		Run: func(c *check.Ctx) {
			db := newLockDB(c.M)
			for _, t := range concurrencySafeTypes(c.M) {
				c.Inc("safe_types", 1)
				guardedFields(c, db, c.M.Obj.Ro, t, true)
			}
		},
	}
}

type varAccess struct {
	node   ast.Node
	write  bool
	atomic bool
	fn     ast.Node
	pkg    *packages.Package
	held   lockset.Set
}

// accessesOf collects the accesses to variables declared directly in root's body, made
// anywhere inside root (nested literals included).
func accessesOf(m *model.Model, p *packages.Package, h *heldDB, root ast.Node, vars map[*types.Var]bool) map[*types.Var][]varAccess {
	info := p.TypesInfo
	out := map[*types.Var][]varAccess{}
	writes := map[*ast.Ident]bool{}
	atomics := map[*ast.Ident]bool{}
	safeCalls := map[*ast.Ident]bool{}
	addrArgs := map[*ast.Ident]bool{}
	markRoot := func(e ast.Expr, into map[*ast.Ident]bool) {
		if id, _ := rootIdent(e); id != nil {
			into[id] = true
		}
	}
	ast.Inspect(root, func(n ast.Node) bool {
		switch x := n.(type) {
		case *ast.AssignStmt:
			for _, l := range x.Lhs {
				if x.Tok == token.DEFINE {
					if id, ok := l.(*ast.Ident); ok && info.Defs[id] != nil {
						continue
					}
				}
				markRoot(l, writes)
			}
		case *ast.IncDecStmt:
			markRoot(x.X, writes)
		case *ast.RangeStmt:
			if x.Tok == token.ASSIGN {
				if x.Key != nil {
					markRoot(x.Key, writes)
				}
				if x.Value != nil {
					markRoot(x.Value, writes)
				}
			}
		case *ast.CallExpr:
			cl := model.Callee(info, x)
			if cl != nil && cl.Pkg() != nil && cl.Pkg().Path() == "sync/atomic" {
				for _, a := range x.Args {
					if u, ok := ast.Unparen(a).(*ast.UnaryExpr); ok && u.Op == token.AND {
						markRoot(u.X, atomics)
					}
				}
			}
			if id, ok := ast.Unparen(x.Fun).(*ast.Ident); ok {
				if b, ok := info.Uses[id].(*types.Builtin); ok && (b.Name() == "copy" || b.Name() == "delete") && len(x.Args) > 0 {
					markRoot(x.Args[0], writes)
				}
			}
			if sel, ok := ast.Unparen(x.Fun).(*ast.SelectorExpr); ok {
				if t := info.TypeOf(sel.X); t != nil && isSyncSafeType(t) {
					markRoot(sel.X, safeCalls)
				}
			}
		case *ast.UnaryExpr:
			if x.Op == token.AND {
				// address taken and handed to a helper: no memory access here; the helper's accesses
				// through the pointer are analysed inside the helper
				if _, isArg := m.Parent(p, x).(*ast.CallExpr); isArg {
					if id, _ := rootIdent(x.X); id != nil {
						addrArgs[id] = true
					}
				}
			}
		}
		return true
	})
	ast.Inspect(root, func(n ast.Node) bool {
		id, ok := n.(*ast.Ident)
		if !ok {
			return true
		}
		v, ok := info.Uses[id].(*types.Var)
		if !ok || !vars[v] {
			return true
		}
		if addrArgs[id] && !atomics[id] {
			return true
		}
		fn := innermostFunc(m, p, id)
		// per-subscription state grouped into a struct (st := &bufferState{}; st.items = …): each field is a
		// variable of its own, protected by whatever lock its accesses hold (st.mu)
		if fv := stateField(m, p, id, v); fv != nil {
			if isSyncSafeType(fv.Type()) {
				return true
			}
			out[fv] = append(out[fv], varAccess{node: id, write: writes[id], atomic: atomics[id] || safeCalls[id], fn: fn, pkg: p, held: h.heldAt(p, id)})
			return true
		}
		out[v] = append(out[v], varAccess{node: id, write: writes[id], atomic: atomics[id] || safeCalls[id], fn: fn, pkg: p, held: h.heldAt(p, id)})
		return true
	})
	return out
}

// stateFieldVars: one pseudo-variable per (state variable, field).
var stateFieldVars = map[string]*types.Var{}

// stateField: id is a use of local variable v whose type is a struct (or pointer to struct) declared in the repository
// and the use is `v.f…`: returns the pseudo-variable standing for field f of v.
func stateField(m *model.Model, p *packages.Package, id *ast.Ident, v *types.Var) *types.Var {
	t := v.Type()
	if pt, ok := t.Underlying().(*types.Pointer); ok {
		t = pt.Elem()
	}
	named, ok := t.(*types.Named)
	if !ok || named.Obj().Pkg() == nil || !strings.HasPrefix(named.Obj().Pkg().Path(), ro) {
		return nil
	}
	if _, isStruct := named.Underlying().(*types.Struct); !isStruct {
		return nil
	}
	sel, ok := m.Parent(p, id).(*ast.SelectorExpr)
	if !ok || ast.Unparen(sel.X) != ast.Expr(id) {
		return nil
	}
	s, ok := p.TypesInfo.Selections[sel]
	if !ok || s.Kind() != types.FieldVal {
		return nil
	}
	key := fmt.Sprintf("%p.%s", v, sel.Sel.Name)
	if fv := stateFieldVars[key]; fv != nil {
		return fv
	}
	fv := types.NewVar(v.Pos(), v.Pkg(), v.Name()+"."+sel.Sel.Name, s.Type())
	stateFieldVars[key] = fv
	return fv
}

// directLocals lists the variables declared directly in fn's body (not in nested literals).
func directLocals(info *types.Info, fn ast.Node) map[*types.Var]bool {
	out := map[*types.Var]bool{}
	body := funcBody(fn)
	if body == nil {
		return out
	}
	ast.Inspect(body, func(n ast.Node) bool {
		if l, ok := n.(*ast.FuncLit); ok && ast.Node(l) != fn {
			return false
		}
		if id, ok := n.(*ast.Ident); ok {
			if v, ok := info.Defs[id].(*types.Var); ok && !v.IsField() {
				out[v] = true
			}
		}
		return true
	})
	return out
}

func ruleSCVarProtection() check.Rule {
	return check.Rule{
		Name:        "CONSISTENT-PROTECTION/operators",
		Doc:         "for every subscribe closure built with a safe constructor: each variable of the closure that is written after publication and accessed from two possibly-concurrent emission contexts (same relation as C02, teardown included) is accessed atomically, through a concurrency-safe type, or under one common lock",
		NeedControl: true,
		Run: func(c *check.Ctx) {
			m := c.M
			h := newHeldDB(m)
			for _, sc := range m.SCs {
				// an operator built with an unsafe constructor assumes one sequential producer, so its callbacks are ordered
				// among themselves; its teardown is not: Subscription.Unsubscribe is goroutine-safe API and runs the teardown
				// on the caller's goroutine while the producer may be inside a callback. Only teardown-vs-callback pairs are
				// examined for those
				unsafeSC := sc.Mode != model.ModeSafe && sc.Mode != model.ModeEventuallySafe
				armed := c.Armed(sc)
				if unsafeSC {
					c.Inc("unsafe_scs", 1)
				} else {
					c.Inc("safe_scs", 1)
				}
				info := sc.Pkg.TypesInfo
				locals := directLocals(info, sc.Lit)
				accs := accessesOf(m, sc.Pkg, h, sc.Lit, locals)
				var vars []*types.Var
				for v := range accs {
					vars = append(vars, v)
				}
				sort.Slice(vars, func(i, j int) bool { return vars[i].Pos() < vars[j].Pos() })
				for _, v := range vars {
					as := accs[v]
					written := false
					for _, a := range as {
						if a.write || a.atomic {
							written = true
						}
					}
					if isSyncSafeType(v.Type()) {
						// the methods of a concurrency-safe object may be called from anywhere; overwriting the variable that
						// holds it (`groups = sync.Map{}` to "clear" it) is a plain write that races with those calls — and
						// for a sync.Map or a mutex it resets the lock word under a goroutine that holds it
						// ("fatal error: sync: unlock of unlocked mutex")
						overwritten := false
						for _, a := range as {
							if a.write && !a.atomic {
								overwritten = true
							}
						}
						if !overwritten {
							continue
						}
					}
					if !written {
						continue
					}
					c.Inc("shared_variables", 1)
					key := fmt.Sprintf("%s/var-%s", sc, v.Name())
					conflict := ""
					var cpos token.Pos
				pairs:
					for i := range as {
						for j := i; j < len(as); j++ {
							a, b := as[i], as[j]
							if !a.write && !b.write {
								continue
							}
							if a.atomic && b.atomic {
								continue
							}
							common := false
							ah, bh := lockset.Effective(a.held, a.write), lockset.Effective(b.held, b.write)
							for k := range ah {
								if bh[k] {
									common = true
								}
							}
							if common {
								continue
							}
							for _, pa := range sc.FnPlaces[a.fn] {
								for _, pb := range sc.FnPlaces[b.fn] {
									A := placeOfAccess(pa, a.node)
									B := placeOfAccess(pb, b.node)
									if unsafeSC && !(underTeardown(pa.Ctx) != underTeardown(pb.Ctx)) {
										continue
									}
									if i == j && pa == pb {
										if !model.Multi(pa.Ctx) {
											continue
										}
									}
									if conc, why := model.MayRunConcurrently(A, B); conc {
										conflict = fmt.Sprintf("%s at %s (%s, holding %s) and %s at %s (%s, holding %s): %s",
											rw(a), c.Prog.Rel(a.node.Pos()), model.CtxKey(pa.Ctx, pa.Slot), a.held,
											rw(b), c.Prog.Rel(b.node.Pos()), model.CtxKey(pb.Ctx, pb.Slot), b.held, why)
										cpos = a.node.Pos()
										break pairs
									}
								}
							}
						}
					}
					if conflict == "" {
						if armed {
							c.OK(key, v.Pos(), "%d accesses: atomic, commonly locked, or ordered by S1-S4", len(as))
						}
					} else {
						c.Report(armed, key, cpos, "variable %s is accessed without common protection from possibly-concurrent contexts: %s", v.Name(), conflict)
					}
				}
			}
		},
	}
}

// CONSISTENT-PROTECTION/helpers: state handed to a helper by pointer.
func ruleHelperPointerProtection() check.Rule {
	return check.Rule{
		Name: "CONSISTENT-PROTECTION/helpers",
		Doc:  "for every helper function of package ro that receives a pointer to an operator's state and touches it from callbacks (function literals): if any access through that pointer is made with a lock held, every access through it (in the helper's callbacks) holds that same lock - the lock belief the code itself states; the caller's accesses to the variable are checked by CONSISTENT-PROTECTION/operators",
		Run: func(c *check.Ctx) {
			m := c.M
			h := newHeldDB(m)
			p := m.Obj.Ro
			info := p.TypesInfo
			scs := scLits(m)
			for _, f := range p.Syntax {
				for _, d := range f.Decls {
					fd, ok := d.(*ast.FuncDecl)
					if !ok || fd.Body == nil || fd.Recv != nil {
						continue
					}
					// pointer parameters to plain (non-synchronisation) state
					params := map[*types.Var]bool{}
					for _, pv := range model.FlattenParams(info, fd.Type.Params) {
						if pv == nil {
							continue
						}
						pt, isPtr := pv.Type().Underlying().(*types.Pointer)
						if !isPtr || isSyncSafeType(pv.Type()) || isSyncSafeType(pt.Elem()) {
							continue
						}
						if _, isStruct := pt.Elem().Underlying().(*types.Struct); isStruct {
							continue // objects with their own methods/locking
						}
						params[pv] = true
					}
					if len(params) == 0 {
						continue
					}
					_ = scs
					accs := accessesOf(m, p, h, fd, params)
					for v, as := range accs {
						// accesses through the pointer inside callbacks only
						var in []varAccess
						for _, a := range as {
							if a.fn != ast.Node(fd) {
								if _, isStar := m.Parent(p, a.node).(*ast.StarExpr); isStar {
									in = append(in, a)
								}
							}
						}
						if len(in) < 2 {
							continue
						}
						written := false
						var belief string
						for _, a := range in {
							if a.write {
								written = true
							}
							for k := range a.held {
								if belief == "" || k < belief {
									belief = k
								}
							}
						}
						if !written || belief == "" {
							continue
						}
						c.Inc("helper_pointer_states", 1)
						key := fmt.Sprintf("ro.%s/ptr-%s", fd.Name.Name, v.Name())
						bad := false
						for _, a := range in {
							if !a.held[belief] {
								bad = true
								c.Violation(key, a.node.Pos(), "%s through *%s without %s, which the other accesses in this helper hold: the callbacks of different sources run concurrently and race on the caller's state", rw(a), v.Name(), lockShort(belief))
								break
							}
						}
						if !bad {
							c.OK(key, v.Pos(), "all %d accesses through *%s in the helper's callbacks hold %s", len(in), v.Name(), lockShort(belief))
						}
					}
				}
			}
		},
	}
}

// CHAN-CLOSE-SEND: closing a channel is a write that conflicts with a concurrent send.
func ruleChanCloseSend() check.Rule {
	return check.Rule{
		Name: "CHAN-CLOSE-SEND",
		Doc:  "for every channel created by a subscribe closure: no close of the channel can run concurrently with a send into it (emission-context relation of C02, teardown included) unless both hold one common lock. A close in the teardown while an upstream callback may be blocked in `ch <- x` is an unsynchronised conflicting access in the sense of the Go memory model (the race detector reports it), whatever recovers the resulting send-on-closed-channel panic",
		Run: func(c *check.Ctx) {
			m := c.M
			h := newHeldDB(m)
			for _, sc := range m.SCs {
				armed := c.Armed(sc)
				info := sc.Pkg.TypesInfo
				// close operations per channel object (from the model: with their contexts)
				type acc struct {
					rec  *model.Rec
					node ast.Node
				}
				closes := map[types.Object][]acc{}
				for _, op := range sc.SubOps {
					if op.Method != "close" || op.Call == nil || len(op.Call.Args) != 1 {
						continue
					}
					if id, _ := rootIdent(op.Call.Args[0]); id != nil {
						closes[objOf(info, id)] = append(closes[objOf(info, id)], acc{&op.Rec, op.Call})
					}
				}
				if len(closes) == 0 {
					continue
				}
				// sends: located syntactically, placed through the function places of the model
				ast.Inspect(sc.Lit.Body, func(x ast.Node) bool {
					st, ok := x.(*ast.SendStmt)
					if !ok {
						return true
					}
					id, _ := rootIdent(st.Chan)
					if id == nil {
						return true
					}
					ch := objOf(info, id)
					cl := closes[ch]
					if len(cl) == 0 {
						return true
					}
					fn := innermostFunc(m, sc.Pkg, st)
					c.Inc("channel_send_sites", 1)
					key := fmt.Sprintf("%s/%s/send@%s", sc, chanLabel(sc, ch), model.CtxKey(placeCtx(sc, fn), placeSlot(sc, fn)))
					conflict := ""
					for _, fp := range sc.FnPlaces[fn] {
						A := placeOfAccess(fp, st)
						for _, k := range cl {
							B := model.PlaceOf(k.rec)
							if conc, why := model.MayRunConcurrently(A, B); conc {
								common := false
								hs, hc := h.heldAt(sc.Pkg, st), h.heldAt(sc.Pkg, k.node)
								for l := range hs {
									if hc[l] {
										common = true
									}
								}
								if !common {
									conflict = fmt.Sprintf("close at %s (%s): %s", c.Prog.Rel(k.node.Pos()), model.CtxKey(k.rec.Ctx, k.rec.Slot), why)
								}
							}
						}
					}
					if conflict == "" {
						if armed {
							c.OK(key, st.Pos(), "no close of the channel can run concurrently with this send")
						}
					} else {
						c.Report(armed, key, st.Pos(), "this send can run concurrently with a %s, without a common lock: closing a channel while a sender may be blocked in a send is a data race (and the send panics)", conflict)
					}
					return true
				})
			}
		},
	}
}

func placeCtx(sc *model.SC, fn ast.Node) *model.Ctx {
	for _, fp := range sc.FnPlaces[fn] {
		return fp.Ctx
	}
	return nil
}

func placeSlot(sc *model.SC, fn ast.Node) int {
	for _, fp := range sc.FnPlaces[fn] {
		return fp.Slot
	}
	return -1
}

func rw(a varAccess) string {
	switch {
	case a.atomic:
		return "atomic access"
	case a.write:
		return "write"
	}
	return "read"
}

func placeOfAccess(fp model.FnPlace, n ast.Node) model.Place {
	bp := fp.BasePos
	if !fp.Inlined {
		bp = n.Pos()
	}
	return model.Place{Ctx: fp.Ctx, Slot: fp.Slot, BasePos: bp, InLoop: fp.InLoop, Pos: n.Pos()}
}

const controlsC13 = `
func verifControlUnprotectedCounter[T any](other Observable[T]) func(Observable[T]) Observable[int] {
	return func(source Observable[T]) Observable[int] {
		return NewObservableWithContext(func(subscriberCtx context.Context, destination Observer[int]) Teardown {
			count := 0
			subscriptions := NewSubscription(nil)
			subscriptions.AddUnsubscribable(source.SubscribeWithContext(subscriberCtx, NewObserverWithContext(
				func(ctx context.Context, value T) { count++; destination.NextWithContext(ctx, count) },
				destination.ErrorWithContext, destination.CompleteWithContext)))
			subscriptions.AddUnsubscribable(other.SubscribeWithContext(subscriberCtx, NewObserverWithContext(
				func(ctx context.Context, value T) { count++; destination.NextWithContext(ctx, count) },
				destination.ErrorWithContext, func(ctx context.Context) {})))
			return subscriptions.Unsubscribe
		})
	}
}
`

// ATOMIC-POINTEE-IMMUTABLE: what an atomic pointer publishes is not mutated in place.
func ruleAtomicPointeeImmutable() check.Rule {
	return check.Rule{
		Name:        "ATOMIC-POINTEE-IMMUTABLE",
		NeedControl: true,
		Doc:         "a pointer obtained from an atomic pointer cell (`p := cell.Load()`, `cell.Swap(…)` of atomic.Pointer / xatomic.Pointer) is only read through: no `*p = …`, `p.f = …`, `(*p)[i] = …`, `*p = append(*p, …)` in the function that loaded it. The discipline of an atomic cell is copy-and-publish (build a new value, Store / Swap / CompareAndSwap it); a read-modify-write through the loaded pointer is not atomic with the load, so a concurrent Swap takes the value away between the two and the write lands in (or is lost with) a value another goroutine already owns — values delivered twice or never, with no lock for the lock-set rule to miss and nothing the race detector is guaranteed to see in a test",
		Run: func(c *check.Ctx) {
			m := c.M
			n := 0
			for _, p := range m.Pkgs {
				armed := c.ArmedPkg(p.PkgPath)
				info := p.TypesInfo
				scs := scLits(m)
				for _, fn := range funcNodes(p) {
					body := funcBody(fn)
					if body == nil {
						continue
					}
					loaded := map[types.Object]token.Pos{}
					ast.Inspect(body, func(x ast.Node) bool {
						if l, ok := x.(*ast.FuncLit); ok && ast.Node(l) != fn {
							return false
						}
						as, ok := x.(*ast.AssignStmt)
						if !ok || len(as.Lhs) != 1 || len(as.Rhs) != 1 {
							return true
						}
						call, ok := ast.Unparen(as.Rhs[0]).(*ast.CallExpr)
						if !ok {
							return true
						}
						sel, ok := ast.Unparen(call.Fun).(*ast.SelectorExpr)
						if !ok || (sel.Sel.Name != "Load" && sel.Sel.Name != "Swap") {
							return true
						}
						if !isAtomicPointerCell(info.TypeOf(sel.X)) {
							return true
						}
						if id, ok := as.Lhs[0].(*ast.Ident); ok {
							if o := objOf(info, id); o != nil {
								loaded[o] = call.Pos()
							}
						}
						return true
					})
					// load-modify-store on one cell without CompareAndSwap: `next := f(cell.Load()); cell.Store(next)`
					cellOf := func(e ast.Expr) types.Object {
						if id, _ := rootIdent(e); id != nil && isAtomicPointerCell(info.TypeOf(e)) {
							return objOf(info, id)
						}
						return nil
					}
					loadsCell := func(e ast.Node, cell types.Object, depth int) bool { return false }
					loadsCell = func(e ast.Node, cell types.Object, depth int) bool {
						found := false
						ast.Inspect(e, func(y ast.Node) bool {
							switch z := y.(type) {
							case *ast.CallExpr:
								if sel, ok := ast.Unparen(z.Fun).(*ast.SelectorExpr); ok && sel.Sel.Name == "Load" && cellOf(sel.X) == cell {
									found = true
								}
							case *ast.Ident:
								if v, ok := info.Uses[z].(*types.Var); ok && depth < 3 {
									for _, d := range m.Defs[v] {
										if d.Expr != nil && d.Pos >= body.Pos() && d.Pos <= body.End() && loadsCell(d.Expr, cell, depth+1) {
											found = true
										}
									}
								}
							}
							return !found
						})
						return found
					}
					hasCAS := map[types.Object]bool{}
					var stores []*ast.CallExpr
					ast.Inspect(body, func(x ast.Node) bool {
						if l, ok := x.(*ast.FuncLit); ok && ast.Node(l) != fn {
							return false
						}
						if call, ok := x.(*ast.CallExpr); ok {
							if sel, ok := ast.Unparen(call.Fun).(*ast.SelectorExpr); ok {
								if cell := cellOf(sel.X); cell != nil {
									switch sel.Sel.Name {
									case "CompareAndSwap":
										hasCAS[cell] = true
									case "Store":
										stores = append(stores, call)
									}
								}
							}
						}
						return true
					})
					// what is published must be a fresh value: the address of long-lived storage (a field, an element of a
					// preallocated array, a captured variable) is written again on the next publication while readers that loaded
					// it are still copying it
					for i, st := range stores {
						if len(st.Args) != 1 {
							continue
						}
						arg := ast.Unparen(st.Args[0])
						// follow one local pointer variable (slot := &l.slots[i]; cell.Store(slot))
						if id, ok := arg.(*ast.Ident); ok {
							if v, isVar := info.Uses[id].(*types.Var); isVar {
								for _, d := range m.Defs[v] {
									if d.Expr != nil && d.Pos >= body.Pos() && d.Pos <= body.End() {
										arg = ast.Unparen(d.Expr)
									}
								}
							}
						}
						u, ok := arg.(*ast.UnaryExpr)
						if !ok || u.Op != token.AND {
							continue
						}
						root, steps := rootIdent(u.X)
						if root == nil {
							continue
						}
						rv, isVar := objOf(info, root).(*types.Var)
						if !isVar {
							continue
						}
						// &local declared in this very function (a parameter or a local: fresh per call) is fine
						declaredHere := body.Pos() <= rv.Pos() && rv.Pos() <= body.End()
						if ft := funcType(fn); ft != nil && ft.Params != nil && ft.Params.Pos() <= rv.Pos() && rv.Pos() <= ft.Params.End() {
							declaredHere = true
						}
						if declaredHere && !steps {
							continue
						}
						if _, isLit := ast.Unparen(u.X).(*ast.CompositeLit); isLit {
							continue
						}
						n++
						key := fmt.Sprintf("%s/atomic-publishes-storage#%d", chainKey(m, p, m.EnclosingFuncs(p, fn), scs), i+1)
						c.Report(armed, key, st.Pos(), "the pointer published through this atomic cell is the address of long-lived storage (%s), not of a fresh value: the storage is overwritten by a later publication while a reader that loaded the pointer is still reading through it", types.ExprString(u.X))
					}
					for i, st := range stores {
						sel := ast.Unparen(st.Fun).(*ast.SelectorExpr)
						cell := cellOf(sel.X)
						if cell == nil || hasCAS[cell] || len(st.Args) != 1 || !loadsCell(st.Args[0], cell, 0) {
							continue
						}
						n++
						key := fmt.Sprintf("%s/atomic-rmw-%s#%d", chainKey(m, p, m.EnclosingFuncs(p, fn), scs), cell.Name(), i+1)
						c.Report(armed, key, st.Pos(), "%s is stored with a value computed from its own Load() and no CompareAndSwap: a Swap or Store from another goroutine between the two is overwritten (its values come back) or overtaken (these values are lost)", cell.Name())
					}
					if len(loaded) == 0 {
						continue
					}
					k := 0
					for _, w := range writesIn(info, fn) {
						at, ok := loaded[w.Var]
						if !ok || w.Node.Pos() < at {
							continue
						}
						// a write *through* the pointer, not a re-binding of the local itself
						through := false
						ast.Inspect(w.Node, func(y ast.Node) bool {
							switch z := y.(type) {
							case *ast.StarExpr:
								if id, _ := rootIdent(z.X); id != nil && objOf(info, id) == types.Object(w.Var) {
									through = true
								}
							case *ast.SelectorExpr:
								if id, ok := ast.Unparen(z.X).(*ast.Ident); ok && objOf(info, id) == types.Object(w.Var) {
									if s, ok := info.Selections[z]; ok && s.Kind() == types.FieldVal {
										through = true
									}
								}
							}
							return true
						})
						if as, ok := w.Node.(*ast.AssignStmt); ok && through {
							// only the left-hand side counts
							through = false
							for _, l := range as.Lhs {
								if _, isID := ast.Unparen(l).(*ast.Ident); !isID {
									if id, _ := rootIdent(l); id != nil && objOf(info, id) == types.Object(w.Var) {
										through = true
									}
								}
							}
						}
						if !through {
							continue
						}
						n++
						k++
						key := fmt.Sprintf("%s/atomic-pointee-%s#%d", chainKey(m, p, m.EnclosingFuncs(p, fn), scs), w.Var.Name(), k)
						c.Report(armed, key, w.Node.Pos(), "%s was loaded from an atomic pointer cell and is written through here: the read-modify-write is not atomic with the load, a concurrent Swap/Store makes this write land in a value that was already handed over (or lose it)", w.Var.Name())
					}
				}
			}
			c.Inc("atomic_pointee_writes", n)
		},
	}
}

func isAtomicPointerCell(t types.Type) bool {
	if t == nil {
		return false
	}
	if p, ok := t.Underlying().(*types.Pointer); ok {
		t = p.Elem()
	}
	named, ok := t.(*types.Named)
	if !ok || named.Obj().Pkg() == nil {
		return false
	}
	pp := named.Obj().Pkg().Path()
	return named.Obj().Name() == "Pointer" && (pp == "sync/atomic" || strings.HasSuffix(pp, "/internal/xatomic"))
}

const controlsAtomicPointee = `
func verifControlAtomicPointee[T any]() func(Observable[T]) Observable[[]T] {
	return func(source Observable[T]) Observable[[]T] {
		return NewObservableWithContext(func(subscriberCtx context.Context, destination Observer[[]T]) Teardown {
			var buffer atomic.Pointer[[]T]
			buffer.Store(&[]T{})
			sub := source.SubscribeWithContext(subscriberCtx, NewObserverWithContext(
				func(ctx context.Context, value T) {
					current := buffer.Load()
					*current = append(*current, value)
				},
				destination.ErrorWithContext,
				func(ctx context.Context) {
					tmp := buffer.Swap(&[]T{})
					destination.NextWithContext(ctx, *tmp)
					destination.CompleteWithContext(ctx)
				},
			))
			return sub.Unsubscribe
		})
	}
}
`

func underTeardown(c *model.Ctx) bool {
	for x := c; x != nil; x = x.Parent {
		if x.Kind == model.KTeardown {
			return true
		}
	}
	return false
}

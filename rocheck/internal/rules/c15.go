package rules

import (
	"fmt"
	"go/ast"

	"rocheck/internal/check"
	"rocheck/internal/model"
)

// the operators the property names as re-subscribing by definition
var resubscribeFamily = []string{"ro.RetryWithConfig", "ro.RepeatWith", "ro.DoWhileIWithContext", "ro.WhileIWithContext", "ro.OnErrorResumeNextWith", "ro.ConcatAll", "ro.Catch"}

func ruleSequentialAttempts() check.Rule {
	return check.Rule{
		Name:        "SEQUENTIAL-ATTEMPTS",
		Doc:         "in every re-subscribing operator (Retry, RepeatWith, DoWhile, While, OnErrorResumeNextWith, ConcatAll, Catch) the attempt's subscription is awaited (Wait on the same subscription, in the same loop iteration / callback, after the subscribe site) before the next attempt can start, or the next attempt is subscribed from the terminal slot of the previous one; the attempt's next slot forwards to the destination",
		NeedControl: true,
		Run: func(c *check.Ctx) {
			m := c.M
			names := append([]string{}, resubscribeFamily...)
			for _, sc := range m.SCs {
				if check.IsControlName(sc.Name) {
					names = append(names, sc.String())
				}
			}
			for _, name := range names {
				sc := m.SCByName(name)
				if sc == nil {
					c.Undecided(name+"/anchor", m.Obj.Ro.Syntax[0].Pos(), "re-subscribing operator %s not found", name)
					continue
				}
				n := 0
				for _, s := range sc.SubSites {
					repeated := s.InLoop || (s.Ctx.Kind == model.KSrc && s.Slot == model.SlotNext)
					chained := s.Ctx.Kind == model.KSrc && s.Slot != model.SlotNext && s.Slot >= 0
					if !repeated && !chained {
						continue
					}
					n++
					c.Inc("resubscribe_sites", 1)
					key := fmt.Sprintf("%s/attempt#%d", name, n)
					switch {
					case chained:
						c.OK(key+"/sequential", s.Pos, "S3: the next source is subscribed from the %s slot of the previous one (which has terminated)", model.SlotNames[s.Slot])
					case !s.Src.Awaited:
						c.Violation(key+"/sequential", s.Pos, "the subscription of one attempt is not awaited before the next attempt is subscribed: two attempts can be alive at once and their values interleave")
					default:
						// the Wait must follow the site inside the same loop body / callback
						ok := false
						for _, b := range sc.Blocks {
							if b.What == "wait" && b.Recv != nil && b.Recv.Kind == model.AVSub && b.Recv.Site == s && b.Ctx == s.Ctx && b.Node.End() > s.Call.End() && sameLoop(m, s, b) {
								ok = true
							}
						}
						if ok {
							c.OK(key+"/sequential", s.Pos, "S2: Wait on this subscription follows the subscribe site in the same iteration")
						} else {
							c.Violation(key+"/sequential", s.Pos, "the Wait on the attempt's subscription is not in the same loop iteration/callback after the subscribe site")
						}
					}
					// values forwarded
					fw := false
					for _, e := range sc.Emits {
						if e.ToDest && e.Kind == model.EmitNext && e.Ctx == s.Src && e.Slot == model.SlotNext {
							fw = true
						}
					}
					if fw {
						c.OK(key+"/forwards-values", s.Pos, "the attempt's next slot forwards to the destination")
					} else {
						c.Violation(key+"/forwards-values", s.Pos, "the attempt's next slot does not forward values to the destination: values of an attempt are lost")
					}
				}
				if n == 0 && !check.IsControlName(sc.Name) {
					c.Undecided(name+"/attempts", sc.Lit.Pos(), "no re-subscribing site recognised in %s", name)
				}
			}
		},
	}
}

// sameLoop: the innermost loop statement enclosing the site also encloses the block site.
func sameLoop(m *model.Model, s *model.SubSite, b *model.BlockSite) bool {
	var loop ast.Node
scan:
	for n := m.Parent(s.Pkg, s.Call); n != nil; n = m.Parent(s.Pkg, n) {
		switch n.(type) {
		case *ast.ForStmt, *ast.RangeStmt:
			loop = n
			break scan
		case *ast.FuncLit, *ast.FuncDecl:
			break scan
		}
	}
	if loop == nil {
		return true // not in a loop: same callback
	}
	return loop.Pos() <= b.Node.Pos() && b.Node.End() <= loop.End()
}

func ruleRetryCtx() check.Rule {
	return check.Rule{
		Name:        "RETRY-CTX",
		FamilyShape: true,
		Doc:         "RetryWithConfig tests the subscriber context without blocking before every attempt and watches it during the delay; both branches emit the context error and return",
		Run: func(c *check.Ctx) {
			m := c.M
			sc := m.SCByName("ro.RetryWithConfig")
			if sc == nil {
				c.Info("ro.RetryWithConfig/anchor", m.Obj.Ro.Syntax[0].Pos(), "operator not found (family-shape rule)")
				return
			}
			info := sc.Pkg.TypesInfo
			var site *model.SubSite
			for _, s := range sc.SubSites {
				if s.InLoop {
					site = s
				}
			}
			if site == nil {
				c.Info("ro.RetryWithConfig/shape", sc.Lit.Pos(), "no subscribe site in a loop (family-shape rule)")
				return
			}
			pre, delay := 0, 0
			nsel := 0
			ast.Inspect(sc.Lit.Body, func(n ast.Node) bool {
				sel, ok := n.(*ast.SelectStmt)
				if !ok {
					return true
				}
				nsel++
				hasDefault := false
				var doneClause *ast.CommClause
				for _, cl := range sel.Body.List {
					cc := cl.(*ast.CommClause)
					if cc.Comm == nil {
						hasDefault = true
						continue
					}
					var ch ast.Expr
					switch x := cc.Comm.(type) {
					case *ast.ExprStmt:
						if u, ok := ast.Unparen(x.X).(*ast.UnaryExpr); ok {
							ch = u.X
						}
					case *ast.AssignStmt:
						if len(x.Rhs) == 1 {
							if u, ok := ast.Unparen(x.Rhs[0]).(*ast.UnaryExpr); ok {
								ch = u.X
							}
						}
					}
					if ch != nil {
						if recv, isDone := isCtxDone(info, ch); isDone {
							if id, _ := rootIdent(recv); id != nil && objOf(info, id) == sc.Ctx0 {
								doneClause = cc
							}
						}
					}
				}
				key := fmt.Sprintf("ro.RetryWithConfig/select#%d", nsel)
				if doneClause == nil {
					if !hasDefault {
						c.Violation(key, sel.Pos(), "blocking select in Retry without a case on the subscriber context: the delay cannot be cancelled")
					}
					return true
				}
				emits, returns := false, false
				for _, st := range doneClause.Body {
					ast.Inspect(st, func(x ast.Node) bool {
						switch y := x.(type) {
						case *ast.CallExpr:
							if shortCallee(info, y) == "ErrorWithContext" {
								emits = true
							}
						case *ast.ReturnStmt:
							returns = true
						}
						return true
					})
				}
				if emits && returns {
					c.OK(key, sel.Pos(), "context case emits the context error and returns (non-blocking=%v)", hasDefault)
					if hasDefault && sel.Pos() < site.Pos {
						pre++
					}
					if !hasDefault {
						delay++
					}
				} else {
					c.Violation(key, sel.Pos(), "the context case does not (emit the context error=%v, return=%v): Retry keeps going after cancellation", emits, returns)
				}
				return true
			})
			if pre > 0 {
				c.OK("ro.RetryWithConfig/pre-attempt-check", site.Pos, "a non-blocking context test precedes the subscribe site inside the loop")
			} else {
				c.Violation("ro.RetryWithConfig/pre-attempt-check", site.Pos, "no non-blocking test of the subscriber context precedes the attempt: Retry re-subscribes after cancellation")
			}
			c.Inc("retry_selects", nsel)
			_ = delay
		},
	}
}

const controlsC15 = `
func verifControlUnawaitedRepeat[T any](count int) func(Observable[T]) Observable[T] {
	return func(source Observable[T]) Observable[T] {
		return NewObservableWithContext(func(subscriberCtx context.Context, destination Observer[T]) Teardown {
			subscriptions := NewSubscription(nil)
			for i := 0; i < count; i++ {
				subscriptions.AddUnsubscribable(source.SubscribeWithContext(subscriberCtx, NewObserverWithContext(
					destination.NextWithContext, destination.ErrorWithContext, func(ctx context.Context) {})))
			}
			return subscriptions.Unsubscribe
		})
	}
}
`

func C15() *check.Property {
	return &check.Property{
		ID:       "C15",
		Title:    "Re-subscribing operators run attempts in sequence, the right number of times",
		Patterns: CorePatterns,
		Scope:    []string{ro},
		Rules:    []check.Rule{ruleSequentialAttempts(), ruleRetryCtx(), ruleSequentialInnerGuard(), ruleTerminalPropagation(), ruleStateLevel(), ruleAddAfterClose(), ruleReadAfterWait(), ruleFinalizerDiscipline(), ruleLoopStopsAfterError(), ruleAttemptDecisionErrorBlind()},
		Explanation: "Structural clause only. For the seven re-subscribing operators the property names, the model's subscribe sites that lie in a loop or in a repeatedly invoked slot must be awaited (Wait on the same subscription, same iteration, after the site) " +
			"or be subscribed from the terminal slot of the previous attempt, so that two attempts are never alive together; each attempt's next slot must forward to the destination; Retry's two context checks must exist, emit the context error and return. " +
			"This is a necessary condition of 'strictly one after another'; removing the Wait, moving it, or dropping a context test is reported.",
		NotDecided:  "the NUMBER of attempts against the configuration (retry counts, ResetOnSuccess, loop conditions) and the order of forwarded values are value-level and not decided; nor is 'released before the next one starts' beyond the awaited subscription being closed when Wait returns.",
		Assumptions: []string{"Wait returns only once the subscription is closed (C06)"},
		Floors:      map[string]int{"resubscribe_sites": 7, "attempt_error_callbacks": 6},
		Controls:    map[string]string{"zz_verif_controls_c15.go": roControl(controlsC15), "zz_verif_controls_c05.go": roControl(controlsC05), "zz_verif_controls_c12.go": roControl(controlsC12), "zz_verif_controls_c15b.go": roControl(controlsReadAfterWait + controlsLoopStops)},
	}
}

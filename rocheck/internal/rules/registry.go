package rules

import (
	"sort"

	"rocheck/internal/check"
)

var registry = map[string]func() *check.Property{
	"C01": C01,
	"C02": C02,
	"C03": C03,
	"C04": C04,
	"C05": C05,
	"C06": C06,
	"C07": C07,
	"C08": C08,
	"C09": C09,
	"C10": C10,
	"C11": C11,
	"C12": C12,
	"C13": C13,
	"C14": C14,
	"C15": C15,
	"C16": C16,
	"C17": C17,
	"C18": C18,
	"C19": C19,
	"C20": C20,
}

// thoroughOps: mutation operators of the thorough tier, per property.
var thoroughOps = map[string][]mutOp{
	"C01": {mutGateOpen, mutDropHook},
	"C04": {mutAdapterConst},
	"C07": {mutDropReturn},
	"C17": {mutOnceUnwrap},
	"C18": {mutDropReturn, mutCtxBackground, mutDropTeardown},
	"C19": {mutDupForward, mutCtxBackground, mutDropTeardown},
	"C20": {mutIgnoreLimit, mutDropReturn},
	"C02": {mutUnsafeCtor, mutAsyncNext, mutDropLocksOf("subscriber"), mutDropLocksOf("subjects-broadcast")},
	"C03": {mutDropTeardown, mutDropLocksOf("subscription")},
	"C06": {mutDropLocksOf("subscription")},
	"C11": {mutDropLocksOf("connectable")},
	"C05": {mutSwallowError},
	"C08": {mutAsyncNext},
	"C09": {mutCtxBackground, mutCtxSubscriber},
	"C10": {mutDropLocksOf("subjects")},
	"C12": {mutHoistState},
	"C13": {mutDropLocksOf("all-but-subscriber"), mutUnsafeCtor},
	"C14": {mutDropTeardown},
	"C15": {mutDropWait},
	"C16": {mutDropTeardown},
}

func ByID(id string) *check.Property {
	f := registry[id]
	if f == nil {
		return nil
	}
	p := f()
	ops := append([]mutOp{}, thoroughOps[id]...)
	ops = append(ops, mutSwapStmts, mutDeleteStmt, mutNegateCond, mutWeakenCond)
	p.Thorough = sweep(p, ops)
	return p
}

func IDs() []string {
	var out []string
	for k := range registry {
		out = append(out, k)
	}
	sort.Strings(out)
	return out
}

func AllPatterns() []string {
	return cat(CorePatterns, PluginPkgs, IOPluginPkgs, []string{PromPkg}, RatePkgs)
}

package rules

import (
	"sort"

	"rocheck/internal/check"
)

var registry = map[string]func() *check.Property{
	"C01": C01,
	"C02": C02,
	"C03": C03,
	"C04": C04,
	"C05": C05,
	"C06": C06,
	"C07": C07,
	"C08": C08,
	"C09": C09,
	"C10": C10,
	"C11": C11,
	"C12": C12,
	"C13": C13,
	"C14": C14,
	"C15": C15,
	"C17": C17,
	"C18": C18,
	"C19": C19,
	"C20": C20,
}

func ByID(id string) *check.Property {
	if f := registry[id]; f != nil {
		return f()
	}
	return nil
}

func IDs() []string {
	var out []string
	for k := range registry {
		out = append(out, k)
	}
	sort.Strings(out)
	return out
}

func AllPatterns() []string {
	return cat(CorePatterns, PluginPkgs, []string{PromPkg}, RatePkgs)
}

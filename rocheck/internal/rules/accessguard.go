package rules

import (
	"fmt"
	"go/ast"
	"go/token"
	"go/types"
	"sort"

	"golang.org/x/tools/go/cfg"

	"rocheck/internal/check"
)

// ACCESS-GUARDED: a forward may-analysis over go/cfg with edge refinement.
//
// A function that tests a pointer against nil (or the length of a slice against a constant) states the belief that
// the pointer may be nil (the slice may be empty). Under that belief, every dereference `*p` / field selection `p.f`
// (every constant index `q[0]` or head slicing `q[1:]`) must only be reached in a state where the last thing known about
// the variable is a test edge that excludes nil (emptiness) or an assignment that makes it so.
//
// States per tracked variable: 0 unreached, 1 safe (non-nil / non-empty), 2 trusted (assigned from an expression nothing
// is believed about), 3 maybe (nil / empty possible). Join is max. Only state 3 at an access is reported.

const (
	agSafe    = 1
	agTrusted = 2
	agMaybe   = 3
)

func ruleAccessGuarded() check.Rule {
	return check.Rule{
		Name:        "ACCESS-GUARDED",
		Doc:         "belief rule (Engler): in a function that tests a local pointer against nil, or the length of a slice against a constant, every dereference of that pointer (`*p`, field selection) and every constant index / head slicing of that slice (`q[0]`, `q[1:]`) is reached only in a state where the most recent fact about the variable — the edge of a test, an assignment of an address, an append — excludes nil / emptiness (forward data-flow over go/cfg, short-circuit operators split into edges). A latest-value cell that is dereferenced without its own `!= nil` conjunct, or a queue whose head is taken under a test of the other queues only, panics in the callback that combines the sources: the combined value is emitted before every source has produced one",
		NeedControl: true,
		Run: func(c *check.Ctx) {
			m := c.M
			scs := scLits(m)
			for _, p := range m.Pkgs {
				armed := c.ArmedPkg(p.PkgPath)
				info := p.TypesInfo
				for _, fn := range funcNodes(p) {
					body := funcBody(fn)
					if body == nil {
						continue
					}
					ag := newAccessGuard(info, fn, body)
					if len(ag.tracked) == 0 {
						continue
					}
					c.Inc("functions_with_beliefs", 1)
					chain := m.EnclosingFuncs(p, fn)
					fkey := chainKey(m, p, chain, scs)
					bad := ag.run()
					sort.Slice(bad, func(i, j int) bool { return bad[i].pos < bad[j].pos })
					seen := map[string]int{}
					for _, b := range bad {
						seen[b.name]++
						c.Report(armed, fmt.Sprintf("%s/unguarded-%s#%d", fkey, b.name, seen[b.name]), b.pos, "%s", b.msg)
					}
					c.Inc("guarded_accesses", ag.accesses-len(bad))
					if len(bad) == 0 && armed {
						c.OK(fkey+"/accesses-guarded", fn.Pos(), fmt.Sprintf("%d accesses of %d nil-/length-tested variables are reached only where the test (or an assignment) makes them safe", ag.accesses, len(ag.tracked)))
					}
				}
			}
		},
	}
}

type agBad struct {
	pos  token.Pos
	name string
	msg  string
}

type accessGuard struct {
	info     *types.Info
	fn       ast.Node
	body     *ast.BlockStmt
	tracked  map[string]bool // key -> true; pointer keys are pathKey of an identifier, slice keys are queueKey
	isSlice  map[string]bool
	names    map[string]string
	initial  map[string]uint8
	accesses int
}

func newAccessGuard(info *types.Info, fn ast.Node, body *ast.BlockStmt) *accessGuard {
	ag := &accessGuard{info: info, fn: fn, body: body, tracked: map[string]bool{}, isSlice: map[string]bool{}, names: map[string]string{}, initial: map[string]uint8{}}
	// local variables of this function (parameters included), not of nested literals
	local := map[types.Object]bool{}
	if ft := funcType(fn); ft != nil && ft.Params != nil {
		for _, f := range ft.Params.List {
			for _, id := range f.Names {
				if o := info.Defs[id]; o != nil {
					local[o] = true
				}
			}
		}
	}
	params := map[types.Object]bool{}
	for o := range local {
		params[o] = true
	}
	ag.walk(body, func(n ast.Node) {
		switch x := n.(type) {
		case *ast.AssignStmt:
			if x.Tok == token.DEFINE {
				for _, l := range x.Lhs {
					if id, ok := l.(*ast.Ident); ok {
						if o := info.Defs[id]; o != nil {
							local[o] = true
						}
					}
				}
			}
		case *ast.ValueSpec:
			for _, id := range x.Names {
				if o := info.Defs[id]; o != nil {
					local[o] = true
				}
			}
		}
	})
	// beliefs: nil tests of local pointers, length tests of slices
	ag.walk(body, func(n ast.Node) {
		e, ok := n.(ast.Expr)
		if !ok {
			return
		}
		if k, _, ok := ag.nilTest(e); ok {
			if id, ok := ast.Unparen(ag.nilOperand(e)).(*ast.Ident); ok {
				o := objOf(info, id)
				if v, isVar := o.(*types.Var); isVar && local[o] {
					if _, isPtr := v.Type().Underlying().(*types.Pointer); isPtr {
						ag.tracked[k] = true
						ag.names[k] = id.Name
						if params[o] {
							ag.initial[k] = agMaybe
						}
					}
				}
			}
		}
		if k, _, _, ok := ag.lenTest(e); ok {
			ag.tracked[k] = true
			ag.isSlice[k] = true
			ag.names[k] = shortKey(k)
			ag.initial[k] = agMaybe
		}
	})
	// pointers declared without a value start nil; others start trusted
	for k := range ag.tracked {
		if ag.initial[k] == 0 {
			ag.initial[k] = agTrusted
		}
	}
	ag.walk(body, func(n ast.Node) {
		if vs, ok := n.(*ast.ValueSpec); ok && len(vs.Values) == 0 {
			for _, id := range vs.Names {
				if k := pathKey(info, id); ag.tracked[k] && !ag.isSlice[k] {
					ag.initial[k] = agTrusted // refined at the declaration by transfer()
				}
			}
		}
	})
	return ag
}

// walk visits the nodes of the function, not those of nested function literals.
func (ag *accessGuard) walk(root ast.Node, f func(ast.Node)) {
	ast.Inspect(root, func(n ast.Node) bool {
		if n == nil {
			return false
		}
		if l, ok := n.(*ast.FuncLit); ok && ast.Node(l) != ag.fn {
			return false
		}
		f(n)
		return true
	})
}

func (ag *accessGuard) isNil(x ast.Expr) bool {
	id, ok := ast.Unparen(x).(*ast.Ident)
	if !ok {
		return false
	}
	_, n := ag.info.Uses[id].(*types.Nil)
	return n
}

func (ag *accessGuard) nilOperand(e ast.Expr) ast.Expr {
	be, ok := ast.Unparen(e).(*ast.BinaryExpr)
	if !ok {
		return nil
	}
	if ag.isNil(be.Y) {
		return be.X
	}
	if ag.isNil(be.X) {
		return be.Y
	}
	return nil
}

// nilTest: e is `x == nil` / `x != nil`; returns the key of x and whether the test is ==.
func (ag *accessGuard) nilTest(e ast.Expr) (string, bool, bool) {
	be, ok := ast.Unparen(e).(*ast.BinaryExpr)
	if !ok || (be.Op != token.EQL && be.Op != token.NEQ) {
		return "", false, false
	}
	x := ag.nilOperand(e)
	if x == nil {
		return "", false, false
	}
	if _, ok := ast.Unparen(x).(*ast.Ident); !ok {
		return "", false, false
	}
	k := pathKey(ag.info, x)
	if k == "" {
		return "", false, false
	}
	return k, be.Op == token.EQL, true
}

// lenTest: e compares len(q) with a constant. Returns the key of q and which outcomes prove len(q) >= 1:
// onTrue (the comparison being true proves it), onFalse.
func (ag *accessGuard) lenTest(e ast.Expr) (key string, onTrue, onFalse, ok bool) {
	be, isBin := ast.Unparen(e).(*ast.BinaryExpr)
	if !isBin {
		return
	}
	lenOf := func(x ast.Expr) string {
		call, ok := ast.Unparen(x).(*ast.CallExpr)
		if !ok || len(call.Args) != 1 {
			return ""
		}
		if id, ok := ast.Unparen(call.Fun).(*ast.Ident); !ok || id.Name != "len" {
			return ""
		} else if _, isBuiltin := ag.info.Uses[id].(*types.Builtin); !isBuiltin {
			return ""
		}
		return queueKey(ag.info, call.Args[0])
	}
	op := be.Op
	var k string
	var cv int64
	if k = lenOf(be.X); k != "" {
		v, isConst := constVal(ag.info, be.Y)
		if !isConst {
			return
		}
		cv = v
	} else if k = lenOf(be.Y); k != "" {
		v, isConst := constVal(ag.info, be.X)
		if !isConst {
			return
		}
		cv = v
		// mirror the operator: c OP len  ==  len OP' c
		switch op {
		case token.LSS:
			op = token.GTR
		case token.GTR:
			op = token.LSS
		case token.LEQ:
			op = token.GEQ
		case token.GEQ:
			op = token.LEQ
		}
	} else {
		return
	}
	key, ok = k, true
	switch op {
	case token.GTR: // len > c
		onTrue = cv >= 0
	case token.GEQ: // len >= c
		onTrue = cv >= 1
	case token.NEQ: // len != 0
		onTrue = cv == 0
	case token.EQL: // len == 0 is false; len == c (c >= 1) true
		onFalse = cv == 0
		onTrue = cv >= 1
	case token.LSS: // len < c false => len >= c
		onFalse = cv >= 1
	case token.LEQ: // len <= c false => len > c
		onFalse = cv >= 0
	}
	return
}

type agState map[string]uint8

func (s agState) clone() agState {
	o := agState{}
	for k, v := range s {
		o[k] = v
	}
	return o
}

// join merges o into s and reports a change.
func (s agState) join(o agState) bool {
	ch := false
	for k, v := range o {
		if v > s[k] {
			s[k] = v
			ch = true
		}
	}
	return ch
}

func (ag *accessGuard) run() []agBad {
	g := cfg.New(ag.body, func(*ast.CallExpr) bool { return true })
	if len(g.Blocks) == 0 {
		return nil
	}
	in := make([]agState, len(g.Blocks))
	for i := range in {
		in[i] = agState{}
	}
	for k, v := range ag.initial {
		in[0][k] = v
	}
	reached := make([]bool, len(g.Blocks))
	reached[0] = true
	work := []*cfg.Block{g.Blocks[0]}
	for len(work) > 0 {
		b := work[len(work)-1]
		work = work[:len(work)-1]
		st := in[b.Index].clone()
		for _, n := range b.Nodes {
			ag.transfer(st, n)
		}
		for i, s := range b.Succs {
			out := st
			if len(b.Succs) == 2 && len(b.Nodes) > 0 {
				if cond, ok := b.Nodes[len(b.Nodes)-1].(ast.Expr); ok {
					out = st.clone()
					ag.refine(out, cond, i == 0)
				}
			}
			if in[s.Index].join(out) || !reached[s.Index] {
				reached[s.Index] = true
				work = append(work, s)
			}
		}
	}
	// report pass
	var bad []agBad
	ag.accesses = 0
	for _, b := range g.Blocks {
		if !reached[b.Index] {
			continue
		}
		st := in[b.Index].clone()
		for _, n := range b.Nodes {
			ag.accessesIn(st, n, func(st agState, k string, pos token.Pos, what string) {
				ag.accesses++
				if st[k] == agMaybe {
					if ag.isSlice[k] {
						bad = append(bad, agBad{pos, ag.names[k], fmt.Sprintf("%s of %s is reached on a path where nothing says the slice is non-empty, although this function tests its length elsewhere: the access panics (index out of range) when this queue is empty while the tested ones are not", what, ag.names[k])})
					} else {
						bad = append(bad, agBad{pos, ag.names[k], fmt.Sprintf("%s of %s is reached on a path where the pointer may still be nil, although this function tests it against nil elsewhere: the access panics when this cell has no value yet", what, ag.names[k])})
					}
				}
			})
			ag.transfer(st, n)
		}
	}
	return bad
}

// accessesIn reports the guarded-access sites inside one CFG node (nested literals excluded). The right operand of a
// short-circuit operator is visited in the state its left operand establishes.
func (ag *accessGuard) accessesIn(st agState, n ast.Node, f func(st agState, key string, pos token.Pos, what string)) {
	var visit func(st agState, n ast.Node)
	visit = func(st agState, n ast.Node) {
		ast.Inspect(n, func(x ast.Node) bool {
			if x == nil {
				return false
			}
			if l, ok := x.(*ast.FuncLit); ok && ast.Node(l) != ag.fn {
				return false
			}
			switch e := x.(type) {
			case *ast.BinaryExpr:
				if e.Op == token.LAND || e.Op == token.LOR {
					visit(st, e.X)
					r := st.clone()
					ag.refine(r, e.X, e.Op == token.LAND)
					visit(r, e.Y)
					return false
				}
			case *ast.StarExpr:
				if tv, ok := ag.info.Types[e]; ok && tv.IsValue() {
					if k := pathKey(ag.info, e.X); ag.tracked[k] && !ag.isSlice[k] {
						if _, isId := ast.Unparen(e.X).(*ast.Ident); isId {
							f(st, k, e.Pos(), "the dereference")
						}
					}
				}
			case *ast.SelectorExpr:
				if s, ok := ag.info.Selections[e]; ok && s.Kind() == types.FieldVal {
					if _, isId := ast.Unparen(e.X).(*ast.Ident); isId {
						if k := pathKey(ag.info, e.X); ag.tracked[k] && !ag.isSlice[k] {
							f(st, k, e.Pos(), "the field selection")
						}
					}
				}
			case *ast.IndexExpr:
				if k := queueKey(ag.info, e.X); ag.tracked[k] && ag.isSlice[k] {
					if v, ok := constVal(ag.info, e.Index); ok && v == 0 {
						f(st, k, e.Pos(), "the index [0]")
					}
				}
			case *ast.SliceExpr:
				if k := queueKey(ag.info, e.X); ag.tracked[k] && ag.isSlice[k] && e.Low != nil {
					if v, ok := constVal(ag.info, e.Low); ok && v >= 1 {
						f(st, k, e.Pos(), "the head slicing")
					}
				}
			}
			return true
		})
	}
	visit(st, n)
}

// refine updates st with what the outcome of cond says. Short-circuit operators are decomposed: go/cfg keeps a
// whole condition in one node.
func (ag *accessGuard) refine(st agState, cond ast.Expr, outcome bool) {
	e := ast.Unparen(cond)
	for {
		u, ok := e.(*ast.UnaryExpr)
		if !ok || u.Op != token.NOT {
			break
		}
		e, outcome = ast.Unparen(u.X), !outcome
	}
	if be, ok := e.(*ast.BinaryExpr); ok && (be.Op == token.LAND || be.Op == token.LOR) {
		// X && Y is true  : X true, then Y true.      X && Y is false : X false, or X true and Y false.
		// X || Y is false : X false, then Y false.    X || Y is true  : X true, or X false and Y true.
		both := (be.Op == token.LAND) == outcome
		if both {
			ag.refine(st, be.X, outcome)
			ag.refine(st, be.Y, outcome)
			return
		}
		a := st.clone()
		ag.refine(a, be.X, outcome)
		b := st.clone()
		ag.refine(b, be.X, !outcome)
		ag.refine(b, be.Y, outcome)
		for k := range st {
			delete(st, k)
		}
		st.join(a)
		st.join(b)
		return
	}
	if k, isEq, ok := ag.nilTest(e); ok && ag.tracked[k] && !ag.isSlice[k] {
		if isEq == outcome {
			st[k] = agMaybe // nil on this edge
		} else {
			st[k] = agSafe
		}
		return
	}
	if k, onTrue, onFalse, ok := ag.lenTest(e); ok && ag.tracked[k] {
		if (outcome && onTrue) || (!outcome && onFalse) {
			st[k] = agSafe
		} else {
			st[k] = agMaybe
		}
	}
}

func (ag *accessGuard) valueState(k string, rhs ast.Expr) uint8 {
	rhs = ast.Unparen(rhs)
	if ag.isSlice[k] {
		if call, ok := rhs.(*ast.CallExpr); ok {
			if id, ok := ast.Unparen(call.Fun).(*ast.Ident); ok && id.Name == "append" && len(call.Args) >= 2 && call.Ellipsis == token.NoPos {
				return agSafe
			}
		}
		if cl, ok := rhs.(*ast.CompositeLit); ok && len(cl.Elts) > 0 {
			return agSafe
		}
		return agMaybe
	}
	switch x := rhs.(type) {
	case *ast.UnaryExpr:
		if x.Op == token.AND {
			return agSafe
		}
	case *ast.Ident:
		if ag.isNil(x) {
			return agMaybe
		}
	case *ast.CallExpr:
		if id, ok := ast.Unparen(x.Fun).(*ast.Ident); ok && id.Name == "new" {
			if _, isBuiltin := ag.info.Uses[id].(*types.Builtin); isBuiltin {
				return agSafe
			}
		}
		// nilable sources: Load of an atomic pointer cell
		if sel, ok := ast.Unparen(x.Fun).(*ast.SelectorExpr); ok && sel.Sel.Name == "Load" && len(x.Args) == 0 {
			return agMaybe
		}
	case *ast.IndexExpr:
		if t := ag.info.TypeOf(x.X); t != nil {
			if _, isMap := t.Underlying().(*types.Map); isMap {
				return agMaybe
			}
		}
	case *ast.TypeAssertExpr:
		return agMaybe
	}
	return agTrusted
}

func (ag *accessGuard) transfer(st agState, n ast.Node) {
	switch x := n.(type) {
	case *ast.AssignStmt:
		for i, l := range x.Lhs {
			var k string
			if ag.isSlice[queueKey(ag.info, l)] {
				k = queueKey(ag.info, l)
			} else {
				k = pathKey(ag.info, l)
			}
			if !ag.tracked[k] {
				continue
			}
			if len(x.Rhs) == len(x.Lhs) {
				st[k] = ag.valueState(k, x.Rhs[i])
			} else {
				st[k] = agTrusted
				if ag.isSlice[k] {
					st[k] = agMaybe
				}
			}
		}
	case *ast.DeclStmt:
		if gd, ok := x.Decl.(*ast.GenDecl); ok {
			for _, sp := range gd.Specs {
				if vs, ok := sp.(*ast.ValueSpec); ok {
					for i, id := range vs.Names {
						k := pathKey(ag.info, id)
						if !ag.tracked[k] {
							continue
						}
						if i < len(vs.Values) {
							st[k] = ag.valueState(k, vs.Values[i])
						} else {
							st[k] = agMaybe // zero value: nil / empty
						}
					}
				}
			}
		}
	case *ast.ValueSpec:
		for i, id := range x.Names {
			k := pathKey(ag.info, id)
			if !ag.tracked[k] {
				continue
			}
			if i < len(x.Values) {
				st[k] = ag.valueState(k, x.Values[i])
			} else {
				st[k] = agMaybe
			}
		}
	case *ast.RangeStmt:
		// the loop variables are fresh values
		for _, e := range []ast.Expr{x.Key, x.Value} {
			if e != nil {
				if k := pathKey(ag.info, e); ag.tracked[k] {
					st[k] = agTrusted
				}
			}
		}
	}
	// taking the address of a tracked variable hands it to code we do not follow
	ag.walk(n, func(y ast.Node) {
		if u, ok := y.(*ast.UnaryExpr); ok && u.Op == token.AND {
			if k := pathKey(ag.info, u.X); ag.tracked[k] {
				st[k] = agTrusted
			}
		}
	})
}

const controlsAccessGuard = `
var verifControlAccessCell atomic.Pointer[int]

func verifControlAccessGuardPtr(a *int, b *int, out func(int)) {
	if a == nil {
		a = verifControlAccessCell.Load()
	}
	if b != nil {
		out(*a + *b)
	}
}

func verifControlAccessGuardQueue(qa []int, qb []int, out func(int)) {
	if len(qa) > 0 {
		out(qa[0] + qb[0])
		qa = qa[1:]
	}
	if len(qb) == 0 {
		return
	}
	out(qb[0])
}
`

package rules

import (
	"fmt"
	"go/ast"
	"go/constant"
	"go/token"
	"go/types"
	"strings"

	"golang.org/x/tools/go/packages"

	"rocheck/internal/check"
	"rocheck/internal/load"
	"rocheck/internal/model"
)

// MULTI-PRODUCER => SAFE: an SC whose destination can be reached from two possibly
// concurrent emission contexts must be built with a safe (or eventually-safe) constructor.
func ruleMultiProducerSafe() check.Rule {
	return check.Rule{
		Name:        "MULTI-PRODUCER=>SAFE",
		Doc:         "every subscribe closure whose destination is notified from two possibly-concurrent contexts (sibling un-awaited subscribe sites, dynamic fan-out, goroutine/timer plus anything else) is declared with a safe constructor; ordering facts S1-S4 (program order before a subscribe site, awaited subscriptions, sites in terminal slots, teardown after return) exclude infeasible pairs",
		NeedControl: true,
		Run: func(c *check.Ctx) {
			for _, sc := range c.M.SCs {
				armed := c.Armed(sc)
				var emits []*model.EmitSite
				for _, e := range sc.Emits {
					if e.ToDest {
						emits = append(emits, e)
					}
				}
				c.Inc("dest_emit_sites", len(emits))
				// find one witness pair
				var w1, w2 *model.EmitSite
				why := ""
				ctxs := map[*model.Ctx]bool{}
				for _, e := range emits {
					ctxs[e.Ctx] = true
				}
				for i := 0; i < len(emits) && w1 == nil; i++ {
					for j := i; j < len(emits); j++ {
						if conc, reason := model.MayRunConcurrently(model.PlaceOf(&emits[i].Rec), model.PlaceOf(&emits[j].Rec)); conc {
							w1, w2, why = emits[i], emits[j], reason
							break
						}
					}
				}
				key := sc.String() + "/mode"
				c.Inc("scs_checked", 1)
				if w1 == nil {
					if armed {
						c.OK(key, sc.Lit.Pos(), "mode %s; %d emitting contexts, all ordered by S1-S4 or a single sequential source", sc.Mode, len(ctxs))
					}
					continue
				}
				c.Inc("multi_producer_scs", 1)
				switch sc.Mode {
				case model.ModeSafe, model.ModeEventuallySafe:
					if armed {
						c.OK(key, sc.Lit.Pos(), "multi-producer (%s vs %s: %s) and declared %s", w1.Key, w2.Key, why, sc.Mode)
					}
				case model.ModeUnsafe:
					c.Report(armed, key, sc.Lit.Pos(), "destination is notified from possibly-concurrent contexts (%s at %s vs %s at %s: %s) but the observable is built with the unsafe constructor %s: callbacks of one observer can overlap",
						w1.Key, c.Prog.Rel(w1.Pos), w2.Key, c.Prog.Rel(w2.Pos), why, sc.Ctor.Fn.Name())
				default:
					if armed {
						c.Undecided(key, sc.Lit.Pos(), "multi-producer subscribe closure whose concurrency mode is not a constant (constructor %s)", sc.Ctor.Fn.Name())
					}
				}
			}
			unknownsFailClosed(c)
		},
	}
}

// NO-DOWNGRADE: a subscriber is never replaced by a weaker one.
func ruleNoDowngrade() check.Rule {
	return check.Rule{
		Name:        "NO-DOWNGRADE",
		Doc:         "(D1) the reuse of an existing subscriber in newSubscriberImpl depends on the requested mode; (D2) otherwise no subscribe closure of mode Unsafe hands its own destination upstream as the observer (the upstream observable, possibly multi-producer, would reuse the unsafe subscriber instead of serialising)",
		NeedControl: true,
		Run: func(c *check.Ctx) {
			m := c.M
			// D1: decide, from the source, whether the early return that reuses an existing
			// subscriber is reachable when the existing subscriber is weaker than requested
			fd := load.FuncDeclOf(m.Obj.Ro, "newSubscriberImpl")
			if fd == nil {
				c.Undecided("ro.newSubscriberImpl/reuse", m.Obj.Ro.Syntax[0].Pos(), "anchor newSubscriberImpl not found")
				return
			}
			info := m.Obj.Ro.TypesInfo
			var modeParam, destParam *types.Var
			for _, p := range model.FlattenParams(info, fd.Type.Params) {
				if p == nil {
					continue
				}
				if p.Type().String() == ro+".ConcurrencyMode" {
					modeParam = p
				}
				if model.IsNamed(p.Type(), m.Obj.Observer) {
					destParam = p
				}
			}
			modeConst := func(name string) constant.Value {
				k, _ := m.Obj.Ro.Types.Scope().Lookup(name).(*types.Const)
				if k == nil {
					return nil
				}
				return k.Val()
			}
			vals := map[string]constant.Value{"Safe": modeConst("ConcurrencyModeSafe"), "Unsafe": modeConst("ConcurrencyModeUnsafe"), "EventuallySafe": modeConst("ConcurrencyModeEventuallySafe")}
			// variables bound by type assertions on the destination: value idents (aliases of the existing
			// subscriber) and their ok flags
			aliases := map[types.Object]bool{}
			oks := map[types.Object]bool{}
			if destParam != nil {
				aliases[destParam] = true
			}
			for changed := true; changed; {
				changed = false
				ast.Inspect(fd.Body, func(n ast.Node) bool {
					as, ok := n.(*ast.AssignStmt)
					if !ok || len(as.Rhs) != 1 || len(as.Lhs) != 2 {
						return true
					}
					ta, ok := ast.Unparen(as.Rhs[0]).(*ast.TypeAssertExpr)
					if !ok {
						return true
					}
					if id, ok := ast.Unparen(ta.X).(*ast.Ident); ok && aliases[objOf(info, id)] {
						if v, ok := as.Lhs[0].(*ast.Ident); ok {
							if o := objOf(info, v); o != nil && !aliases[o] {
								aliases[o] = true
								changed = true
							}
						}
						if v, ok := as.Lhs[1].(*ast.Ident); ok {
							if o := objOf(info, v); o != nil {
								oks[o] = true
							}
						}
					}
					return true
				})
			}
			type reuseRet struct {
				ret   *ast.ReturnStmt
				conds []ast.Expr
				known bool
			}
			var reuses []reuseRet
			ast.Inspect(fd.Body, func(n ast.Node) bool {
				ret, ok := n.(*ast.ReturnStmt)
				if !ok || len(ret.Results) != 1 {
					return true
				}
				id, ok := ast.Unparen(ret.Results[0]).(*ast.Ident)
				if !ok || !aliases[objOf(info, id)] {
					return true
				}
				rr := reuseRet{ret: ret, known: true}
				for cn := ast.Node(ret); cn != nil && cn != ast.Node(fd); cn = m.Parent(m.Obj.Ro, cn) {
					if ifs, ok := m.Parent(m.Obj.Ro, cn).(*ast.IfStmt); ok {
						if cn == ifs.Body {
							rr.conds = append(rr.conds, ifs.Cond)
						} else if cn == ifs.Else {
							rr.known = false
						}
					}
					switch m.Parent(m.Obj.Ro, cn).(type) {
					case *ast.SwitchStmt, *ast.TypeSwitchStmt, *ast.ForStmt, *ast.RangeStmt, *ast.CaseClause:
						rr.known = false
					}
				}
				reuses = append(reuses, rr)
				return true
			})
			d1 := true
			var weak []string
			for _, pair := range [][2]string{{"Safe", "Unsafe"}, {"Safe", "EventuallySafe"}, {"EventuallySafe", "Unsafe"}} {
				req, ex := pair[0], pair[1]
				for _, rr := range reuses {
					ev := &evalEnv{m: m, info: info, vals: map[types.Object]constant.Value{}, bools: map[types.Object]tri{}}
					if modeParam != nil {
						ev.vals[modeParam] = vals[req]
					}
					for o := range oks {
						ev.bools[o] = triTrue
					}
					ev.sel = func(e *ast.SelectorExpr) constant.Value {
						if e.Sel.Name != "mode" {
							return nil
						}
						if id, ok := ast.Unparen(e.X).(*ast.Ident); ok && aliases[objOf(info, id)] {
							return vals[ex]
						}
						return nil
					}
					reach := triTrue
					if !rr.known {
						reach = triUnknown
					}
					for _, cnd := range rr.conds {
						switch ev.evalBool(cnd) {
						case triFalse:
							reach = triFalse
						case triUnknown:
							if reach != triFalse {
								reach = triUnknown
							}
						}
					}
					if reach != triFalse {
						d1 = false
						weak = append(weak, fmt.Sprintf("requested %s / existing %s", req, ex))
					}
				}
			}
			c.Inc("reuse_returns", len(reuses))
			switch {
			case len(reuses) == 0:
				c.OK("ro.newSubscriberImpl/reuse", fd.Pos(), "no reuse of an existing subscriber: every Subscribe wraps its destination in a subscriber of the observable's own mode")
			case d1:
				c.OK("ro.newSubscriberImpl/reuse", fd.Pos(), "the early return that reuses an existing subscriber is unreachable when the existing subscriber is weaker than the requested mode (decision table evaluated from the source for Safe/Unsafe, Safe/EventuallySafe, EventuallySafe/Unsafe)")
			default:
				c.Info("ro.newSubscriberImpl/reuse", fd.Pos(), "an existing subscriber can be reused although it is weaker than requested (%s): pass-through sites of unsafe operators are checked individually (D2)", strings.Join(uniq(weak), "; "))
			}
			// D2
			for _, sc := range m.SCs {
				n := 0
				for _, s := range sc.SubSites {
					if !s.PassThru {
						continue
					}
					n++
					c.Inc("pass_through_sites", 1)
					key := fmt.Sprintf("%s/pass-through#%d", sc, n)
					armed := c.Armed(sc)
					switch {
					case d1 && !check.IsControlName(sc.Name):
						if armed {
							c.OK(key, s.Pos, "subscriber reuse is mode-aware: the upstream wraps this destination in a subscriber of its own mode")
						}
					case sc.Mode == model.ModeUnsafe:
						c.Report(armed, key, s.Pos, "unsafe operator hands its own (unsafe) destination upstream as the observer; because an existing subscriber is reused regardless of mode, a multi-producer upstream (Merge, CombineLatest, ...) delivers through it without serialisation")
					case sc.Mode == model.ModeUnknown:
						if armed {
							c.Undecided(key, s.Pos, "pass-through site in a subscribe closure of unknown mode")
						}
					default:
						if armed {
							c.OK(key, s.Pos, "destination is the %s subscriber of this operator", sc.Mode)
						}
					}
				}
			}
		},
	}
}

// MODE-TABLE: constructor names, the mode switch and the stored mode agree.
func ruleModeTable() check.Rule {
	return check.Rule{
		Name: "MODE-TABLE",
		Doc:  "each New*Observable* constructor resolves (through its delegation chain) to the mode its name says; NewSubscriberWithConcurrencyMode maps Safe->(real mutex, block), Unsafe->(no-op mutex, block), EventuallySafe->(real mutex, drop) exhaustively; observableImpl stores and passes its mode; the xsync mutexes are what their names say",
		Run: func(c *check.Ctx) {
			m := c.M
			roPkg := m.Obj.Ro
			info := roPkg.TypesInfo
			for fn, ci := range m.Obj.Ctors {
				name := fn.Name()
				if ci.ModeArg >= 0 {
					continue
				}
				want := model.ModeSafe
				switch {
				case strings.Contains(name, "EventuallySafe"):
					want = model.ModeEventuallySafe
				case strings.Contains(name, "Unsafe"):
					want = model.ModeUnsafe
				}
				key := "ro." + name + "/mode"
				c.Inc("constructors", 1)
				if ci.Mode == model.ModeUnknown {
					c.Undecided(key, fn.Pos(), "constructor taking a subscribe function whose mode cannot be derived from its delegation chain")
				} else if ci.Mode != want {
					c.Violation(key, fn.Pos(), "constructor %s resolves to mode %s via %s, its name says %s", name, ci.Mode, strings.Join(ci.Chain, " -> "), want)
				} else {
					c.OK(key, fn.Pos(), "%s via %s", ci.Mode, strings.Join(ci.Chain, " -> "))
				}
			}
			// the switch in NewSubscriberWithConcurrencyMode
			fd := load.FuncDeclOf(roPkg, "NewSubscriberWithConcurrencyMode")
			if fd == nil {
				c.Undecided("ro.NewSubscriberWithConcurrencyMode/switch", roPkg.Syntax[0].Pos(), "anchor not found")
				return
			}
			want := map[model.Mode][2]string{
				model.ModeSafe:           {"NewMutexWithLock", "BackpressureBlock"},
				model.ModeUnsafe:         {"NewMutexWithoutLock", "BackpressureBlock"},
				model.ModeEventuallySafe: {"NewMutexWithLock", "BackpressureDrop"},
			}
			seen := map[model.Mode]bool{}
			var sw *ast.SwitchStmt
			ast.Inspect(fd.Body, func(n ast.Node) bool {
				if s, ok := n.(*ast.SwitchStmt); ok && sw == nil {
					sw = s
				}
				return true
			})
			if sw == nil {
				c.Undecided("ro.NewSubscriberWithConcurrencyMode/switch", fd.Pos(), "no switch over the concurrency mode found")
				return
			}
			for _, cl := range sw.Body.List {
				cc := cl.(*ast.CaseClause)
				for _, e := range cc.List {
					tv := info.Types[e]
					mode := m.Obj.ModeOfValue(tv.Value)
					if mode == model.ModeUnknown {
						continue
					}
					seen[mode] = true
					key := fmt.Sprintf("ro.NewSubscriberWithConcurrencyMode/case-%s", mode)
					var mutexCtor, bp string
					passesMode := false
					ast.Inspect(cc, func(n ast.Node) bool {
						call, ok := n.(*ast.CallExpr)
						if !ok {
							return true
						}
						callee := model.Callee(info, call)
						if callee != nil && callee.Pkg() != nil && strings.HasSuffix(callee.Pkg().Path(), "internal/xsync") {
							mutexCtor = callee.Name()
						}
						if callee != nil && callee.Name() == "newSubscriberImpl" {
							for _, a := range call.Args {
								if tv, ok := info.Types[a]; ok && tv.Value != nil && tv.Type.String() == ro+".Backpressure" {
									if id, ok := ast.Unparen(a).(*ast.Ident); ok {
										bp = id.Name
									}
								}
								if id, ok := ast.Unparen(a).(*ast.Ident); ok {
									if v, ok := objOf(info, id).(*types.Var); ok && v.Type().String() == ro+".ConcurrencyMode" {
										passesMode = true
									}
								}
							}
						}
						return true
					})
					w := want[mode]
					if mutexCtor != w[0] || bp != w[1] || !passesMode {
						c.Violation(key, cc.Pos(), "mode %s builds its subscriber with (%s, %s, passes mode=%v); expected (%s, %s, true)", mode, mutexCtor, bp, passesMode, w[0], w[1])
					} else {
						c.OK(key, cc.Pos(), "(%s, %s)", mutexCtor, bp)
					}
				}
			}
			for mode := range want {
				if !seen[mode] {
					c.Violation(fmt.Sprintf("ro.NewSubscriberWithConcurrencyMode/case-%s", mode), sw.Pos(), "the switch has no case for mode %s", mode)
				}
			}
			// Backpressure constants distinct
			bb, _ := roPkg.Types.Scope().Lookup("BackpressureBlock").(*types.Const)
			bd, _ := roPkg.Types.Scope().Lookup("BackpressureDrop").(*types.Const)
			if bb == nil || bd == nil || constant.Compare(bb.Val(), token.EQL, bd.Val()) {
				c.Violation("ro.Backpressure/constants", sw.Pos(), "BackpressureBlock and BackpressureDrop are missing or equal")
			} else {
				c.OK("ro.Backpressure/constants", bb.Pos(), "distinct")
			}
			// observableImpl stores and passes its mode
			checkModePlumbing(c)
			checkXsync(c)
		},
	}
}

func checkModePlumbing(c *check.Ctx) {
	m := c.M
	roPkg := m.Obj.Ro
	info := roPkg.TypesInfo
	// newSubscriberImpl: the subscriber literal takes mode, mu, backpressure and destination from the parameters
	if fd := load.FuncDeclOf(roPkg, "newSubscriberImpl"); fd != nil {
		params := map[types.Object]bool{}
		for _, prm := range model.FlattenParams(info, fd.Type.Params) {
			if prm != nil {
				params[prm] = true
			}
		}
		got := map[string]bool{}
		ast.Inspect(fd.Body, func(n ast.Node) bool {
			cl, ok := n.(*ast.CompositeLit)
			if !ok {
				return true
			}
			if nn := load.NamedOf(info.TypeOf(cl)); nn == nil || nn.Obj().Name() != "subscriberImpl" {
				return true
			}
			for _, el := range cl.Elts {
				if kv, ok := el.(*ast.KeyValueExpr); ok {
					if k, ok := kv.Key.(*ast.Ident); ok {
						if id, ok := ast.Unparen(kv.Value).(*ast.Ident); ok && params[objOf(info, id)] {
							got[k.Name] = true
						}
					}
				}
			}
			return true
		})
		for _, f := range []string{"mode", "mu", "backpressure", "destination"} {
			key := "ro.newSubscriberImpl/stores-" + f
			if got[f] {
				c.OK(key, fd.Pos(), "field %s is initialised from the constructor's parameter", f)
			} else {
				c.Violation(key, fd.Pos(), "the subscriber literal does not initialise field %s from the constructor's parameter: the subscriber would report/use the zero value (mode Safe, nil mutex, blocking, no destination) whatever was requested", f)
			}
		}
	} else {
		c.Undecided("ro.newSubscriberImpl/stores-mode", roPkg.Syntax[0].Pos(), "anchor not found")
	}
	// NewObservableWithConcurrencyMode: composite literal field mode: <param mode>
	if fd := load.FuncDeclOf(roPkg, "NewObservableWithConcurrencyMode"); fd != nil {
		ok := false
		ast.Inspect(fd.Body, func(n ast.Node) bool {
			kv, isKV := n.(*ast.KeyValueExpr)
			if !isKV {
				return true
			}
			if k, isID := kv.Key.(*ast.Ident); isID && k.Name == "mode" {
				if id, isID := ast.Unparen(kv.Value).(*ast.Ident); isID {
					if v, isVar := objOf(info, id).(*types.Var); isVar {
						for _, p := range model.FlattenParams(info, fd.Type.Params) {
							if p == v {
								ok = true
							}
						}
					}
				}
			}
			return true
		})
		if ok {
			c.OK("ro.NewObservableWithConcurrencyMode/stores-mode", fd.Pos(), "the mode parameter is stored in observableImpl.mode")
		} else {
			c.Violation("ro.NewObservableWithConcurrencyMode/stores-mode", fd.Pos(), "the requested concurrency mode is not what is stored in observableImpl.mode")
		}
	} else {
		c.Undecided("ro.NewObservableWithConcurrencyMode/stores-mode", roPkg.Syntax[0].Pos(), "anchor not found")
	}
	// observableImpl.SubscribeWithContext: NewSubscriberWithConcurrencyMode(destination, s.mode)
	if fd := load.FuncDeclOf(roPkg, "observableImpl.SubscribeWithContext"); fd != nil {
		ok := false
		ast.Inspect(fd.Body, func(n ast.Node) bool {
			call, isCall := n.(*ast.CallExpr)
			if !isCall {
				return true
			}
			callee := model.Callee(info, call)
			if callee != nil && callee.Name() == "NewSubscriberWithConcurrencyMode" && len(call.Args) == 2 {
				if sel, isSel := ast.Unparen(call.Args[1]).(*ast.SelectorExpr); isSel && sel.Sel.Name == "mode" {
					if s, has := info.Selections[sel]; has && s.Kind() == types.FieldVal {
						ok = true
					}
				}
			}
			return true
		})
		if ok {
			c.OK("ro.observableImpl.SubscribeWithContext/passes-mode", fd.Pos(), "the destination is wrapped with the observable's own mode")
		} else {
			c.Violation("ro.observableImpl.SubscribeWithContext/passes-mode", fd.Pos(), "the subscriber is not created with the observable's stored mode")
		}
	} else {
		c.Undecided("ro.observableImpl.SubscribeWithContext/passes-mode", roPkg.Syntax[0].Pos(), "anchor not found")
	}
}

// checkXsync: MutexWithLock delegates to sync.Mutex; MutexWithoutLock is the only no-op.
func checkXsync(c *check.Ctx) {
	p := c.Prog.ByPath[ro+"/internal/xsync"]
	if p == nil {
		c.Undecided("xsync/loaded", c.M.Obj.Ro.Syntax[0].Pos(), "package internal/xsync not loaded")
		return
	}
	info := p.TypesInfo
	for _, mth := range []string{"Lock", "Unlock", "TryLock"} {
		fd := load.FuncDeclOf(p, "MutexWithLock."+mth)
		key := "xsync.MutexWithLock." + mth
		if fd == nil {
			c.Undecided(key, p.Syntax[0].Pos(), "anchor not found")
			continue
		}
		ok := false
		ast.Inspect(fd.Body, func(n ast.Node) bool {
			call, isCall := n.(*ast.CallExpr)
			if !isCall {
				return true
			}
			callee := model.Callee(info, call)
			if model.IsMethod(callee, "sync", "Mutex", mth) {
				ok = true
			}
			return true
		})
		if ok {
			c.OK(key, fd.Pos(), "delegates to sync.Mutex.%s", mth)
		} else {
			c.Violation(key, fd.Pos(), "MutexWithLock.%s does not call sync.Mutex.%s: the 'safe' subscriber lock would not exclude anything", mth, mth)
		}
	}
	// spinlock: Lock loops on CAS(&lock, 0, 1); Unlock stores 0
	if fd := load.FuncDeclOf(p, "MutexWithSpinlock.Lock"); fd != nil {
		loop, cas := false, false
		ast.Inspect(fd.Body, func(n ast.Node) bool {
			if f, ok := n.(*ast.ForStmt); ok {
				loop = true
				ast.Inspect(f, func(x ast.Node) bool {
					if call, ok := x.(*ast.CallExpr); ok {
						if model.IsPkgFunc(model.Callee(info, call), "sync/atomic", "CompareAndSwapInt32") && len(call.Args) == 3 {
							a, b := info.Types[call.Args[1]].Value, info.Types[call.Args[2]].Value
							if a != nil && b != nil && a.String() == "0" && b.String() == "1" {
								cas = true
							}
						}
					}
					return true
				})
			}
			return true
		})
		if loop && cas {
			c.OK("xsync.MutexWithSpinlock.Lock", fd.Pos(), "spins on CompareAndSwap(&lock, 0, 1)")
		} else {
			c.Violation("xsync.MutexWithSpinlock.Lock", fd.Pos(), "spinlock Lock is not a loop over CompareAndSwap(&lock, 0, 1)")
		}
	} else {
		c.Undecided("xsync.MutexWithSpinlock.Lock", p.Syntax[0].Pos(), "anchor not found")
	}
	if fd := load.FuncDeclOf(p, "MutexWithSpinlock.Unlock"); fd != nil {
		ok := false
		ast.Inspect(fd.Body, func(n ast.Node) bool {
			if call, isCall := n.(*ast.CallExpr); isCall {
				if model.IsPkgFunc(model.Callee(info, call), "sync/atomic", "StoreInt32") && len(call.Args) == 2 {
					if v := info.Types[call.Args[1]].Value; v != nil && v.String() == "0" {
						ok = true
					}
				}
			}
			return true
		})
		if ok {
			c.OK("xsync.MutexWithSpinlock.Unlock", fd.Pos(), "stores 0")
		} else {
			c.Violation("xsync.MutexWithSpinlock.Unlock", fd.Pos(), "spinlock Unlock does not store 0")
		}
	}
}

const controlsC02 = `
func verifControlMultiProducerUnsafe[T any](other Observable[T]) func(Observable[T]) Observable[T] {
	return func(source Observable[T]) Observable[T] {
		return NewUnsafeObservableWithContext(func(subscriberCtx context.Context, destination Observer[T]) Teardown {
			subscriptions := NewSubscription(nil)
			subscriptions.AddUnsubscribable(source.SubscribeWithContext(subscriberCtx, NewObserverWithContext(
				destination.NextWithContext, destination.ErrorWithContext, destination.CompleteWithContext)))
			subscriptions.AddUnsubscribable(other.SubscribeWithContext(subscriberCtx, NewObserverWithContext(
				destination.NextWithContext, destination.ErrorWithContext, func(ctx context.Context) {})))
			return subscriptions.Unsubscribe
		})
	}
}

func verifControlPassThroughUnsafe[T any]() func(Observable[T]) Observable[T] {
	return func(source Observable[T]) Observable[T] {
		return NewUnsafeObservableWithContext(func(subscriberCtx context.Context, destination Observer[T]) Teardown {
			sub := source.SubscribeWithContext(subscriberCtx, destination)
			return sub.Unsubscribe
		})
	}
}
`

// LOCK-REGION: every delivery of subscriberImpl happens with the producer lock held.
func ruleLockRegion() check.Rule {
	return check.Rule{
		Name: "LOCK-REGION",
		Doc:  "in subscriberImpl every call through the destination field happens with the producer lock s.mu held, every exit releases it, and the TryLock-and-drop path is control-dependent on backpressure == BackpressureDrop",
		Run: func(c *check.Ctx) {
			m := c.M
			p := m.Obj.Ro
			info := p.TypesInfo
			h := newHeldDB(m)
			delivering := 0
			for _, fd := range methodsOf(p, "subscriberImpl") {
				if fd.Body == nil {
					continue
				}
				rv := recvObj(info, fd)
				res := h.resultOf(p, fd)
				n := 0
				ast.Inspect(fd.Body, func(x ast.Node) bool {
					call, ok := x.(*ast.CallExpr)
					if !ok {
						return true
					}
					sel, ok := ast.Unparen(call.Fun).(*ast.SelectorExpr)
					if !ok {
						return true
					}
					inner, ok := ast.Unparen(sel.X).(*ast.SelectorExpr)
					if !ok || fieldSelOf(info, inner, rv) == nil || inner.Sel.Name != "destination" {
						return true
					}
					if _, _, isEmit := emitKindName(sel.Sel.Name); !isEmit {
						return true
					}
					n++
					key := fmt.Sprintf("ro.subscriberImpl.%s/deliver#%d", fd.Name.Name, n)
					held := h.heldNorm(p, call)
					if held["recv.mu"] {
						c.OK(key, call.Pos(), "destination.%s is called with the producer lock held", sel.Sel.Name)
					} else {
						c.Violation(key, call.Pos(), "destination.%s is called without the producer lock s.mu (held: %s): deliveries of one subscription can overlap", sel.Sel.Name, held)
					}
					return true
				})
				if n == 0 {
					continue
				}
				delivering++
				// exits
				leak := false
				for _, ex := range res.Exits {
					if len(ex.Held) > 0 {
						leak = true
						c.Violation(fmt.Sprintf("ro.subscriberImpl.%s/unlock", fd.Name.Name), ex.Pos, "an exit of the method may leave %s held", ex.Held)
					}
				}
				if !leak {
					c.OK(fmt.Sprintf("ro.subscriberImpl.%s/unlock", fd.Name.Name), fd.Pos(), "every exit (%d) has released the producer lock", len(res.Exits))
				}
				// TryLock under the drop test, and never for terminal notifications
				for _, op := range res.Ops {
					if op.Kind != "TryLock" {
						continue
					}
					key := fmt.Sprintf("ro.subscriberImpl.%s/trylock", fd.Name.Name)
					if notifKind(fd.Name.Name) > 0 {
						c.Violation(key, op.Call.Pos(), "a terminal notification takes the producer lock with TryLock: under contention the Error/Complete is dropped and never reaches the subscriber")
						continue
					}
					// control dependence on `backpressure == BackpressureDrop`, in the if form or the switch form
					dropAtom := func(e ast.Expr) int {
						be, ok := ast.Unparen(e).(*ast.BinaryExpr)
						if !ok || (be.Op != token.EQL && be.Op != token.NEQ) {
							return 0
						}
						fieldOK, constOK := false, false
						for _, side := range []ast.Expr{be.X, be.Y} {
							if s := fieldSelOf(info, side, rv); s != nil && s.Sel.Name == "backpressure" {
								fieldOK = true
							}
							if id, ok := ast.Unparen(side).(*ast.Ident); ok {
								if k, ok := objOf(info, id).(*types.Const); ok && k.Name() == "BackpressureDrop" {
									constOK = true
								}
							}
						}
						if !fieldOK || !constOK {
							return 0
						}
						if be.Op == token.EQL {
							return +1
						}
						return -1
					}
					guarded := guardedBy(fd.Body, op.Call, dropAtom)
					if guarded {
						c.OK(key, op.Call.Pos(), "TryLock (drop on contention) only under backpressure == BackpressureDrop")
					} else {
						c.Violation(key, op.Call.Pos(), "TryLock-and-drop is not confined to BackpressureDrop: a blocking (safe) subscriber could drop values instead of exerting backpressure")
					}
				}
			}
			c.Inc("delivering_methods", delivering)
		},
	}
}

func emitKindName(name string) (int, bool, bool) {
	switch name {
	case "Next", "NextWithContext":
		return model.EmitNext, name != "Next", true
	case "Error", "ErrorWithContext":
		return model.EmitError, name != "Error", true
	case "Complete", "CompleteWithContext":
		return model.EmitComplete, name != "Complete", true
	}
	return 0, false, false
}

// subjectTypes lists the struct types of package ro that are subjects: they implement both
// sides (NextWithContext and SubscribeWithContext) and own a mutex field `mu`.
func subjectTypes(m *model.Model) []string {
	var out []string
	p := m.Obj.Ro
	scope := p.Types.Scope()
	for _, name := range scope.Names() {
		tn, ok := scope.Lookup(name).(*types.TypeName)
		if !ok {
			continue
		}
		st, ok := tn.Type().Underlying().(*types.Struct)
		if !ok {
			continue
		}
		hasMu := false
		for i := 0; i < st.NumFields(); i++ {
			if st.Field(i).Name() == "mu" {
				hasMu = true
			}
		}
		if !hasMu {
			continue
		}
		ms := map[string]bool{}
		for _, fd := range methodsOf(p, name) {
			ms[fd.Name.Name] = true
		}
		if ms["NextWithContext"] && ms["SubscribeWithContext"] {
			out = append(out, name)
		}
	}
	return out
}

// SUBJECT-BROADCAST-LOCKED: subjects notify their stored observers while holding their mutex.
func ruleSubjectBroadcastLocked() check.Rule {
	return check.Rule{
		Name: "SUBJECT-BROADCAST-LOCKED",
		Doc:  "every notification a subject sends to a stored observer is issued with the subject mutex held (directly, inside a helper all of whose call sites hold it, or inside a sync.Map.Range callback of such a region); the only exception is a deferred hand-off to a single observer that was wrapped by the safe NewSubscriber (unicast)",
		Run: func(c *check.Ctx) {
			m := c.M
			p := m.Obj.Ro
			info := p.TypesInfo
			h := newHeldDB(m)
			subjects := subjectTypes(m)
			c.Inc("subject_types", len(subjects))
			for _, tname := range subjects {
				cnt := map[string]int{}
				for _, fd := range methodsOf(p, tname) {
					if fd.Body == nil {
						continue
					}
					rv := recvObj(info, fd)
					ast.Inspect(fd.Body, func(x ast.Node) bool {
						call, ok := x.(*ast.CallExpr)
						if !ok {
							return true
						}
						callee := model.Callee(info, call)
						name, isObs := m.Obj.ObserverMethods[callee]
						if !isObs {
							return true
						}
						if _, _, isEmit := emitKindName(name); !isEmit {
							return true
						}
						sel := callSelector(info, call)
						if sel == nil {
							return true
						}
						// calls on the receiver itself are the context-less entry points
						if id, ok := ast.Unparen(sel.X).(*ast.Ident); ok && objOf(info, id) == rv {
							return true
						}
						cnt[fd.Name.Name]++
						key := fmt.Sprintf("ro.%s.%s/notify#%d", tname, fd.Name.Name, cnt[fd.Name.Name])
						c.Inc("subject_notifications", 1)
						held := h.heldNorm(p, call)
						if held["recv.mu"] {
							c.OK(key, call.Pos(), "%s issued with the subject mutex held", name)
							return true
						}
						// deferred hand-off: allowed when the observer variable was loaded from a field that only
						// ever holds the result of NewSubscriber/NewSafeSubscriber
						if _, isDefer := m.Parent(p, call).(*ast.DeferStmt); isDefer {
							if why := safeStoredObserver(m, p, tname, sel.X); why != "" {
								c.OK(key, call.Pos(), "deferred hand-off outside the mutex to a single observer that is %s", why)
								return true
							}
						}
						c.Violation(key, call.Pos(), "%s is sent to a stored observer without the subject mutex (held: %s): concurrent producers can make one observer's callbacks overlap", name, held)
						return true
					})
				}
			}
		},
	}
}

// safeStoredObserver: e is a local copy of a field of the subject whose every store is the
// result of a safe subscriber constructor (or nil).
func safeStoredObserver(m *model.Model, p *packages.Package, tname string, e ast.Expr) string {
	info := p.TypesInfo
	id, ok := ast.Unparen(e).(*ast.Ident)
	if !ok {
		return ""
	}
	v := objOf(info, id)
	defs := m.Defs[v]
	if len(defs) != 1 || defs[0].Expr == nil {
		return ""
	}
	fs, ok := ast.Unparen(defs[0].Expr).(*ast.SelectorExpr)
	if !ok {
		return ""
	}
	sel, ok := info.Selections[fs]
	if !ok || sel.Kind() != types.FieldVal {
		return ""
	}
	fpos := sel.Obj().Pos()
	// every assignment to that field in the methods of the type
	okAll, n := true, 0
	for _, fd := range methodsOf(p, tname) {
		if fd.Body == nil {
			continue
		}
		ast.Inspect(fd.Body, func(x ast.Node) bool {
			as, ok := x.(*ast.AssignStmt)
			if !ok || len(as.Lhs) != len(as.Rhs) {
				return true
			}
			for i, l := range as.Lhs {
				ls, ok := ast.Unparen(l).(*ast.SelectorExpr)
				if !ok {
					continue
				}
				s2, ok := info.Selections[ls]
				if !ok || s2.Obj().Pos() != fpos {
					continue
				}
				n++
				r := ast.Unparen(as.Rhs[i])
				if rid, ok := r.(*ast.Ident); ok {
					if _, isNil := info.Uses[rid].(*types.Nil); isNil {
						continue
					}
					rdefs := m.Defs[objOf(info, rid)]
					if len(rdefs) == 1 && rdefs[0].Expr != nil {
						if call, ok := ast.Unparen(rdefs[0].Expr).(*ast.CallExpr); ok {
							if mode, ok := m.Obj.SubscriberCtors[model.Callee(info, call)]; ok && mode == model.ModeSafe {
								continue
							}
						}
					}
				}
				okAll = false
			}
			return true
		})
	}
	if okAll && n > 0 {
		return "always a safe subscriber (NewSubscriber)"
	}
	return ""
}

func C02() *check.Property {
	return &check.Property{
		ID:       "C02",
		Title:    "Serialized delivery: an observer's callbacks never overlap",
		Patterns: cat(CorePatterns, PluginPkgs, IOPluginPkgs, []string{PromPkg}, RatePkgs),
		Scope:    append([]string{ro}, IOPluginPkgs...),
		Rules:    []check.Rule{ruleMultiProducerSafe(), ruleNoDowngrade(), ruleModeTable(), ruleLockRegion(), ruleSubjectBroadcastLocked(), ruleWrap()},
		Explanation: "Static argument in five structural premises. (1) LOCK-REGION: every delivery of a subscriber happens inside the lock region of its producer lock (CFG lock-set data-flow). " +
			"(2) MODE-TABLE: that lock is a real mutex exactly for safe/eventually-safe observables (constructor delegation chains, the mode switch and the xsync mutexes are checked, not trusted by name). " +
			"(3) MULTI-PRODUCER=>SAFE: from the model of each subscribe closure (subscribe sites, goroutines, timers, local closures, inlined helpers) the contexts that can notify the destination are computed and every pair that " +
			"is not ordered by program order before a subscribe site, an awaited subscription, a site in a terminal slot or teardown-after-return must be covered by a safe constructor. (4) NO-DOWNGRADE: the reuse of an existing " +
			"subscriber is evaluated as a decision table from the source: it must be unreachable when the existing subscriber is weaker than requested; otherwise every unsafe pass-through site is a violation. " +
			"(5) SUBJECT-BROADCAST-LOCKED: subjects notify stored observers under their mutex.",
		NotDecided:  "overlap caused by user-written observables or custom Observer implementations; fairness; that a source assumed sequential really is; the mutual exclusion provided by sync.Mutex itself.",
		Assumptions: []string{"every individual source is sequential (the property's own hypothesis)", "sync.Mutex and sync/atomic behave as specified", "the model walker understood every construct of the armed subscribe closures (unknown constructs fail closed)"},
		Floors:      map[string]int{"scs_checked": 120, "multi_producer_scs": 20, "dest_emit_sites": 350, "constructors": 10, "delivering_methods": 3, "subject_types": 5, "subject_notifications": 15},
		Controls:    map[string]string{"zz_verif_controls_c02.go": roControl(controlsC02), "zz_verif_controls_c01.go": roControl(controlsC01)},
	}
}

package rules

import (
	"fmt"
	"go/ast"
	"go/token"
	"go/types"
	"strings"

	"rocheck/internal/check"
	"rocheck/internal/model"
)

// synchronousWithSubscribe: code in this context runs before the subscribe closure returns
// (no goroutine / timer / teardown hop on the way from the closure body).
func synchronousWithSubscribe(c *model.Ctx) bool {
	for ; c != nil; c = c.Parent {
		switch c.Kind {
		case model.KGo, model.KTimer, model.KTeardown:
			return false
		}
	}
	return true
}

// isCtxDone reports whether e is <x>.Done() on a context value; returns the receiver.
func isCtxDone(info *types.Info, e ast.Expr) (ast.Expr, bool) {
	call, ok := ast.Unparen(e).(*ast.CallExpr)
	if !ok {
		return nil, false
	}
	sel, ok := ast.Unparen(call.Fun).(*ast.SelectorExpr)
	if !ok || sel.Sel.Name != "Done" {
		return nil, false
	}
	if t := info.TypeOf(sel.X); t != nil && model.IsContext(t) {
		return sel.X, true
	}
	return nil, false
}

func isTimerChan(info *types.Info, e ast.Expr) bool {
	switch x := ast.Unparen(e).(type) {
	case *ast.SelectorExpr:
		if x.Sel.Name == "C" {
			if t := info.TypeOf(x.X); t != nil {
				s := t.String()
				return strings.HasSuffix(s, "time.Timer") || strings.HasSuffix(s, "time.Ticker")
			}
		}
	case *ast.CallExpr:
		if cl := model.Callee(info, x); model.IsPkgFunc(cl, "time", "After") {
			return true
		}
	}
	return false
}

// NO-UNCANCELLABLE-BLOCK
func ruleNoUncancellableBlock() check.Rule {
	return check.Rule{
		Name:        "NO-UNCANCELLABLE-BLOCK",
		Doc:         "no unbounded wait (Subscription.Wait, Collect, range over a channel, select without a timer case) executes before the subscribe closure returns unless downstream termination can release it at that time, i.e. the waited-on subscription/channel is closed by a teardown registered on the destination itself; the operator's own teardown only exists after the closure returned and does not count",
		NeedControl: true,
		Run: func(c *check.Ctx) {
			m := c.M
			for _, sc := range m.SCs {
				armed := c.Armed(sc)
				// registrations on the destination made before blocking
				registered := map[string]bool{}
				for _, op := range sc.SubOps {
					if (op.Method == "Add" || op.Method == "AddUnsubscribable") && op.Recv != nil && op.Recv.Kind == model.AVDest {
						if n := resNode(op.Pkg.TypesInfo, op.Arg, op.ArgExpr); n != "" {
							registered[n] = true
						}
						if op.Arg != nil && op.Arg.Kind == model.AVMethodVal && op.Arg.Method != nil && op.Arg.Method.Name() == "Unsubscribe" {
							if n := resNode(op.Pkg.TypesInfo, op.Arg.Recv, recvExprOfSel(op.Arg.Expr)); n != "" {
								registered[n] = true
							}
						}
					}
				}
				// edges: sub -> composite it was added to
				ra := analyseRelease(m, sc)
				reach := func(n string) bool {
					seen := map[string]bool{}
					var dfs func(string) bool
					dfs = func(x string) bool {
						if registered[x] {
							return true
						}
						if seen[x] {
							return false
						}
						seen[x] = true
						for _, to := range ra.edges[x] {
							if dfs(to) {
								return true
							}
						}
						return false
					}
					return dfs(n)
				}
				cnt := map[string]int{}
				report := func(b *model.BlockSite, what string, node string) {
					cnt[what]++
					key := fmt.Sprintf("%s/%s/block-%s#%d", sc, model.CtxKey(b.Ctx, b.Slot), what, cnt[what])
					c.Inc("blocking_sites_in_subscribe", 1)
					if node != "" && reach(node) {
						if armed {
							c.OK(key, b.Pos, "the waited-on subscription is unsubscribed by a teardown registered on the destination: downstream termination releases the wait")
						}
						return
					}
					c.Report(armed, key, b.Pos, "%s blocks inside the subscribe function and nothing registered on the destination can end it: when downstream terminates early (Take, First, Unsubscribe) the upstream is not cancelled and Subscribe does not return until the source ends by itself", what)
				}
				for _, b := range sc.Blocks {
					if !synchronousWithSubscribe(b.Ctx) {
						continue
					}
					switch b.What {
					case "wait":
						report(b, "wait", resNode(b.Pkg.TypesInfo, b.Recv, b.Expr))
					case "range-chan":
						report(b, "range-chan", resNode(b.Pkg.TypesInfo, nil, b.Expr))
					case "select":
						bounded := false
						for _, ch := range b.Chans {
							if isTimerChan(b.Pkg.TypesInfo, ch) {
								bounded = true
							}
						}
						if bounded {
							if armed {
								c.OK(fmt.Sprintf("%s/%s/select-timer", sc, model.CtxKey(b.Ctx, b.Slot)), b.Pos, "select bounded by a timer channel")
							}
							continue
						}
						report(b, "select", "")
					}
				}
				// Collect inside a subscribe closure waits for the whole source
				ncol := 0
				ast.Inspect(sc.Lit.Body, func(n ast.Node) bool {
					call, ok := n.(*ast.CallExpr)
					if !ok {
						return true
					}
					cl := model.Callee(sc.Pkg.TypesInfo, call)
					if model.IsPkgFunc(cl, ro, "Collect") || model.IsPkgFunc(cl, ro, "CollectWithContext") {
						ncol++
						c.Inc("blocking_sites_in_subscribe", 1)
						c.Report(armed, fmt.Sprintf("%s/collect#%d", sc, ncol), call.Pos(), "%s waits for the whole source inside the subscribe function: early downstream termination cannot cancel the source", cl.Name())
					}
					return true
				})
			}
			unknownsFailClosed(c)
		},
	}
}

// AWAITED-REGISTERED: a subscription that is awaited inside the subscribe function is first handed to a composite
// subscription of the operator (so that something can unsubscribe it while the wait lasts).
func ruleAwaitedRegistered() check.Rule {
	return check.Rule{
		Name: "AWAITED-REGISTERED",
		Doc:  "every subscription that an operator awaits (Subscription.Wait) before its subscribe function returns is handed to a composite subscription of the operator with AddUnsubscribable - something other than itself - on every path before the wait starts: while the wait lasts the operator's own teardown does not exist yet, so the composite is the only handle through which the attempt can be cancelled",
		Run: func(c *check.Ctx) {
			m := c.M
			for _, sc := range m.SCs {
				armed := c.Armed(sc)
				cnt := map[string]int{}
				for _, b := range sc.Blocks {
					if !synchronousWithSubscribe(b.Ctx) || b.What != "wait" {
						continue
					}
					cnt["wait"]++
					c.Inc("awaited_subscriptions", 1)
					// a subscription that is handed to a composite must be handed over before it is awaited
					if wn := resNode(b.Pkg.TypesInfo, b.Recv, b.Expr); wn != "" && b.Node != nil {
						fn := innermostFunc(m, b.Pkg, b.Node)
						registeredAtAll := false
						// what a registration hands over: AddUnsubscribable(x), or the equivalent Add(x.Unsubscribe)
						regNode := func(op *model.SubOp) (string, ast.Expr) {
							switch op.Method {
							case "AddUnsubscribable":
								return resNode(op.Pkg.TypesInfo, op.Arg, op.ArgExpr), op.ArgExpr
							case "Add":
								if sel, ok := ast.Unparen(op.ArgExpr).(*ast.SelectorExpr); ok && sel.Sel.Name == "Unsubscribe" {
									var recv *model.AV
									if op.Arg != nil && op.Arg.Kind == model.AVMethodVal {
										recv = op.Arg.Recv
									}
									return resNode(op.Pkg.TypesInfo, recv, sel.X), sel.X
								}
							}
							return "", nil
						}
						for _, op := range sc.SubOps {
							rn, rexpr := regNode(op)
							if rn != "" && op.Call != nil && innermostFunc(m, op.Pkg, op.Call) == fn && rn == wn &&
								resNode(op.Pkg.TypesInfo, op.Recv, op.RecvExpr) != wn && resNode(op.Pkg.TypesInfo, nil, op.RecvExpr) != resNode(op.Pkg.TypesInfo, nil, rexpr) {
								registeredAtAll = true // handed to something other than itself
							}
						}
						if !registeredAtAll && strings.HasPrefix(wn, "site#") {
							c.Report(armed, fmt.Sprintf("%s/%s/registered-before-wait#%d", sc, model.CtxKey(b.Ctx, b.Slot), cnt["wait"]), b.Pos, "the awaited subscription is never handed to a composite subscription of the operator: while the wait lasts the operator's teardown (returned only afterwards) cannot reach it, and nothing else can unsubscribe this source")
						}
						for _, op := range sc.SubOps {
							rn, _ := regNode(op)
							if rn == "" || op.Call == nil || innermostFunc(m, op.Pkg, op.Call) != fn {
								continue
							}
							if rn != wn {
								continue
							}
							key := fmt.Sprintf("%s/%s/registered-before-wait#%d", sc, model.CtxKey(b.Ctx, b.Slot), cnt["wait"])
							addCall := op.Call
							if pathsPassBefore(funcBody(fn), b.Node, func(n ast.Node) bool { return n.Pos() <= addCall.Pos() && addCall.End() <= n.End() }) {
								if armed {
									c.OK(key, b.Pos, "the awaited subscription is handed to its composite before the wait starts")
								}
							} else {
								c.Report(armed, key, b.Pos, "the subscription is awaited before it is handed to the composite subscription that is meant to cancel it: while the wait lasts nothing can unsubscribe this source")
							}
						}
					}

				}
			}
		},
	}
}

// ctxWatchFamily: the context-aware sources named by the property's anchor.
var ctxWatchFamily = []string{"ro.Timer", "ro.Interval", "ro.IntervalWithInitial", "ro.Never", "ro.RetryWithConfig"}

func ruleCtxWatch() check.Rule {
	return check.Rule{
		Name:        "CTX-WATCH",
		FamilyShape: true,
		Doc:         "every blocking select of the context-aware sources (Timer, Interval, IntervalWithInitial, Never, Retry's delay) has a case on the subscriber context's Done channel",
		Run: func(c *check.Ctx) {
			m := c.M
			recognised := 0
			for _, name := range ctxWatchFamily {
				sc := m.SCByName(name)
				if sc == nil {
					c.Info(name+"/ctx-watch", m.Obj.Ro.Syntax[0].Pos(), "operator not found (family-shape rule: no alarm)")
					continue
				}
				n := 0
				for _, b := range sc.Blocks {
					if b.What != "select" {
						continue
					}
					n++
					recognised++
					key := fmt.Sprintf("%s/select#%d/ctx-watch", name, n)
					ok := false
					for _, ch := range b.Chans {
						if recv, isDone := isCtxDone(b.Pkg.TypesInfo, ch); isDone {
							if id, _ := rootIdent(recv); id != nil && sc.Ctx0 != nil && objOf(b.Pkg.TypesInfo, id) == sc.Ctx0 {
								ok = true
							}
						}
					}
					if ok {
						c.OK(key, b.Pos, "has a case on the subscriber context")
					} else {
						c.Violation(key, b.Pos, "blocking select without a case on the subscriber context: cancelling the context does not stop this source")
					}
				}
			}
			c.Inc("ctx_watch_selects", recognised)
			c.Note("CTX-WATCH recognised=%d selects", recognised)
		},
	}
}

// CTX-DONE-TERMINATES: watching the context is not enough; the cancellation must end the output.
func ruleCtxDoneTerminates() check.Rule {
	return check.Rule{
		Name: "CTX-DONE-TERMINATES",
		Doc:  "in every subscribe closure, every select case that receives from the Done channel of a context sends a terminal notification to the destination on every path through the case (or the enclosing function has a deferred one, or the case hands a notification to a queue): a cancellation that is noticed but not reported leaves the output open",
		Run: func(c *check.Ctx) {
			m := c.M
			n := 0
			for _, sc := range m.SCs {
				armed := c.Armed(sc)
				info := sc.Pkg.TypesInfo
				term := map[ast.Node]bool{}
				deferredIn := map[ast.Node]bool{}
				for _, e := range sc.Emits {
					if e.ToDest && e.Kind != model.EmitNext {
						term[e.Node] = true
						for _, call := range e.Stack {
							term[call] = true
						}
						if e.Deferred {
							deferredIn[innermostFunc(m, e.Pkg, e.Node)] = true
						}
					}
				}
				cnt := 0
				ast.Inspect(sc.Lit.Body, func(x ast.Node) bool {
					cc, ok := x.(*ast.CommClause)
					if !ok || cc.Comm == nil {
						return true
					}
					var recv ast.Expr
					switch st := cc.Comm.(type) {
					case *ast.ExprStmt:
						if u, ok := ast.Unparen(st.X).(*ast.UnaryExpr); ok && u.Op == token.ARROW {
							recv = u.X
						}
					case *ast.AssignStmt:
						if len(st.Rhs) == 1 {
							if u, ok := ast.Unparen(st.Rhs[0]).(*ast.UnaryExpr); ok && u.Op == token.ARROW {
								recv = u.X
							}
						}
					}
					if recv == nil {
						return true
					}
					if _, isDone := isCtxDone(info, recv); !isDone {
						return true
					}
					cnt++
					n++
					key := fmt.Sprintf("%s/ctx-done-case#%d", sc, cnt)
					fn := innermostFunc(m, sc.Pkg, cc)
					pass := deferredIn[fn] || everyPathPasses(&ast.BlockStmt{Lbrace: cc.Colon, List: cc.Body, Rbrace: cc.End()}, func(nd ast.Node) bool {
						found := false
						ast.Inspect(nd, func(y ast.Node) bool {
							if term[y] {
								found = true
							}
							if _, isSend := y.(*ast.SendStmt); isSend {
								found = true
							}
							return !found
						})
						return found
					})
					if pass {
						if armed {
							c.OK(key, cc.Pos(), "the cancellation case ends the output on every path")
						}
					} else {
						c.Report(armed, key, cc.Pos(), "the context's Done case can be left without a terminal notification to the destination: the cancellation is noticed but the output stays open")
					}
					return true
				})
			}
			c.Inc("ctx_done_cases", n)
		},
	}
}

const controlsC14 = `
func verifControlBlockingWait[T any]() func(Observable[T]) Observable[T] {
	return func(source Observable[T]) Observable[T] {
		return NewUnsafeObservableWithContext(func(subscriberCtx context.Context, destination Observer[T]) Teardown {
			sub := source.SubscribeWithContext(subscriberCtx, NewObserverWithContext(
				destination.NextWithContext, destination.ErrorWithContext, destination.CompleteWithContext))
			sub.Wait()
			return sub.Unsubscribe
		})
	}
}
`

func C14() *check.Property {
	return &check.Property{
		ID:       "C14",
		Title:    "Downstream termination cancels upstream without waiting for it",
		Patterns: cat(CorePatterns, PluginPkgs, IOPluginPkgs, []string{PromPkg}, RatePkgs),
		Scope:    append([]string{ro}, IOPluginPkgs...),
		Rules:    []check.Rule{ruleNoUncancellableBlock(), ruleAwaitedRegistered(), ruleCtxWatch(), ruleCtxDoneTerminates(), ruleRetryCtx(), ruleRelease(), ruleSelfUnsubscribe(), ruleAddTeardown(), ruleFinalizerDiscipline(), ruleNoEmitUnderTeardownLock(), ruleCtxProvenance(), ruleCancelObserved(), ruleDownstreamLink(), ruleStateLevel(), ruleSequentialInnerGuard(), rulePositionStable(), ruleTeardownAllRun()},
		Explanation: "Static argument: upstream release is the teardown chain (RELEASE, SELF-UNSUBSCRIBE, ADD-TEARDOWN — the positive half, shared with C03), and an operator's teardown exists only once its subscribe function has returned. " +
			"NO-UNCANCELLABLE-BLOCK therefore lists every unbounded wait that executes before the subscribe closure returns (Wait, Collect, range over a channel, select without a timer case — located through the model's contexts, " +
			"including waits in upstream slots that run inside the closure) and accepts it only when the waited-on object is released by something registered on the destination itself. CTX-WATCH checks the context case of the context-aware sources.",
		NotDecided:  "that a cancelled upstream actually stops promptly (depends on the source); waits bounded by timers are accepted without checking their duration.",
		Assumptions: []string{"a Subscription is only closed by its terminal notification, its own Unsubscribe or the Unsubscribe of a subscription it was added to"},
		Floors:      map[string]int{"blocking_sites_in_subscribe": 6, "acquisitions": 150, "slice_fields_scanned": 10},
		Controls:    map[string]string{"zz_verif_controls_c14.go": roControl(controlsC14 + controlsPositionStable), "zz_verif_controls_c12.go": roControl(controlsC12), "zz_verif_controls_c05.go": roControl(controlsC05), "zz_verif_controls_c03.go": roControl(controlsC03 + controlsC03b + controlsCancelObserved), "zz_verif_controls_c06.go": roControl(controlsC06), "zz_verif_controls_c09.go": roControl(controlsC09 + controlsC09b)},
	}
}

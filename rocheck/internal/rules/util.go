// Package rules holds the repository-specific rules, one file per property.
package rules

import (
	"fmt"
	"go/ast"
	"go/token"
	"go/types"
	"sort"
	"strings"

	"golang.org/x/tools/go/packages"

	"rocheck/internal/check"
	"rocheck/internal/load"
	"rocheck/internal/model"
)

const ro = load.RoPath

var CorePatterns = []string{ro, ro + "/internal/..."}

var PluginPkgs = []string{
	ro + "/plugins/bytes", ro + "/plugins/strings", ro + "/plugins/strconv", ro + "/plugins/regexp", ro + "/plugins/time",
	ro + "/plugins/template", ro + "/plugins/encoding/base64", ro + "/plugins/encoding/json", ro + "/plugins/encoding/gob",
	ro + "/plugins/encoding/csv", ro + "/plugins/sort", ro + "/plugins/stdio",
}

// IOPluginPkgs: the source / sink / bridge plugins of go.work that are not data lifts.
var IOPluginPkgs = []string{
	ro + "/plugins/http/client", ro + "/plugins/fsnotify", ro + "/plugins/signal", ro + "/plugins/proc",
	ro + "/plugins/observability/log", ro + "/plugins/observability/logrus", ro + "/plugins/observability/zerolog",
	ro + "/plugins/ozzo/ozzo-validation", ro + "/plugins/samber/psi", ro + "/plugins/testify",
}

var PromPkg = ro + "/ee/plugins/prometheus"
var RatePkgs = []string{ro + "/plugins/ratelimit/native", ro + "/plugins/ratelimit/ulule"}

func cat(a ...[]string) []string {
	var out []string
	for _, x := range a {
		out = append(out, x...)
	}
	return out
}

// rootIdent returns the identifier at the root of an lvalue-like expression
// (x, x[i], x.f, *x, (x), x[i].f ...), and whether a dereference/index/field step
// was taken on the way.
func rootIdent(e ast.Expr) (*ast.Ident, bool) {
	steps := false
	for {
		switch x := e.(type) {
		case *ast.Ident:
			return x, steps
		case *ast.ParenExpr:
			e = x.X
		case *ast.StarExpr:
			e, steps = x.X, true
		case *ast.IndexExpr:
			e, steps = x.X, true
		case *ast.SelectorExpr:
			e, steps = x.X, true
		case *ast.SliceExpr:
			e, steps = x.X, true
		case *ast.UnaryExpr:
			if x.Op == token.AND {
				e = x.X
				continue
			}
			return nil, steps
		default:
			return nil, steps
		}
	}
}

func objOf(info *types.Info, id *ast.Ident) types.Object {
	if id == nil || id.Name == "_" {
		return nil
	}
	if o := info.Defs[id]; o != nil {
		return o
	}
	o := info.Uses[id]
	// a local that is nothing but another name for a variable (dest := destination) denotes that variable
	for hops := 0; o != nil && hops < 4; hops++ {
		a := model.AliasOf(o)
		if a == nil {
			break
		}
		aid, ok := ast.Unparen(a).(*ast.Ident)
		if !ok {
			break
		}
		t := info.Uses[aid]
		if t == nil {
			break
		}
		o = t
	}
	return o
}

// Write is a write access to a variable.
type Write struct {
	Var  *types.Var
	Node ast.Node
	How  string
}

// writesIn lists the writes performed directly in body (nested function literals are
// not descended into; they are their own function nodes).
func writesIn(info *types.Info, body ast.Node) []Write {
	var out []Write
	add := func(e ast.Expr, n ast.Node, how string) {
		id, _ := rootIdent(e)
		if v, ok := objOf(info, id).(*types.Var); ok && !v.IsField() {
			out = append(out, Write{v, n, how})
		}
	}
	ast.Inspect(body, func(n ast.Node) bool {
		switch x := n.(type) {
		case *ast.FuncLit:
			return x == body
		case *ast.AssignStmt:
			for _, l := range x.Lhs {
				if x.Tok == token.DEFINE {
					// only redefinitions of existing variables count; new variables are declarations
					if id, ok := l.(*ast.Ident); ok && info.Defs[id] != nil {
						continue
					}
				}
				add(l, x, "assignment")
			}
		case *ast.IncDecStmt:
			add(x.X, x, "inc/dec")
		case *ast.RangeStmt:
			if x.Tok == token.ASSIGN {
				if x.Key != nil {
					add(x.Key, x, "range assignment")
				}
				if x.Value != nil {
					add(x.Value, x, "range assignment")
				}
			}
		case *ast.UnaryExpr:
			if x.Op == token.AND {
				if _, isLit := ast.Unparen(x.X).(*ast.CompositeLit); !isLit {
					add(x.X, x, "address taken")
				}
			}
		case *ast.CallExpr:
			if id, ok := ast.Unparen(x.Fun).(*ast.Ident); ok {
				if b, ok := info.Uses[id].(*types.Builtin); ok && b.Name() == "copy" && len(x.Args) == 2 {
					add(x.Args[0], x, "copy into")
				}
				if b, ok := info.Uses[id].(*types.Builtin); ok && (b.Name() == "delete" || b.Name() == "clear") && len(x.Args) >= 1 {
					add(x.Args[0], x, b.Name())
				}
			}
			if sel, ok := ast.Unparen(x.Fun).(*ast.SelectorExpr); ok {
				if s, ok := info.Selections[sel]; ok && s.Kind() == types.MethodVal {
					if fn, ok := s.Obj().(*types.Func); ok {
						sig := fn.Type().(*types.Signature)
						if sig.Recv() != nil {
							if _, ptrRecv := sig.Recv().Type().(*types.Pointer); ptrRecv {
								if t := info.TypeOf(sel.X); t != nil {
									if _, isPtr := t.Underlying().(*types.Pointer); !isPtr {
										if _, isIface := t.Underlying().(*types.Interface); !isIface {
											add(sel.X, x, "pointer-receiver method "+fn.Name())
										}
									}
								}
							}
						}
					}
				}
			}
		}
		return true
	})
	return out
}

// funcNodes lists all function nodes (decls and literals) of a package.
func funcNodes(p *packages.Package) []ast.Node {
	var out []ast.Node
	for _, f := range p.Syntax {
		ast.Inspect(f, func(n ast.Node) bool {
			switch n.(type) {
			case *ast.FuncDecl, *ast.FuncLit:
				out = append(out, n)
			}
			return true
		})
	}
	return out
}

func funcBody(n ast.Node) *ast.BlockStmt {
	switch x := n.(type) {
	case *ast.FuncDecl:
		return x.Body
	case *ast.FuncLit:
		return x.Body
	}
	return nil
}

func funcType(n ast.Node) *ast.FuncType {
	switch x := n.(type) {
	case *ast.FuncDecl:
		return x.Type
	case *ast.FuncLit:
		return x.Type
	}
	return nil
}

// scLits indexes SC literals.
func scLits(m *model.Model) map[*ast.FuncLit]*model.SC {
	out := map[*ast.FuncLit]*model.SC{}
	for _, sc := range m.SCs {
		out[sc.Lit] = sc
	}
	return out
}

// topDecl returns the FuncDecl at the root of an enclosing-function chain.
func topDecl(chain []ast.Node) *ast.FuncDecl {
	if len(chain) == 0 {
		return nil
	}
	fd, _ := chain[0].(*ast.FuncDecl)
	return fd
}

// chainKey renders a stable construct key for a function node: enclosing declaration
// plus the nesting role path (never a line).
func chainKey(m *model.Model, p *packages.Package, chain []ast.Node, scs map[*ast.FuncLit]*model.SC) string {
	var parts []string
	for i, c := range chain {
		switch x := c.(type) {
		case *ast.FuncDecl:
			parts = append(parts, model.ShortPkg(p.PkgPath)+"."+model.DeclName(x))
		case *ast.FuncLit:
			switch {
			case scs[x] != nil:
				parts = append(parts, "SC")
			case m.IsAppLit(p.TypesInfo, x):
				parts = append(parts, "app")
			default:
				parts = append(parts, fmt.Sprintf("lit%d", i))
			}
		}
	}
	return strings.Join(parts, "/")
}

// isObservableResult reports whether a signature returns Observable, ConnectableObservable
// or func(Observable) Observable.
func isOperatorSig(m *model.Model, sig *types.Signature) bool {
	if sig == nil || sig.Results().Len() != 1 {
		return false
	}
	rt := sig.Results().At(0).Type()
	if model.IsNamed(rt, m.Obj.Observable) || model.IsNamed(rt, m.Obj.Connectable) {
		return true
	}
	if s2, ok := rt.Underlying().(*types.Signature); ok && s2.Results().Len() == 1 {
		return model.IsNamed(s2.Results().At(0).Type(), m.Obj.Observable)
	}
	return false
}

func scCounts(c *check.Ctx) (total, armed int) {
	for _, sc := range c.M.SCs {
		if check.IsControlName(sc.Name) {
			continue
		}
		total++
		if c.Armed(sc) {
			armed++
		}
	}
	return
}

// unknownsFailClosed reports walker-level unknown constructs of armed SCs as undecided.
func unknownsFailClosed(c *check.Ctx) {
	for _, sc := range c.M.SCs {
		for i, u := range sc.Unknown {
			if c.Armed(sc) {
				c.Undecided(fmt.Sprintf("%s/model-unknown#%d", sc, i+1), sc.Lit.Pos(), "the model walker did not understand: %s", u)
			}
		}
	}
}

// roControl wraps control code into a file of package ro.
func roControl(body string) string {
	return `package ro

import (
	"context"
	"sync"
	"sync/atomic"
	"time"

	"github.com/samber/lo"
)

var _ = context.Background
var _ sync.Mutex
var _ = atomic.AddInt32
var _ = time.Now
var _ = lo.T2[int, int]
` + body
}

// calleeBodies resolves what a call may run inside the repository: the declaration of a same-repository function or
// method (m.Decls), or the function literal(s) bound to a local closure variable. Unknown callees yield nothing.
func calleeBodies(m *model.Model, p *packages.Package, call *ast.CallExpr) []struct {
	Pkg  *packages.Package
	Body *ast.BlockStmt
} {
	type ref = struct {
		Pkg  *packages.Package
		Body *ast.BlockStmt
	}
	var out []ref
	info := p.TypesInfo
	if cl := model.Callee(info, call); cl != nil {
		if d := m.Decls[cl]; d != nil && d.Decl != nil && d.Decl.Body != nil {
			out = append(out, ref{d.Pkg, d.Decl.Body})
		}
		return out
	}
	if id, ok := ast.Unparen(call.Fun).(*ast.Ident); ok {
		if o := objOf(info, id); o != nil {
			for _, d := range m.Defs[o] {
				if d.Expr == nil {
					continue
				}
				if l, ok := ast.Unparen(d.Expr).(*ast.FuncLit); ok {
					out = append(out, ref{p, l.Body})
				}
			}
		}
	}
	if l, ok := ast.Unparen(call.Fun).(*ast.FuncLit); ok {
		out = append(out, ref{p, l.Body})
	}
	return out
}

// calleeFuncNodes is calleeBodies returning the function nodes (*ast.FuncDecl / *ast.FuncLit) themselves, for rules that
// need the parameters as well as the body.
func calleeFuncNodes(m *model.Model, p *packages.Package, call *ast.CallExpr) []struct {
	Pkg *packages.Package
	Fn  ast.Node
} {
	type ref = struct {
		Pkg *packages.Package
		Fn  ast.Node
	}
	var out []ref
	info := p.TypesInfo
	if cl := model.Callee(info, call); cl != nil {
		if d := m.Decls[cl]; d != nil && d.Decl != nil && d.Decl.Body != nil {
			out = append(out, ref{d.Pkg, d.Decl})
		}
		return out
	}
	if id, ok := ast.Unparen(call.Fun).(*ast.Ident); ok {
		if o := objOf(info, id); o != nil {
			for _, d := range m.Defs[o] {
				if d.Expr == nil {
					continue
				}
				if l, ok := ast.Unparen(d.Expr).(*ast.FuncLit); ok {
					out = append(out, ref{p, l})
				}
			}
		}
	}
	if l, ok := ast.Unparen(call.Fun).(*ast.FuncLit); ok {
		out = append(out, ref{p, l})
	}
	return out
}

// findCallTransitive reports the position, inside root, of the first call through which a call satisfying pred is
// reached — the call itself, or a call of a same-repository function / local closure whose body reaches one (helpers
// extracted from a handler count as the handler). token.NoPos when there is none.
func findCallTransitive(m *model.Model, p *packages.Package, root ast.Node, pred func(p *packages.Package, call *ast.CallExpr) bool, depth int) token.Pos {
	found := token.NoPos
	ast.Inspect(root, func(n ast.Node) bool {
		if found != token.NoPos {
			return false
		}
		call, ok := n.(*ast.CallExpr)
		if !ok {
			return true
		}
		if pred(p, call) {
			found = call.Pos()
			return false
		}
		if depth > 0 {
			for _, b := range calleeBodies(m, p, call) {
				if findCallTransitive(m, b.Pkg, b.Body, pred, depth-1) != token.NoPos {
					found = call.Pos()
					return false
				}
			}
		}
		return true
	})
	return found
}

// resolveFuncBodies: the function bodies an expression used as a function value may denote inside the repository:
// a literal, a local closure variable bound to literals, a function or method of the repository (method value).
func resolveFuncBodies(m *model.Model, p *packages.Package, e ast.Expr) []struct {
	Pkg  *packages.Package
	Body *ast.BlockStmt
} {
	type ref = struct {
		Pkg  *packages.Package
		Body *ast.BlockStmt
	}
	info := p.TypesInfo
	var out []ref
	switch x := ast.Unparen(e).(type) {
	case *ast.FuncLit:
		out = append(out, ref{p, x.Body})
	case *ast.Ident:
		switch o := objOf(info, x).(type) {
		case *types.Var:
			for _, d := range m.Defs[o] {
				if d.Expr != nil {
					if l, ok := ast.Unparen(d.Expr).(*ast.FuncLit); ok {
						out = append(out, ref{p, l.Body})
					}
				}
			}
		case *types.Func:
			if d := m.Decls[o.Origin()]; d != nil && d.Decl.Body != nil {
				out = append(out, ref{d.Pkg, d.Decl.Body})
			}
		}
	case *ast.SelectorExpr:
		if fo, ok := info.Uses[x.Sel].(*types.Func); ok {
			if d := m.Decls[fo.Origin()]; d != nil && d.Decl.Body != nil {
				out = append(out, ref{d.Pkg, d.Decl.Body})
			}
		}
	case *ast.CallExpr:
		// a conversion such as (func())(cancel) or Teardown(f)
		if tv, ok := info.Types[x.Fun]; ok && tv.IsType() && len(x.Args) == 1 {
			return resolveFuncBodies(m, p, x.Args[0])
		}
	}
	return out
}

// inspectTransitive visits root and, through calls of repository functions, methods and local closures, the bodies they
// run (depth levels). visit gets the package the node belongs to.
func inspectTransitive(m *model.Model, p *packages.Package, root ast.Node, depth int, visit func(q *packages.Package, n ast.Node) bool) {
	seen := map[ast.Node]bool{}
	var walk func(q *packages.Package, root ast.Node, depth int)
	walk = func(q *packages.Package, root ast.Node, depth int) {
		if seen[root] {
			return
		}
		seen[root] = true
		ast.Inspect(root, func(n ast.Node) bool {
			if n == nil {
				return false
			}
			if !visit(q, n) {
				return false
			}
			if call, ok := n.(*ast.CallExpr); ok && depth > 0 {
				for _, b := range calleeBodies(m, q, call) {
					walk(b.Pkg, b.Body, depth-1)
				}
			}
			return true
		})
	}
	walk(p, root, depth)
}

// recvFieldSel: e is (rooted at) a field selection on the receiver of the method that encloses it — any method of the
// repository, so that code moved into a helper method of the same type is recognised with the helper's own receiver name.
func recvFieldSel(m *model.Model, q *packages.Package, e ast.Expr) *ast.SelectorExpr {
	chain := m.EnclosingFuncs(q, e)
	fd := topDecl(chain)
	if fd == nil || fd.Recv == nil {
		return nil
	}
	rv := recvObj(q.TypesInfo, fd)
	if rv == nil {
		return nil
	}
	return fieldSelOf(q.TypesInfo, e, rv)
}

// subjectHelperKind classifies a call of a same-type helper method by what its body does, not by its name:
// "broadcast" when it (transitively) sends a notification to a stored observer, "drop-all" when it removes observers
// from the receiver's observer set (Delete on a receiver field, or clearing the single-observer field).
func subjectHelperKind(m *model.Model, p *packages.Package, call *ast.CallExpr) string {
	cl := model.Callee(p.TypesInfo, call)
	if cl == nil {
		return ""
	}
	d := m.Decls[cl]
	if d == nil || d.Decl == nil || d.Decl.Body == nil || d.Decl.Recv == nil {
		return ""
	}
	kind := ""
	inspectTransitive(m, d.Pkg, d.Decl.Body, 2, func(q *packages.Package, n ast.Node) bool {
		switch y := n.(type) {
		case *ast.CallExpr:
			if name, isObs := m.Obj.ObserverMethods[model.Callee(q.TypesInfo, y)]; isObs && notifKind(name) >= 0 {
				if sel, ok := ast.Unparen(y.Fun).(*ast.SelectorExpr); ok {
					// not a call on the receiver itself (s.NextWithContext delegating to a sibling method)
					if id, ok := ast.Unparen(sel.X).(*ast.Ident); !ok || recvFieldSel(m, q, sel.X) != nil || !isReceiverIdent(m, q, id) {
						kind = "broadcast"
					}
				}
			}
			if sel, ok := ast.Unparen(y.Fun).(*ast.SelectorExpr); ok && sel.Sel.Name == "Delete" && recvFieldSel(m, q, sel.X) != nil && kind == "" {
				kind = "drop-all"
			}
		case *ast.AssignStmt:
			for i, l := range y.Lhs {
				if fs := recvFieldSel(m, q, l); fs != nil && fs.Sel.Name == "observer" && i < len(y.Rhs) && kind == "" {
					if id, ok := ast.Unparen(y.Rhs[i]).(*ast.Ident); ok {
						if _, isNil := q.TypesInfo.Uses[id].(*types.Nil); isNil {
							kind = "drop-all"
						}
					}
				}
			}
		}
		return true
	})
	return kind
}

func isReceiverIdent(m *model.Model, q *packages.Package, id *ast.Ident) bool {
	fd := topDecl(m.EnclosingFuncs(q, id))
	if fd == nil || fd.Recv == nil {
		return false
	}
	rv := recvObj(q.TypesInfo, fd)
	return rv != nil && objOf(q.TypesInfo, id) == types.Object(rv)
}

// exprThroughInlining: an expression found in a helper that the model inlined (stack = the call chain from the subscribe
// closure) is rewritten in the caller's terms: an identifier that names a parameter of a helper on the stack becomes the
// argument passed for it. Returns the expression and the package whose types.Info describes it.
func exprThroughInlining(m *model.Model, p *packages.Package, e ast.Expr, stack []*ast.CallExpr) (ast.Expr, *packages.Package) {
	cur, curPkg := e, p
	for i := len(stack) - 1; i >= 0; i-- {
		id, ok := ast.Unparen(cur).(*ast.Ident)
		if !ok {
			break
		}
		v, ok := objOf(curPkg.TypesInfo, id).(*types.Var)
		if !ok {
			break
		}
		call := stack[i]
		var cp *packages.Package
		for _, pk := range m.Pkgs {
			if _, ok := pk.TypesInfo.Types[call.Fun]; ok {
				cp = pk
				break
			}
		}
		if cp == nil {
			continue
		}
		d := m.Decls[model.Callee(cp.TypesInfo, call)]
		if d == nil {
			continue
		}
		for j, pv := range model.FlattenParams(d.Pkg.TypesInfo, d.Decl.Type.Params) {
			if pv == v && j < len(call.Args) {
				cur, curPkg = call.Args[j], cp
			}
		}
	}
	return cur, curPkg
}

// callSelector returns the selector through which a call is made: the call's own `x.M`, or, for a call through a local
// bound once to a method value (next := x.M; next(...)), that binding's selector.
func callSelector(info *types.Info, call *ast.CallExpr) *ast.SelectorExpr {
	switch f := ast.Unparen(call.Fun).(type) {
	case *ast.SelectorExpr:
		return f
	case *ast.Ident:
		if o := info.Uses[f]; o != nil {
			return model.MethodValueOf(o)
		}
	}
	return nil
}

// atomicFlagStore recognises a store of a constant into an atomic flag variable, written directly
// (`atomic.StoreInt32(&flag, 1)`) or through a method of a small flag type of the repository whose body is such a store
// on its receiver (`flag.set()`). Returns the flag variable and the constant.
func atomicFlagStore(m *model.Model, p *packages.Package, call *ast.CallExpr) (types.Object, int64, bool) {
	info := p.TypesInfo
	cl := model.Callee(info, call)
	if cl == nil {
		return nil, 0, false
	}
	if cl.Pkg() != nil && cl.Pkg().Path() == "sync/atomic" && strings.HasPrefix(cl.Name(), "Store") && len(call.Args) == 2 {
		if id, _ := rootIdent(call.Args[0]); id != nil {
			if v, ok := constVal(info, call.Args[1]); ok {
				return objOf(info, id), v, true
			}
		}
		return nil, 0, false
	}
	d := m.Decls[cl]
	sel, isSel := ast.Unparen(call.Fun).(*ast.SelectorExpr)
	if d == nil || d.Decl == nil || d.Decl.Recv == nil || d.Decl.Body == nil || !isSel || len(call.Args) != 0 {
		return nil, 0, false
	}
	rv := recvObj(d.Pkg.TypesInfo, d.Decl)
	if rv == nil || len(d.Decl.Body.List) != 1 {
		return nil, 0, false
	}
	es, ok := d.Decl.Body.List[0].(*ast.ExprStmt)
	if !ok {
		return nil, 0, false
	}
	inner, ok := es.X.(*ast.CallExpr)
	if !ok {
		return nil, 0, false
	}
	icl := model.Callee(d.Pkg.TypesInfo, inner)
	if icl == nil || icl.Pkg() == nil || icl.Pkg().Path() != "sync/atomic" || !strings.HasPrefix(icl.Name(), "Store") || len(inner.Args) != 2 {
		return nil, 0, false
	}
	// the first argument is derived from the receiver: (*int32)(f), &f.v, f
	usesRecv := false
	ast.Inspect(inner.Args[0], func(n ast.Node) bool {
		if id, ok := n.(*ast.Ident); ok && d.Pkg.TypesInfo.Uses[id] == types.Object(rv) {
			usesRecv = true
		}
		return true
	})
	v, isConst := constVal(d.Pkg.TypesInfo, inner.Args[1])
	if !usesRecv || !isConst {
		return nil, 0, false
	}
	if id, _ := rootIdent(sel.X); id != nil {
		return objOf(info, id), v, true
	}
	return nil, 0, false
}

// chanLabel names a channel variable of a subscribe closure by its ordinal among the channel variables the closure
// declares (source order), so that obligation keys survive a rename: "chan#1".
func chanLabel(sc *model.SC, ch types.Object) string {
	if ch == nil {
		return "chan#?"
	}
	var decls []token.Pos
	for id, o := range sc.Pkg.TypesInfo.Defs {
		v, ok := o.(*types.Var)
		if !ok || v.IsField() || id.Pos() < sc.Lit.Pos() || id.Pos() >= sc.Lit.End() {
			continue
		}
		if _, isChan := v.Type().Underlying().(*types.Chan); isChan {
			decls = append(decls, v.Pos())
		}
	}
	sort.Slice(decls, func(i, j int) bool { return decls[i] < decls[j] })
	for i, p := range decls {
		if p == ch.Pos() {
			return fmt.Sprintf("chan#%d", i+1)
		}
	}
	return "chan-" + ch.Name() // a parameter or an outer variable: not declared by the closure
}

package rules

import (
	"fmt"
	"go/ast"
	"go/token"
	"go/types"
	"strings"

	"rocheck/internal/check"
	"rocheck/internal/load"
	"rocheck/internal/model"
)

// CTX-VALUE-AGREEMENT: writer and reader of a context value agree on its type.
func ruleCtxValueAgreement() check.Rule {
	return check.Rule{
		Name: "CTX-VALUE-AGREEMENT",
		Doc:  "for every context key type K of an armed package: each `ctx.Value(K{}).(T)` asserts a type T that is identical to the type of the value every `context.WithValue(ctx, K{}, v)` of the package stores under K: a writer that starts storing a time.Duration while the reader still asserts int64 makes the assertion fail silently and the measurement it feeds disappear",
		Run: func(c *check.Ctx) {
			m := c.M
			n := 0
			for _, p := range m.Pkgs {
				if !c.ArmedPkg(p.PkgPath) {
					continue
				}
				info := p.TypesInfo
				keyOf := func(e ast.Expr) types.Type {
					if cl, ok := ast.Unparen(e).(*ast.CompositeLit); ok && len(cl.Elts) == 0 {
						if t := info.TypeOf(cl); t != nil {
							if _, isStruct := t.Underlying().(*types.Struct); isStruct {
								return t
							}
						}
					}
					return nil
				}
				written := map[string][]types.Type{}
				for _, f := range p.Syntax {
					ast.Inspect(f, func(x ast.Node) bool {
						call, ok := x.(*ast.CallExpr)
						if !ok || len(call.Args) != 3 {
							return true
						}
						if cl := model.Callee(info, call); model.IsPkgFunc(cl, "context", "WithValue") {
							if k := keyOf(call.Args[1]); k != nil {
								if vt := info.TypeOf(call.Args[2]); vt != nil {
									written[k.String()] = append(written[k.String()], vt)
								}
							}
						}
						return true
					})
				}
				for _, f := range p.Syntax {
					if strings.HasSuffix(c.Prog.Fset.Position(f.Pos()).Filename, "_test.go") {
						continue
					}
					ast.Inspect(f, func(x ast.Node) bool {
						ta, ok := x.(*ast.TypeAssertExpr)
						if !ok || ta.Type == nil {
							return true
						}
						call, ok := ast.Unparen(ta.X).(*ast.CallExpr)
						if !ok || len(call.Args) != 1 {
							return true
						}
						sel, ok := ast.Unparen(call.Fun).(*ast.SelectorExpr)
						if !ok || sel.Sel.Name != "Value" {
							return true
						}
						if t := info.TypeOf(sel.X); t == nil || !model.IsContext(t) {
							return true
						}
						k := keyOf(call.Args[0])
						if k == nil {
							return true
						}
						n++
						want := info.TypeOf(ta.Type)
						chain := m.EnclosingFuncs(p, ta)
						key := fmt.Sprintf("%s/ctx-value-%s#%d", chainKey(m, p, chain, scLits(m)), shortTypeName(k), n)
						ws := written[k.String()]
						okType := true
						var odd types.Type
						for _, w := range ws {
							if !types.Identical(w, want) {
								okType = false
								odd = w
							}
						}
						if okType {
							c.OK(key, ta.Pos(), "the asserted type %s is what the package stores under %s", want, shortTypeName(k))
						} else {
							c.Violation(key, ta.Pos(), "a value stored under context key %s has type %s, but it is read back with an assertion to %s: for that writer the assertion never succeeds and what depends on it is silently skipped", shortTypeName(k), odd, want)
						}
						return true
					})
				}
			}
			c.Inc("ctx_value_readers", n)
		},
	}
}

func shortTypeName(t types.Type) string {
	s := t.String()
	if i := strings.LastIndex(s, "."); i >= 0 {
		return s[i+1:]
	}
	return s
}

// NO-GLOBAL-STATE: operators do not keep state in package-level variables.
func ruleNoGlobalState() check.Rule {
	return check.Rule{
		Name:        "NO-GLOBAL-STATE",
		Doc:         "no function of an armed package writes a package-level variable of that package (assignment, ++, element store, or a Store/LoadOrStore/Swap/CompareAndSwap/Delete/Add call on it) except the variables listed as configuration hooks: state kept in a package-level variable is shared by every pipeline, every subscription and every collector of the process (a memo of collectors keyed by call site makes two pipelines built from the same line export each other's counts)",
		NeedControl: true,
		Run: func(c *check.Ctx) {
			m := c.M
			n := 0
			for _, p := range m.Pkgs {
				armed := c.ArmedPkg(p.PkgPath)
				info := p.TypesInfo
				pkgVar := func(e ast.Expr) *types.Var {
					id, _ := rootIdent(e)
					if id == nil {
						return nil
					}
					v, ok := objOf(info, id).(*types.Var)
					if !ok || v.IsField() || v.Pkg() != p.Types || v.Parent() != p.Types.Scope() {
						return nil
					}
					return v
				}
				for _, f := range p.Syntax {
					if strings.HasSuffix(c.Prog.Fset.Position(f.Pos()).Filename, "_test.go") {
						continue
					}
					for _, d := range f.Decls {
						fd, ok := d.(*ast.FuncDecl)
						if !ok || fd.Body == nil || fd.Name.Name == "init" {
							continue
						}
						ast.Inspect(fd.Body, func(x ast.Node) bool {
							var v *types.Var
							var pos token.Pos
							switch y := x.(type) {
							case *ast.AssignStmt:
								if y.Tok == token.DEFINE {
									return true
								}
								for _, l := range y.Lhs {
									if pv := pkgVar(l); pv != nil {
										v, pos = pv, y.Pos()
									}
								}
							case *ast.IncDecStmt:
								if pv := pkgVar(y.X); pv != nil {
									v, pos = pv, y.Pos()
								}
							case *ast.CallExpr:
								if sel, ok := ast.Unparen(y.Fun).(*ast.SelectorExpr); ok {
									switch sel.Sel.Name {
									case "Store", "LoadOrStore", "LoadAndDelete", "Swap", "CompareAndSwap", "Delete", "Add":
										if pv := pkgVar(sel.X); pv != nil {
											v, pos = pv, y.Pos()
										}
									}
								}
							}
							if v == nil {
								return true
							}
							n++
							key := fmt.Sprintf("%s.%s/writes-global-%s", model.ShortPkg(p.PkgPath), model.DeclName(fd), v.Name())
							if why, ok := globalHooks[model.ShortPkg(p.PkgPath)+"."+v.Name()]; ok {
								if armed {
									c.OK(key, pos, "listed hook: %s", why)
								}
							} else {
								c.Report(armed, key, pos, "%s writes the package-level variable %s: that state is shared by every pipeline and subscription of the process", model.DeclName(fd), v.Name())
							}
							return true
						})
					}
				}
			}
			c.Inc("global_writes", n)
		},
	}
}

// globalHooks: package-level variables that are configuration by design.
var globalHooks = map[string]string{
	"ro.OnUnhandledError":      "user-installed hook (setter)",
	"ro.OnDroppedNotification": "user-installed hook (setter)",
}

const controlsGlobal = `
var verifControlGlobalMemo sync.Map

func verifControlGlobalWrite(key string, value int) {
	verifControlGlobalMemo.Store(key, value)
}
`

// BRACKET-PLACEMENT: which side of the user's chain each collector metric is wired to.
func ruleBracketPlacement() check.Rule {
	return check.Rule{
		Name: "BRACKET-PLACEMENT",
		Doc:  "in wrapPipeWithObservability the user's operator chain is one argument of a ro.PipeOpN call; the collector fields that describe what enters the chain (NotificationsInTotal, NotificationLagSeconds) are handed to stages placed before it (source side), the fields that describe what the subscriber sees (NotificationsOutTotal, SubscriptionsTotal) to stages placed after it (subscriber side): a subscription counter on the source side counts the subscriptions the chain makes to its source (3 under RepeatWith(3), 0 under Take(0)) instead of one per Subscribe, an output counter on the source side counts what was received instead of what was delivered",
		Run: func(c *check.Ctx) {
			m := c.M
			p := c.Prog.ByPath[PromPkg]
			if p == nil {
				return
			}
			info := p.TypesInfo
			fd := load.FuncDeclOf(p, "wrapPipeWithObservability")
			key := "ee/plugins/prometheus.wrapPipeWithObservability/brackets"
			if fd == nil || fd.Body == nil {
				c.Undecided(key, p.Syntax[0].Pos(), "anchor wrapPipeWithObservability not found")
				return
			}
			// the parameter that is the user's chain: a function-typed parameter
			var chain types.Object
			for _, f := range fd.Type.Params.List {
				for _, id := range f.Names {
					if v, ok := info.Defs[id].(*types.Var); ok {
						if _, isSig := v.Type().Underlying().(*types.Signature); isSig {
							chain = v
						}
					}
				}
			}
			var pipe *ast.CallExpr
			chainIdx := -1
			ast.Inspect(fd.Body, func(x ast.Node) bool {
				call, ok := x.(*ast.CallExpr)
				if !ok || pipe != nil {
					return true
				}
				for i, a := range call.Args {
					if id, ok := ast.Unparen(a).(*ast.Ident); ok && chain != nil && objOf(info, id) == chain {
						pipe, chainIdx = call, i
					}
				}
				return true
			})
			if pipe == nil {
				c.Undecided(key, fd.Pos(), "the call that composes the user's chain with the instrumentation stages was not found")
				return
			}
			side := map[string]string{"NotificationsInTotal": "before", "NotificationLagSeconds": "before", "NotificationsOutTotal": "after", "SubscriptionsTotal": "after"}
			seen := map[string]bool{}
			bad := false
			for i, a := range pipe.Args {
				if i == chainIdx {
					continue
				}
				where := "before"
				if i > chainIdx {
					where = "after"
				}
				var scan func(n ast.Node, depth int)
				scan = func(n ast.Node, depth int) {
					ast.Inspect(n, func(y ast.Node) bool {
						// a metric looked up into a local first (inTotal := collector.NotificationsInTotal.With(labels))
						if id, ok := y.(*ast.Ident); ok && depth > 0 {
							if v, ok := objOf(info, id).(*types.Var); ok && !v.IsField() {
								for _, d := range m.Defs[v] {
									if d.Expr != nil {
										scan(d.Expr, depth-1)
									}
								}
							}
							return true
						}
						sel, ok := y.(*ast.SelectorExpr)
						if !ok {
							return true
						}
						if s, ok := info.Selections[sel]; !ok || s.Kind() != types.FieldVal {
							return true
						}
						want, known := side[sel.Sel.Name]
						if !known {
							return true
						}
						seen[sel.Sel.Name] = true
						if want != where {
							bad = true
							c.Violation(key+"/"+sel.Sel.Name, sel.Pos(), "collector.%s is wired to a stage placed %s the user's chain; it describes the %s side", sel.Sel.Name, where, map[string]string{"before": "source", "after": "subscriber"}[want])
						}
						return true
					})
				}
				scan(a, 2)
			}
			for name := range side {
				if !seen[name] {
					bad = true
					c.Violation(key+"/"+name, pipe.Pos(), "collector.%s is not wired to any stage around the user's chain", name)
				}
			}
			c.Inc("bracket_metrics", len(seen))
			if !bad {
				c.OK(key, pipe.Pos(), "input metrics on the source side, output and subscription metrics on the subscriber side of the user's chain")
			}
		},
	}
}

package rules

import (
	"fmt"
	"go/ast"
	"go/token"
	"go/types"
	"strings"

	"rocheck/internal/check"
	"rocheck/internal/model"
)

// CTX-VALUE-AGREEMENT: writer and reader of a context value agree on its type.
func ruleCtxValueAgreement() check.Rule {
	return check.Rule{
		Name: "CTX-VALUE-AGREEMENT",
		Doc:  "for every context key type K of an armed package: each `ctx.Value(K{}).(T)` asserts a type T that is identical to the type of the value every `context.WithValue(ctx, K{}, v)` of the package stores under K: a writer that starts storing a time.Duration while the reader still asserts int64 makes the assertion fail silently and the measurement it feeds disappear",
		Run: func(c *check.Ctx) {
			m := c.M
			n := 0
			for _, p := range m.Pkgs {
				if !c.ArmedPkg(p.PkgPath) {
					continue
				}
				info := p.TypesInfo
				keyOf := func(e ast.Expr) types.Type {
					if cl, ok := ast.Unparen(e).(*ast.CompositeLit); ok && len(cl.Elts) == 0 {
						if t := info.TypeOf(cl); t != nil {
							if _, isStruct := t.Underlying().(*types.Struct); isStruct {
								return t
							}
						}
					}
					return nil
				}
				written := map[string][]types.Type{}
				for _, f := range p.Syntax {
					ast.Inspect(f, func(x ast.Node) bool {
						call, ok := x.(*ast.CallExpr)
						if !ok || len(call.Args) != 3 {
							return true
						}
						if cl := model.Callee(info, call); model.IsPkgFunc(cl, "context", "WithValue") {
							if k := keyOf(call.Args[1]); k != nil {
								if vt := info.TypeOf(call.Args[2]); vt != nil {
									written[k.String()] = append(written[k.String()], vt)
								}
							}
						}
						return true
					})
				}
				for _, f := range p.Syntax {
					if strings.HasSuffix(c.Prog.Fset.Position(f.Pos()).Filename, "_test.go") {
						continue
					}
					ast.Inspect(f, func(x ast.Node) bool {
						ta, ok := x.(*ast.TypeAssertExpr)
						if !ok || ta.Type == nil {
							return true
						}
						call, ok := ast.Unparen(ta.X).(*ast.CallExpr)
						if !ok || len(call.Args) != 1 {
							return true
						}
						sel, ok := ast.Unparen(call.Fun).(*ast.SelectorExpr)
						if !ok || sel.Sel.Name != "Value" {
							return true
						}
						if t := info.TypeOf(sel.X); t == nil || !model.IsContext(t) {
							return true
						}
						k := keyOf(call.Args[0])
						if k == nil {
							return true
						}
						n++
						want := info.TypeOf(ta.Type)
						chain := m.EnclosingFuncs(p, ta)
						key := fmt.Sprintf("%s/ctx-value-%s#%d", chainKey(m, p, chain, scLits(m)), shortTypeName(k), n)
						ws := written[k.String()]
						okType := true
						var odd types.Type
						for _, w := range ws {
							if !types.Identical(w, want) {
								okType = false
								odd = w
							}
						}
						if okType {
							c.OK(key, ta.Pos(), "the asserted type %s is what the package stores under %s", want, shortTypeName(k))
						} else {
							c.Violation(key, ta.Pos(), "a value stored under context key %s has type %s, but it is read back with an assertion to %s: for that writer the assertion never succeeds and what depends on it is silently skipped", shortTypeName(k), odd, want)
						}
						return true
					})
				}
			}
			c.Inc("ctx_value_readers", n)
		},
	}
}

func shortTypeName(t types.Type) string {
	s := t.String()
	if i := strings.LastIndex(s, "."); i >= 0 {
		return s[i+1:]
	}
	return s
}

// NO-GLOBAL-STATE: operators do not keep state in package-level variables.
func ruleNoGlobalState() check.Rule {
	return check.Rule{
		Name:        "NO-GLOBAL-STATE",
		Doc:         "no function of an armed package writes a package-level variable of that package (assignment, ++, element store, or a Store/LoadOrStore/Swap/CompareAndSwap/Delete/Add call on it) except the variables listed as configuration hooks: state kept in a package-level variable is shared by every pipeline, every subscription and every collector of the process (a memo of collectors keyed by call site makes two pipelines built from the same line export each other's counts)",
		NeedControl: true,
		Run: func(c *check.Ctx) {
			m := c.M
			n := 0
			for _, p := range m.Pkgs {
				armed := c.ArmedPkg(p.PkgPath)
				info := p.TypesInfo
				pkgVar := func(e ast.Expr) *types.Var {
					id, _ := rootIdent(e)
					if id == nil {
						return nil
					}
					v, ok := objOf(info, id).(*types.Var)
					if !ok || v.IsField() || v.Pkg() != p.Types || v.Parent() != p.Types.Scope() {
						return nil
					}
					return v
				}
				for _, f := range p.Syntax {
					if strings.HasSuffix(c.Prog.Fset.Position(f.Pos()).Filename, "_test.go") {
						continue
					}
					for _, d := range f.Decls {
						fd, ok := d.(*ast.FuncDecl)
						if !ok || fd.Body == nil || fd.Name.Name == "init" {
							continue
						}
						ast.Inspect(fd.Body, func(x ast.Node) bool {
							var v *types.Var
							var pos token.Pos
							switch y := x.(type) {
							case *ast.AssignStmt:
								if y.Tok == token.DEFINE {
									return true
								}
								for _, l := range y.Lhs {
									if pv := pkgVar(l); pv != nil {
										v, pos = pv, y.Pos()
									}
								}
							case *ast.IncDecStmt:
								if pv := pkgVar(y.X); pv != nil {
									v, pos = pv, y.Pos()
								}
							case *ast.CallExpr:
								if sel, ok := ast.Unparen(y.Fun).(*ast.SelectorExpr); ok {
									switch sel.Sel.Name {
									case "Store", "LoadOrStore", "LoadAndDelete", "Swap", "CompareAndSwap", "Delete", "Add":
										if pv := pkgVar(sel.X); pv != nil {
											v, pos = pv, y.Pos()
										}
									}
								}
							}
							if v == nil {
								return true
							}
							n++
							key := fmt.Sprintf("%s.%s/writes-global-%s", model.ShortPkg(p.PkgPath), model.DeclName(fd), v.Name())
							if why, ok := globalHooks[model.ShortPkg(p.PkgPath)+"."+v.Name()]; ok {
								if armed {
									c.OK(key, pos, "listed hook: %s", why)
								}
							} else {
								c.Report(armed, key, pos, "%s writes the package-level variable %s: that state is shared by every pipeline and subscription of the process", model.DeclName(fd), v.Name())
							}
							return true
						})
					}
				}
			}
			c.Inc("global_writes", n)
		},
	}
}

// globalHooks: package-level variables that are configuration by design.
var globalHooks = map[string]string{
	"ro.OnUnhandledError":      "user-installed hook (setter)",
	"ro.OnDroppedNotification": "user-installed hook (setter)",
}

const controlsGlobal = `
var verifControlGlobalMemo sync.Map

func verifControlGlobalWrite(key string, value int) {
	verifControlGlobalMemo.Store(key, value)
}
`

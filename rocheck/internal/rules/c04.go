package rules

import (
	"fmt"
	"go/ast"
	"go/token"
	"go/types"
	"golang.org/x/tools/go/cfg"
	"regexp"
	"strconv"

	"golang.org/x/tools/go/packages"

	"rocheck/internal/check"
	"rocheck/internal/load"
	"rocheck/internal/model"
)

// singleReturnCall: the body of fd is exactly `return <call>`.
func singleReturnCall(fd *ast.FuncDecl) *ast.CallExpr {
	if fd.Body == nil || len(fd.Body.List) != 1 {
		return nil
	}
	r, ok := fd.Body.List[0].(*ast.ReturnStmt)
	if !ok || len(r.Results) != 1 {
		return nil
	}
	call, _ := ast.Unparen(r.Results[0]).(*ast.CallExpr)
	return call
}

// ADAPTER
func ruleAdapter() check.Rule {
	return check.Rule{
		Name:        "ADAPTER",
		FamilyShape: true,
		Doc:         "every operator variant that delegates to a base form through a literal adapter (`return Base(func(...) {... user(...) ...}, passthrough...)`) is a pure adapter: the literal calls the user function exactly once, passes only its own parameters (each at most once, never a constant or another expression), and the context it returns is the user's returned context when the user function returns one, else its own ctx parameter",
		NeedControl: true,
		Run: func(c *check.Ctx) {
			m := c.M
			recognised := 0
			for _, p := range m.Pkgs {
				armed := c.ArmedPkg(p.PkgPath)
				info := p.TypesInfo
				for _, f := range p.Syntax {
					for _, d := range f.Decls {
						fd, ok := d.(*ast.FuncDecl)
						if !ok || fd.Recv != nil {
							continue
						}
						call := singleReturnCall(fd)
						if call == nil {
							continue
						}
						base := model.Callee(info, call)
						if base == nil || m.Decls[base] == nil || m.Obj.Ctors[base] != nil {
							continue
						}
						userParams := map[*types.Var]bool{}
						for _, prm := range model.FlattenParams(info, fd.Type.Params) {
							if prm != nil {
								if _, isSig := prm.Type().Underlying().(*types.Signature); isSig {
									userParams[prm] = true
								}
							}
						}
						if len(userParams) == 0 {
							continue
						}
						for ai, a := range call.Args {
							lit, ok := ast.Unparen(a).(*ast.FuncLit)
							if !ok {
								continue
							}
							// user calls inside the literal
							var ucalls []*ast.CallExpr
							var uparam *types.Var
							ast.Inspect(lit.Body, func(n ast.Node) bool {
								if cx, ok := n.(*ast.CallExpr); ok {
									if id, ok := ast.Unparen(cx.Fun).(*ast.Ident); ok {
										if v, ok := objOf(info, id).(*types.Var); ok && userParams[v] {
											ucalls = append(ucalls, cx)
											uparam = v
										}
									}
								}
								return true
							})
							if len(ucalls) == 0 {
								continue
							}
							recognised++
							key := fmt.Sprintf("%s.%s/adapter-arg%d", model.ShortPkg(p.PkgPath), fd.Name.Name, ai+1)
							litParams := map[*types.Var]bool{}
							var litCtx *types.Var
							for _, prm := range model.FlattenParams(info, lit.Type.Params) {
								if prm != nil {
									litParams[prm] = true
									if model.IsContext(prm.Type()) {
										litCtx = prm
									}
								}
							}
							problems := []string{}
							if len(ucalls) != 1 {
								problems = append(problems, fmt.Sprintf("the user function is called %d times", len(ucalls)))
							}
							uc := ucalls[0]
							used := map[*types.Var]bool{}
							for _, ua := range uc.Args {
								id, ok := ast.Unparen(ua).(*ast.Ident)
								var v *types.Var
								if ok {
									v, _ = objOf(info, id).(*types.Var)
								}
								switch {
								case v == nil || !litParams[v]:
									problems = append(problems, fmt.Sprintf("argument %q of the user call is not a parameter of the adapter", types.ExprString(ua)))
								case used[v]:
									problems = append(problems, fmt.Sprintf("parameter %s is passed twice to the user function", v.Name()))
								case !types.Identical(v.Type(), info.TypeOf(ua)):
									problems = append(problems, "argument type differs from the adapter parameter")
								}
								if v != nil {
									used[v] = true
								}
							}
							// the call must be unconditional: a direct statement/return of the literal body
							if !unconditionalIn(m, p, lit, uc) {
								problems = append(problems, "the user function is called conditionally")
							}
							// context result
							usig := uparam.Type().Underlying().(*types.Signature)
							userReturnsCtx := false
							for i := 0; i < usig.Results().Len(); i++ {
								if model.IsContext(usig.Results().At(i).Type()) {
									userReturnsCtx = true
								}
							}
							lsig, _ := info.TypeOf(lit).(*types.Signature)
							if lsig != nil {
								for ri := 0; ri < lsig.Results().Len(); ri++ {
									if !model.IsContext(lsig.Results().At(ri).Type()) {
										continue
									}
									// find return statements of the literal
									ast.Inspect(lit.Body, func(n ast.Node) bool {
										if l2, ok := n.(*ast.FuncLit); ok && l2 != lit {
											return false
										}
										r, ok := n.(*ast.ReturnStmt)
										if !ok {
											return true
										}
										if len(r.Results) == 1 {
											// return user(...): all results come from the user
											if ast.Unparen(r.Results[0]) == ast.Expr(uc) {
												return true
											}
										}
										if ri >= len(r.Results) {
											return true
										}
										e := ast.Unparen(r.Results[ri])
										id, isID := e.(*ast.Ident)
										var v *types.Var
										if isID {
											v, _ = objOf(info, id).(*types.Var)
										}
										switch {
										case userReturnsCtx:
											// must be a variable assigned from the user call, not the adapter's own ctx
											if v != nil && v == litCtx && !assignedFromCall(info, lit, v, uc) {
												problems = append(problems, "the context returned by the user callback is discarded (the adapter returns its own ctx)")
											}
										default:
											if v == nil || v != litCtx {
												problems = append(problems, fmt.Sprintf("the adapter returns %q as context instead of its own ctx parameter", types.ExprString(e)))
											}
										}
										return true
									})
								}
							}
							if len(problems) == 0 {
								if armed {
									c.OK(key, lit.Pos(), "pure adapter around %s -> %s", uparam.Name(), base.Name())
								}
							} else {
								c.Report(armed, key, lit.Pos(), "variant %s is not observationally identical to %s: %s", fd.Name.Name, base.Name(), problems[0])
							}
						}
					}
				}
			}
			c.Inc("adapters", recognised)
			c.Note("ADAPTER recognised=%d", recognised)
		},
	}
}

// unconditionalIn: call is reached on every path of lit: it is (part of) a top-level
// statement of the literal's body.
func unconditionalIn(m *model.Model, p *packages.Package, lit *ast.FuncLit, call *ast.CallExpr) bool {
	for n := ast.Node(call); n != nil; n = m.Parent(p, n) {
		par := m.Parent(p, n)
		if par == ast.Node(lit.Body) {
			return true
		}
		switch par.(type) {
		case *ast.IfStmt, *ast.ForStmt, *ast.RangeStmt, *ast.SwitchStmt, *ast.CaseClause, *ast.FuncLit:
			if par == ast.Node(lit) {
				return true
			}
			if ifs, ok := par.(*ast.IfStmt); ok && (n == ifs.Init || n == ifs.Cond) {
				continue
			}
			return false
		}
	}
	return false
}

// assignedFromCall: v is (re)assigned from the results of call inside lit.
func assignedFromCall(info *types.Info, lit *ast.FuncLit, v *types.Var, call *ast.CallExpr) bool {
	found := false
	ast.Inspect(lit.Body, func(n ast.Node) bool {
		as, ok := n.(*ast.AssignStmt)
		if !ok || len(as.Rhs) != 1 || ast.Unparen(as.Rhs[0]) != ast.Expr(call) {
			return true
		}
		for _, l := range as.Lhs {
			if id, ok := l.(*ast.Ident); ok && objOf(info, id) == v {
				found = true
			}
		}
		return true
	})
	return found
}

// ALIAS
func ruleAlias() check.Rule {
	return check.Rule{
		Name:        "ALIAS",
		FamilyShape: true,
		Doc:         "every function whose body is a single `return Other(args)` (possibly curried: Other(args)(arg)) with plain parameters as arguments forwards each of its parameters exactly once",
		Run: func(c *check.Ctx) {
			m := c.M
			n := 0
			for _, p := range m.Pkgs {
				armed := c.ArmedPkg(p.PkgPath)
				info := p.TypesInfo
				for _, f := range p.Syntax {
					for _, d := range f.Decls {
						fd, ok := d.(*ast.FuncDecl)
						if !ok || fd.Recv != nil || !ast.IsExported(fd.Name.Name) {
							continue
						}
						call := singleReturnCall(fd)
						if call == nil {
							continue
						}
						// collect argument identifiers over the (possibly curried) call chain
						var args []ast.Expr
						plain := true
						cur := call
						for cur != nil {
							args = append(args, cur.Args...)
							next, _ := ast.Unparen(cur.Fun).(*ast.CallExpr)
							cur = next
						}
						params := model.FlattenParams(info, fd.Type.Params)
						if len(params) == 0 {
							continue
						}
						count := map[*types.Var]int{}
						for _, a := range args {
							id, ok := ast.Unparen(a).(*ast.Ident)
							if !ok {
								plain = false
								break
							}
							v, ok := objOf(info, id).(*types.Var)
							if !ok {
								plain = false
								break
							}
							count[v]++
						}
						if !plain {
							continue
						}
						callee := model.Callee(info, firstCall(call))
						if callee == nil || m.Decls[callee] == nil {
							continue
						}
						n++
						key := fmt.Sprintf("%s.%s/alias", model.ShortPkg(p.PkgPath), fd.Name.Name)
						bad := ""
						for _, prm := range params {
							if prm == nil {
								continue
							}
							switch count[prm] {
							case 1:
							case 0:
								bad = fmt.Sprintf("parameter %s is not forwarded", prm.Name())
							default:
								bad = fmt.Sprintf("parameter %s is forwarded %d times", prm.Name(), count[prm])
							}
						}
						if bad == "" {
							if armed {
								c.OK(key, fd.Pos(), "forwards all %d parameters to %s", len(params), callee.Name())
							}
						} else {
							c.Report(armed, key, fd.Pos(), "alias %s -> %s: %s", fd.Name.Name, callee.Name(), bad)
						}
					}
				}
			}
			c.Inc("aliases", n)
			c.Note("ALIAS recognised=%d", n)
		},
	}
}

func firstCall(c *ast.CallExpr) *ast.CallExpr {
	for {
		next, ok := ast.Unparen(c.Fun).(*ast.CallExpr)
		if !ok {
			return c
		}
		c = next
	}
}

var pipeRe = regexp.MustCompile(`^(Pipe|PipeOp)([0-9]+)$`)

// PIPE
func rulePipe() check.Rule {
	return check.Rule{
		Name:        "PIPE",
		FamilyShape: true,
		Doc:         "every typed PipeN applies operator1..operatorN in order to the source (nested calls, each operator parameter used exactly once, innermost argument is the source) and every PipeOpN returns a function that passes its source and operator1..operatorN in order to PipeN",
		NeedControl: true,
		Run: func(c *check.Ctx) {
			m := c.M
			n := 0
			for _, p := range m.Pkgs {
				if p.PkgPath != ro {
					continue
				}
				info := p.TypesInfo
				for _, f := range p.Syntax {
					for _, d := range f.Decls {
						fd, ok := d.(*ast.FuncDecl)
						if !ok || fd.Recv != nil {
							continue
						}
						mt := pipeRe.FindStringSubmatch(fd.Name.Name)
						isControl := check.IsControlName(fd.Name.Name)
						if mt == nil && !isControl {
							continue
						}
						call := singleReturnCall(fd)
						if mt != nil && mt[1] == "PipeOp" {
							// return func(source) { return PipeN(source, operator1..N) }
							k, _ := strconv.Atoi(mt[2])
							key := "ro." + fd.Name.Name + "/order"
							n++
							ok := false
							if fd.Body != nil && len(fd.Body.List) == 1 {
								if r, isRet := fd.Body.List[0].(*ast.ReturnStmt); isRet && len(r.Results) == 1 {
									if lit, isLit := ast.Unparen(r.Results[0]).(*ast.FuncLit); isLit && len(lit.Body.List) == 1 {
										if r2, isRet := lit.Body.List[0].(*ast.ReturnStmt); isRet && len(r2.Results) == 1 {
											if inner, isCall := ast.Unparen(r2.Results[0]).(*ast.CallExpr); isCall {
												cl := model.Callee(info, inner)
												params := model.FlattenParams(info, fd.Type.Params)
												lparams := model.FlattenParams(info, lit.Type.Params)
												if cl != nil && cl.Name() == "Pipe"+mt[2] && len(inner.Args) == k+1 && len(params) == k && len(lparams) == 1 {
													ok = true
													for i, a := range inner.Args {
														id, isID := ast.Unparen(a).(*ast.Ident)
														if !isID {
															ok = false
															break
														}
														if i == 0 {
															if objOf(info, id) != lparams[0] {
																ok = false
															}
														} else if objOf(info, id) != params[i-1] {
															ok = false
														}
													}
												}
											}
										}
									}
								}
							}
							if ok {
								c.OK(key, fd.Pos(), "passes source and operator1..%d in order to Pipe%d", k, k)
							} else {
								c.Violation(key, fd.Pos(), "%s does not pass its source and operators in order to Pipe%d", fd.Name.Name, k)
							}
							continue
						}
						if call == nil {
							continue
						}
						params := model.FlattenParams(info, fd.Type.Params)
						if len(params) < 2 {
							continue
						}
						n++
						key := "ro." + fd.Name.Name + "/order"
						// peel nested calls from the outside: operatorN( ... operator1(source))
						cur := ast.Expr(call)
						idx := len(params) - 1
						okOrder := true
						for idx >= 1 {
							cc, isCall := ast.Unparen(cur).(*ast.CallExpr)
							if !isCall || len(cc.Args) != 1 {
								okOrder = false
								break
							}
							id, isID := ast.Unparen(cc.Fun).(*ast.Ident)
							if !isID || objOf(info, id) != params[idx] {
								okOrder = false
								break
							}
							cur = cc.Args[0]
							idx--
						}
						if okOrder {
							id, isID := ast.Unparen(cur).(*ast.Ident)
							if !isID || objOf(info, id) != params[0] {
								okOrder = false
							}
						}
						if okOrder {
							c.OK(key, fd.Pos(), "applies its %d operators in order, innermost argument is the source", len(params)-1)
						} else {
							c.Violation(key, fd.Pos(), "%s does not apply operator1..operator%d in order to the source: a chain would not behave as the composition of its parts", fd.Name.Name, len(params)-1)
						}
					}
				}
			}
			c.Inc("pipe_functions", n)
		},
	}
}

// NO-POST-DELIVERY-MUTATION
func ruleNoPostDeliveryMutation() check.Rule {
	return check.Rule{
		Name:        "NO-POST-DELIVERY-MUTATION",
		Doc:         "when an operator emits a slice or map that it keeps in a closure-level variable (or a local alias of it), the variable is re-bound to a fresh allocation before anything is written through it again, or the emission happens in a terminal slot; otherwise a value already delivered downstream would be modified by later items",
		NeedControl: true,
		Run: func(c *check.Ctx) {
			m := c.M
			for _, sc := range m.SCs {
				armed := c.Armed(sc)
				locals := directLocals(sc.Pkg.TypesInfo, sc.Lit)
				// variables declared inside a loop body are fresh per iteration
				for v := range locals {
					for n := m.Parent(sc.Pkg, identDeclNode(m, sc, v)); n != nil && n != ast.Node(sc.Lit); n = m.Parent(sc.Pkg, n) {
						switch n.(type) {
						case *ast.ForStmt, *ast.RangeStmt:
							delete(locals, v)
						}
					}
				}
				n := 0
				for _, e := range sc.Emits {
					if !e.ToDest || e.Kind != model.EmitNext || len(e.Args) != 1 || e.Forwarder {
						continue
					}
					info := e.Pkg.TypesInfo
					t := info.TypeOf(e.Args[0])
					if t == nil {
						continue
					}
					switch t.Underlying().(type) {
					case *types.Slice, *types.Map:
					default:
						continue
					}
					id, _ := rootIdent(e.Args[0])
					if id == nil {
						continue
					}
					v, _ := objOf(info, id).(*types.Var)
					if v == nil {
						continue
					}
					anchor := ast.Node(e.Node)
					// a container declared at the top of a helper function and emitted from a closure of that helper is
					// retained just like a closure-level variable of the subscribe closure
					if !locals[v] {
						if hd := topDecl(m.EnclosingFuncs(e.Pkg, e.Node)); hd != nil && hd.Body != nil {
							inner := innermostFunc(m, e.Pkg, e.Node)
							if inner != ast.Node(hd) && directLocals(info, hd)[v] {
								locals[v] = true
							}
						}
					}
					if !locals[v] {
						// local alias `tmp := buffer` of a closure-level container?
						defs := m.Defs[v]
						if len(defs) != 1 || defs[0].Expr == nil {
							continue
						}
						rid, _ := ast.Unparen(defs[0].Expr).(*ast.Ident)
						if rid == nil {
							continue
						}
						rv, _ := objOf(info, rid).(*types.Var)
						if rv == nil || !locals[rv] {
							continue
						}
						v, anchor = rv, defs[0].Node
					}
					n++
					c.Inc("container_emissions", 1)
					key := fmt.Sprintf("%s/%s/emit-container-%s#%d", sc, model.CtxKey(e.Ctx, e.Slot), v.Name(), n)
					verdict, msg := reboundAfter(m, e.Pkg, anchor, v)
					terminalSlot := (e.Ctx.Kind == model.KSrc && e.Slot != model.SlotNext) || (e.Ctx.Kind == model.KBody && !e.InLoop)
					switch {
					case verdict == "rebound":
						if armed {
							c.OK(key, e.Pos, "%s", msg)
						}
					case verdict == "untouched" && terminalSlot:
						if armed {
							c.OK(key, e.Pos, "emitted once (terminal slot or straight-line subscribe body) and not touched afterwards")
						}
					default:
						c.Report(armed, key, e.Pos, "the emitted %s keeps being referenced by closure variable %s, which is %s: a value already delivered downstream can be modified by later items", t.String(), v.Name(), msg)
					}
				}
			}
		},
	}
}

// reboundAfter inspects the statements following anchor (in its block and the enclosing
// blocks up to the function) for the first one that mentions v.
func reboundAfter(m *model.Model, p *packages.Package, anchor ast.Node, v *types.Var) (string, string) {
	info := p.TypesInfo
	mentions := func(n ast.Node) bool {
		found := false
		ast.Inspect(n, func(x ast.Node) bool {
			if id, ok := x.(*ast.Ident); ok && objOf(info, id) == v {
				found = true
			}
			return true
		})
		return found
	}
	isFresh := func(e ast.Expr) bool {
		switch x := ast.Unparen(e).(type) {
		case *ast.CompositeLit:
			return true
		case *ast.Ident:
			_, isNil := info.Uses[x].(*types.Nil)
			return isNil
		case *ast.CallExpr:
			if id, ok := ast.Unparen(x.Fun).(*ast.Ident); ok {
				if b, ok := info.Uses[id].(*types.Builtin); ok && (b.Name() == "make" || b.Name() == "new") {
					return true
				}
			}
		}
		return false
	}
	for n := anchor; n != nil; n = m.Parent(p, n) {
		par := m.Parent(p, n)
		switch par.(type) {
		case *ast.FuncLit, *ast.FuncDecl:
			return "untouched", "not written again in this callback but not re-bound either"
		}
		blk, ok := par.(*ast.BlockStmt)
		if !ok {
			continue
		}
		after := false
		for _, s := range blk.List {
			if s == n {
				after = true
				continue
			}
			if !after || !mentions(s) {
				continue
			}
			if as, ok := s.(*ast.AssignStmt); ok && as.Tok == token.ASSIGN && len(as.Lhs) == len(as.Rhs) {
				for i, l := range as.Lhs {
					if id, ok := l.(*ast.Ident); ok && objOf(info, id) == v && isFresh(as.Rhs[i]) {
						return "rebound", "the variable is re-bound to a fresh allocation right after being handed out"
					}
				}
			}
			return "reused", "used again before being re-bound to a fresh allocation"
		}
	}
	return "untouched", "not written again in this callback but not re-bound either"
}

const controlsC04 = `
func verifControlAdapterConstIndex[T, R any](project func(item T, index int64) R) func(Observable[T]) Observable[R] {
	return MapIWithContext(func(ctx context.Context, v T, i int64) (context.Context, R) {
		return ctx, project(v, 0)
	})
}

func verifControlPipeSwapped[A any](source Observable[A], operator1 func(Observable[A]) Observable[A], operator2 func(Observable[A]) Observable[A]) Observable[A] {
	return operator1(operator2(source))
}

func verifControlBufferReuse[T any](size int) func(Observable[T]) Observable[[]T] {
	return func(source Observable[T]) Observable[[]T] {
		return NewUnsafeObservableWithContext(func(subscriberCtx context.Context, destination Observer[[]T]) Teardown {
			buffer := make([]T, 0, size)
			sub := source.SubscribeWithContext(subscriberCtx, NewObserverWithContext(
				func(ctx context.Context, value T) {
					buffer = append(buffer, value)
					if len(buffer) >= size {
						destination.NextWithContext(ctx, buffer)
						buffer = buffer[:0]
					}
				},
				destination.ErrorWithContext, destination.CompleteWithContext))
			return sub.Unsubscribe
		})
	}
}

func verifControlDeadEmission[T any]() func(Observable[T]) Observable[int] {
	return func(source Observable[T]) Observable[int] {
		return NewUnsafeObservableWithContext(func(subscriberCtx context.Context, destination Observer[int]) Teardown {
			n := 0
			sub := source.SubscribeWithContext(subscriberCtx, NewObserverWithContext(
				func(ctx context.Context, value T) { n++ },
				destination.ErrorWithContext,
				func(ctx context.Context) {
					destination.CompleteWithContext(ctx)
					destination.NextWithContext(ctx, n)
				}))
			return sub.Unsubscribe
		})
	}
}
`

// DEAD-EMISSION: a notification that is certainly preceded by a terminal notification to the same destination is
// always discarded by the destination's subscriber.
func ruleDeadEmission() check.Rule {
	return check.Rule{
		Name:        "DEAD-EMISSION",
		Doc:         "no operator sends a notification to its destination at a point that every path reaches only after a terminal notification (Error/Complete) to that destination sent from the same function (followed outwards through inlined closures and helpers): the subscriber has closed by then, so the notification - typically the operator's result, e.g. `Complete` written before `Next(result)` - is always dropped",
		NeedControl: true,
		Run: func(c *check.Ctx) {
			m := c.M
			for _, sc := range m.SCs {
				armed := c.Armed(sc)
				// only unconditional terminals count as "certainly sent": a node is a certain terminal when it is a direct
				// terminal emission, or a call whose callee body passes a certain terminal on every path (approximated by
				// direct emissions only; calls are not used as dominators)
				isTerm := func(n ast.Node) bool {
					found := false
					ast.Inspect(n, func(x ast.Node) bool {
						if _, isLit := x.(*ast.FuncLit); isLit {
							return false
						}
						if call, ok := x.(*ast.CallExpr); ok {
							for _, e := range sc.Emits {
								if e.ToDest && e.Kind != model.EmitNext && !e.Forwarder && !e.Deferred && e.Node == ast.Node(call) {
									found = true
								}
							}
						}
						return !found
					})
					return found
				}
				cnt := 0
				for _, e := range sc.Emits {
					if !e.ToDest || e.Forwarder || e.Deferred {
						continue
					}
					c.Inc("emissions_checked", 1)
					// at each level: the emission itself, then the call sites of the closures it is inlined through
					target := e.Node
					fn := innermostFunc(m, e.Pkg, e.Node)
					dead := false
					for depth := len(e.Stack); fn != nil; depth-- {
						if body := funcBody(fn); body != nil && pathsPassBefore(body, target, func(n ast.Node) bool {
							return n != target && !(n.Pos() <= target.Pos() && target.End() <= n.End()) && isTerm(n)
						}) {
							dead = true
							break
						}
						if depth <= 0 {
							break
						}
						target = e.Stack[depth-1]
						fn = innermostFunc(m, e.Pkg, target)
					}
					if dead {
						cnt++
						c.Report(armed, fmt.Sprintf("%s/%s/dead-emission#%d", sc, model.CtxKey(e.Ctx, e.Slot), cnt), e.Pos, "this %s notification is sent only after a terminal notification has already been sent to the destination on every path: it is always discarded (a result emitted after Complete is lost)", model.SlotNames[e.Kind])
					}
				}
				if cnt == 0 && armed {
					c.OK(sc.String()+"/dead-emission", sc.Lit.Pos(), "no notification is sent after a certain terminal")
				}
			}
		},
	}
}

// CONTEXTLESS-DELEGATES: Next/Error/Complete/Subscribe/Connect are the WithContext forms with a background context.
func ruleContextlessDelegates() check.Rule {
	return check.Rule{
		Name: "CONTEXTLESS-DELEGATES",
		Doc:  "on every type of package ro that has both forms, the context-less method (Next, Error, Complete, Subscribe, Connect) consists of one call of its WithContext counterpart on the same receiver, passing a fresh background context followed by its own parameters in order",
		Run: func(c *check.Ctx) {
			m := c.M
			p := m.Obj.Ro
			info := p.TypesInfo
			n := 0
			for _, f := range p.Syntax {
				for _, d := range f.Decls {
					fd, ok := d.(*ast.FuncDecl)
					if !ok || fd.Recv == nil || fd.Body == nil || len(fd.Recv.List) != 1 {
						continue
					}
					switch fd.Name.Name {
					case "Next", "Error", "Complete", "Subscribe", "Connect":
					default:
						continue
					}
					tname := load.RecvTypeName(fd.Recv.List[0].Type)
					if check.IsControlName(tname) {
						continue
					}
					want := fd.Name.Name + "WithContext"
					has := false
					for _, o := range methodsOf(p, tname) {
						if o.Name.Name == want {
							has = true
						}
					}
					if !has {
						continue
					}
					n++
					key := "ro." + tname + "." + fd.Name.Name + "/delegates"
					rv := recvObj(info, fd)
					params := model.FlattenParams(info, fd.Type.Params)
					ok2 := false
					if len(fd.Body.List) == 1 {
						var call *ast.CallExpr
						switch st := fd.Body.List[0].(type) {
						case *ast.ExprStmt:
							call, _ = st.X.(*ast.CallExpr)
						case *ast.ReturnStmt:
							if len(st.Results) == 1 {
								call, _ = ast.Unparen(st.Results[0]).(*ast.CallExpr)
							}
						}
						if call != nil {
							if sel, isSel := ast.Unparen(call.Fun).(*ast.SelectorExpr); isSel && sel.Sel.Name == want {
								if id, isID := ast.Unparen(sel.X).(*ast.Ident); isID && objOf(info, id) == types.Object(rv) && len(call.Args) == len(params)+1 && isFreshCtx(info, call.Args[0]) != "" {
									ok2 = true
									for i, pv := range params {
										aid, isID := ast.Unparen(call.Args[i+1]).(*ast.Ident)
										if !isID || objOf(info, aid) != types.Object(pv) {
											ok2 = false
										}
									}
								}
							}
						}
					}
					if ok2 {
						c.OK(key, fd.Pos(), "delegates to %s with a background context and its own parameters", want)
					} else {
						c.Violation(key, fd.Pos(), "%s.%s is not the plain delegation to %s(context.Background(), <its parameters>): the context-less form behaves differently from the context-aware one", tname, fd.Name.Name, want)
					}
				}
			}
			c.Inc("contextless_methods", n)
		},
	}
}

// BODY-TERMINATES: a synchronous creation operator ends what it started.
func ruleBodyTerminates() check.Rule {
	return check.Rule{
		Name: "BODY-TERMINATES",
		Doc:  "a subscribe closure that subscribes nothing, starts no goroutine or timer and does not block (Just, Range, FromSlice, Empty, Throw, Start, ...) sends a terminal notification to the destination on every path to its return (directly, deferred, or through a local closure that sends one): otherwise the observable emits its values and then stays open for ever",
		Run: func(c *check.Ctx) {
			m := c.M
			n := 0
			for _, sc := range m.SCs {
				blocking := false
				for _, b := range sc.Blocks {
					if b.What != "loop" {
						blocking = true
					}
				}
				if len(sc.SubSites) > 0 || len(sc.Gos) > 0 || len(sc.Timers) > 0 || blocking || len(sc.Unknown) > 0 {
					continue
				}
				armed := c.Armed(sc)
				onward := map[ast.Node]bool{}
				deferredTerminal := false
				for _, e := range sc.Emits {
					if !e.ToDest || e.Kind == model.EmitNext {
						continue
					}
					if e.Deferred && len(e.Stack) == 0 {
						deferredTerminal = true
					}
					onward[e.Node] = true
					for _, call := range e.Stack {
						onward[call] = true
					}
				}
				// handing the destination to another function (delegation) also counts
				destObj := sc.Dest
				n++
				key := sc.String() + "/body-terminates"
				pass := deferredTerminal || everyPathPasses(sc.Lit.Body, func(nd ast.Node) bool {
					found := false
					ast.Inspect(nd, func(x ast.Node) bool {
						if onward[x] {
							found = true
						}
						if l, ok := x.(*ast.FuncLit); ok && ast.Node(l) != nd {
							return false
						}
						if call, ok := x.(*ast.CallExpr); ok && destObj != nil {
							for _, a := range call.Args {
								if id, ok := ast.Unparen(a).(*ast.Ident); ok && objOf(sc.Pkg.TypesInfo, id) == types.Object(destObj) {
									found = true // the destination is handed on
								}
							}
						}
						return !found
					})
					return found
				})
				if pass {
					if armed {
						c.OK(key, sc.Lit.Pos(), "every path of the synchronous subscribe function ends with a terminal notification (or hands the destination on)")
					}
				} else {
					c.Report(armed, key, sc.Lit.Pos(), "the subscribe function subscribes nothing, starts nothing and returns on some path without a terminal notification: the observable never ends")
				}
			}
			c.Inc("synchronous_creation_closures", n)
		},
	}
}

// reachableAfter: some CFG path leads from just after node `from` to node `to` inside body.
func reachableAfter(body *ast.BlockStmt, from, to ast.Node) bool {
	g := cfg.New(body, func(*ast.CallExpr) bool { return true })
	locate := func(n ast.Node) (*cfg.Block, int) {
		var tb *cfg.Block
		ti := -1
		best := token.Pos(-1)
		for _, b := range g.Blocks {
			for i, nd := range b.Nodes {
				if nd.Pos() <= n.Pos() && n.End() <= nd.End() {
					if span := nd.End() - nd.Pos(); best < 0 || span < best {
						best, tb, ti = span, b, i
					}
				}
			}
		}
		return tb, ti
	}
	fb, fi := locate(from)
	tb, ti := locate(to)
	if fb == nil || tb == nil {
		return false
	}
	if fb == tb && ti > fi {
		return true
	}
	seen := map[int32]bool{}
	found := false
	var dfs func(b *cfg.Block)
	dfs = func(b *cfg.Block) {
		if found || seen[b.Index] {
			return
		}
		seen[b.Index] = true
		if b == tb {
			found = true
			return
		}
		for _, sc := range b.Succs {
			dfs(sc)
		}
	}
	for _, sc := range fb.Succs {
		dfs(sc)
	}
	return found
}

// LATE-EMISSION: an operator does not go on notifying after its own terminal notification.
func ruleLateEmission() check.Rule {
	return check.Rule{
		Name: "LATE-EMISSION",
		Doc:  "inside one invocation of a function of an operator, no notification to the destination is reachable after a terminal notification to the destination sent earlier in the same invocation (a missing return after `Next(x); Complete()`): such notifications are dropped by the subscriber, but they are the operator breaking the notification grammar itself, and every one is surfaced to the dropped-notification hook as if a producer had misbehaved",
		Run: func(c *check.Ctx) {
			m := c.M
			for _, sc := range m.SCs {
				armed := c.Armed(sc)
				cnt := 0
				for _, t := range sc.Emits {
					if !t.ToDest || t.Kind == model.EmitNext || t.Forwarder || t.Deferred {
						continue
					}
					fn := innermostFunc(m, t.Pkg, t.Node)
					body := funcBody(fn)
					if body == nil {
						continue
					}
					for _, e := range sc.Emits {
						if e == t || !e.ToDest || e.Forwarder || e.Deferred || innermostFunc(m, e.Pkg, e.Node) != fn {
							continue
						}
						if e.InLoop || t.InLoop {
							continue // another iteration is another story (guards are value level)
						}
						if reachableAfter(body, t.Node, e.Node) {
							cnt++
							c.Report(armed, fmt.Sprintf("%s/%s/late-emission#%d", sc, model.CtxKey(e.Ctx, e.Slot), cnt), e.Pos, "this %s notification can be reached after the %s notification at %s in the same invocation (no return in between): the operator notifies after its own terminal", model.SlotNames[e.Kind], model.SlotNames[t.Kind], c.Prog.Rel(t.Pos))
						}
					}
				}
				if cnt == 0 && armed {
					c.OK(sc.String()+"/late-emission", sc.Lit.Pos(), "no notification is reachable after a terminal one within an invocation")
				}
			}
		},
	}
}

func C04() *check.Property {
	return &check.Property{
		ID:       "C04",
		Title:    "Each operator computes its documented function of the input sequence",
		Patterns: cat(CorePatterns, PluginPkgs, IOPluginPkgs, []string{PromPkg}, RatePkgs),
		Scope:    []string{ro},
		Rules:    []check.Rule{ruleShareReplayConfig(), ruleAdapter(), ruleAlias(), rulePipe(), ruleNoPostDeliveryMutation(), ruleDeadEmission(), ruleStateLevel(), ruleTerminalPropagation(), ruleObservableParamUsed(), ruleContextlessDelegates(), ruleBodyTerminates(), ruleLateEmission(), ruleConsumeFlag(), rulePublishBeforeEmit(), ruleTerminalCallAgreement(), ruleTimerDequeueCoupled(), ruleQueueFIFO(), ruleIncorporateBeforeDecide(), ruleAccessGuarded(), ruleGoSourceTerminates(), withScope(ruleStableMeansStable(), PluginPkgs...), ruleAtomicPointeeImmutable(), ruleInnerFilledBeforeHandover(), ruleGetOrCreate(), ruleNoDuplicateForward()},
		Explanation: "Narrow structural claim. The values each operator computes are NOT decided (no executable specification of ~150 operators is derivable from the source). Four clauses of the property are visible in the code's shape and are decided: " +
			"(ADAPTER) plain / indexed / context-aware variants that delegate through a literal are pure adapters — user function called once, only the adapter's own parameters passed, the right context returned — hence observationally identical to the base form; " +
			"(ALIAS) aliases forward every parameter exactly once; (PIPE) the 50 typed PipeN/PipeOpN apply their operators in order, so a chain is the composition of its parts; " +
			"(NO-POST-DELIVERY-MUTATION) a slice/map that was emitted is never written again through the operator's retained variable; (DEAD-EMISSION) no notification is sent at a point every path reaches only after a terminal notification to the same destination (a result written after Complete is always dropped).",
		NotDecided:  "the function computed by every base form (ordering, loss, duplication, boundaries, parameters) and the reflective Pipe/PipeOp versus typed PipeN equivalence at run time.",
		Assumptions: []string{"go/types (parametricity of the PipeN signatures)"},
		Floors:      map[string]int{"adapters": 40, "aliases": 20, "pipe_functions": 48, "container_emissions": 6, "emissions_checked": 400},
		Controls:    map[string]string{"zz_verif_controls_c04.go": roControl(controlsC04), "zz_verif_controls_c12.go": roControl(controlsC12), "zz_verif_controls_c05.go": roControl(controlsC05), "zz_verif_controls_access.go": roControl(controlsAccessGuard), "zz_verif_controls_atomicptr.go": roControl(controlsAtomicPointee), "zz_verif_controls_c05c.go": roControl(controlsC05c + controlsC05d), "plugins/sort/zz_verif_controls_c18.go": pluginControl("rosort", []string{`"context"`, `"sort"`, `"github.com/samber/ro"`}, controlsC18Sort)},
	}
}

// identDeclNode returns the identifier node that declares v inside the SC.
func identDeclNode(m *model.Model, sc *model.SC, v *types.Var) ast.Node {
	var out ast.Node
	ast.Inspect(sc.Lit.Body, func(n ast.Node) bool {
		if id, ok := n.(*ast.Ident); ok && sc.Pkg.TypesInfo.Defs[id] == v {
			out = id
		}
		return out == nil
	})
	return out
}

// GO-SOURCE-TERMINATES: a source that produces from a goroutine ends its output when the goroutine ends.
func ruleGoSourceTerminates() check.Rule {
	return check.Rule{
		Name:       "GO-SOURCE-TERMINATES",
		ExtraScope: IOPluginPkgs,
		Doc:        "in a creation operator (no upstream subscription) whose notifications are sent from a goroutine it starts, every path on which that goroutine ends passes a terminal notification to the destination (sent directly, deferred, or through a local closure) — except the paths that leave through a receive from (or a range over) a channel that only the operator's own teardown closes, i.e. the exits that unsubscription itself causes. A request that succeeded, a channel the caller closed or a watcher that stopped otherwise leave the subscriber open for ever after the last value",
		Run: func(c *check.Ctx) {
			m := c.M
			n := 0
			for _, sc := range m.SCs {
				if len(sc.SubSites) > 0 || len(sc.Gos) == 0 || len(sc.Unknown) > 0 {
					continue
				}
				armed := c.Armed(sc)
				info := sc.Pkg.TypesInfo
				ra := analyseRelease(m, sc)
				for gi, g := range sc.Gos {
					var lit *ast.FuncLit
					if l, ok := ast.Unparen(g.Stmt.Call.Fun).(*ast.FuncLit); ok {
						lit = l
					} else {
						for _, a := range g.Stmt.Call.Args {
							if l, ok := ast.Unparen(a).(*ast.FuncLit); ok {
								lit = l
							}
						}
					}
					if lit == nil {
						continue
					}
					inside := func(nd ast.Node) bool { return nd != nil && lit.Pos() <= nd.Pos() && nd.End() <= lit.End() }
					onward := map[ast.Node]bool{}
					deferredTerminal := false
					emits := 0
					for _, e := range sc.Emits {
						if !e.ToDest || !inside(e.Node) {
							continue
						}
						emits++
						if e.Kind == model.EmitNext {
							continue
						}
						if e.Deferred {
							deferredTerminal = true
						}
						onward[e.Node] = true
						for _, call := range e.Stack {
							if inside(call) {
								onward[call] = true
							}
						}
					}
					if emits == 0 {
						continue
					}
					n++
					key := fmt.Sprintf("%s/go#%d/terminates", sc, gi+1)
					teardownClosed := func(ch ast.Expr) bool {
						if nd := resNode(info, nil, ch); nd != "" && ra.released[nd] {
							return true
						}
						if sel, ok := ast.Unparen(ch).(*ast.SelectorExpr); ok {
							if id, ok := ast.Unparen(sel.X).(*ast.Ident); ok {
								if o := objOf(info, id); o != nil && externalCloserIn(m, sc, o) {
									return true
								}
							}
						}
						return false
					}
					// a range over a teardown-closed channel ends because of the unsubscription (go/cfg shows the ranged
					// expression as a node of its own)
					rangedClosed := map[ast.Node]bool{}
					ast.Inspect(lit.Body, func(x ast.Node) bool {
						if rs, ok := x.(*ast.RangeStmt); ok && teardownClosed(rs.X) {
							rangedClosed[rs.X] = true
						}
						return true
					})
					pass := deferredTerminal || everyPathPasses(lit.Body, func(nd ast.Node) bool {
						found := false
						if rangedClosed[nd] {
							return true
						}
						ast.Inspect(nd, func(x ast.Node) bool {
							if x == nil || found {
								return false
							}
							if onward[x] {
								found = true
							}
							if l, ok := x.(*ast.FuncLit); ok && l != lit {
								return false
							}
							if u, ok := x.(*ast.UnaryExpr); ok && u.Op == token.ARROW && teardownClosed(u.X) {
								found = true
							}
							return !found
						})
						return found
					})
					if pass {
						if armed {
							c.OK(key, g.Pos, "every way this producing goroutine ends sends a terminal notification (or is caused by the unsubscription)")
						}
					} else {
						c.Report(armed, key, g.Pos, "the goroutine that produces this source's notifications can end without sending Error or Complete to the destination: the subscriber stays open for ever after the last value")
					}
				}
			}
			c.Inc("producing_goroutines", n)
		},
	}
}

package rules

import (
	"fmt"
	"go/ast"
	"go/token"
	"go/types"
	"sort"
	"strings"

	"golang.org/x/tools/go/packages"

	"rocheck/internal/check"
	"rocheck/internal/load"
	"rocheck/internal/lockset"
	"rocheck/internal/model"
)

// lockDB caches lock-set analyses of function nodes.
type lockDB struct {
	held  *heldDB
	m     *model.Model
	cache map[ast.Node]*lockset.Result
}

func newLockDB(m *model.Model) *lockDB { return &lockDB{m: m, cache: map[ast.Node]*lockset.Result{}} }

func (db *lockDB) analyze(p *packages.Package, fn ast.Node, entry lockset.Set) *lockset.Result {
	if entry == nil {
		if r := db.cache[fn]; r != nil {
			return r
		}
	}
	r := lockset.Analyze(p.TypesInfo, fn, funcBody(fn), entry)
	if entry == nil {
		db.cache[fn] = r
	}
	return r
}

// innermostFunc returns the innermost function node of pkg containing n.
func innermostFunc(m *model.Model, p *packages.Package, n ast.Node) ast.Node {
	chain := m.EnclosingFuncs(p, n)
	if len(chain) == 0 {
		return nil
	}
	return chain[len(chain)-1]
}

// recvObj returns the receiver variable of a method declaration.
func recvObj(info *types.Info, fd *ast.FuncDecl) *types.Var {
	if fd.Recv == nil || len(fd.Recv.List) != 1 || len(fd.Recv.List[0].Names) != 1 {
		return nil
	}
	v, _ := info.Defs[fd.Recv.List[0].Names[0]].(*types.Var)
	return v
}

// normKey rewrites a lock key rooted at the receiver to "recv.<path>".
func normKey(key string, recv *types.Var) string {
	if recv == nil {
		return key
	}
	prefix := fmt.Sprintf("%s@%d", recv.Name(), recv.Pos())
	if strings.HasPrefix(key, prefix) {
		return "recv" + key[len(prefix):]
	}
	return key
}

func normSet(s lockset.Set, recv *types.Var) lockset.Set {
	o := lockset.Set{}
	for k := range s {
		o[normKey(k, recv)] = true
	}
	return o
}

// methodsOf lists the method declarations of a named type in pkg.
func methodsOf(p *packages.Package, typeName string) []*ast.FuncDecl {
	var out []*ast.FuncDecl
	for _, f := range p.Syntax {
		for _, d := range f.Decls {
			if fd, ok := d.(*ast.FuncDecl); ok && fd.Recv != nil && len(fd.Recv.List) == 1 && load.RecvTypeName(fd.Recv.List[0].Type) == typeName {
				out = append(out, fd)
			}
		}
	}
	sort.Slice(out, func(i, j int) bool { return out[i].Name.Name < out[j].Name.Name })
	return out
}

// fieldAccess is an access to a struct field through the receiver inside a method
// (or a literal nested in it).
type fieldAccess struct {
	Field  *types.Var
	Method *ast.FuncDecl
	Fn     ast.Node // innermost function node
	Node   ast.Node
	Write  bool
	Atomic bool
	Held   lockset.Set // normalised must-set (receiver-rooted keys as recv.*)
}

// isSyncSafeType: values whose methods are safe for concurrent use.
func isSyncSafeType(t types.Type) bool {
	if t == nil {
		return false
	}
	if _, ok := t.Underlying().(*types.Chan); ok {
		return true
	}
	n := load.NamedOf(t)
	if n == nil || n.Obj().Pkg() == nil {
		return false
	}
	pp := n.Obj().Pkg().Path()
	switch {
	case pp == "sync" || pp == "sync/atomic":
		return true
	case strings.HasSuffix(pp, "/internal/xsync"), strings.HasSuffix(pp, "/internal/xatomic"):
		return true
	}
	return false
}

// entryLocks computes, for unexported methods and local closures, the locks that every
// call site holds ("requires m"): their bodies are analysed with those locks held.
func entryLocksForMethod(db *lockDB, p *packages.Package, typeName string, fd *ast.FuncDecl, depth int) lockset.Set {
	if ast.IsExported(fd.Name.Name) || depth > 3 {
		return lockset.Set{}
	}
	info := p.TypesInfo
	fo, _ := info.Defs[fd.Name].(*types.Func)
	var common lockset.Set
	n := 0
	for _, caller := range methodsOf(p, typeName) {
		if caller == fd {
			continue
		}
		var res *lockset.Result
		rv := recvObj(info, caller)
		ast.Inspect(caller.Body, func(x ast.Node) bool {
			call, ok := x.(*ast.CallExpr)
			if !ok {
				return true
			}
			callee := model.Callee(info, call)
			if callee == nil || fo == nil || callee != fo.Origin() {
				return true
			}
			// the call must be directly in the caller's body (not in a nested literal) to inherit its locks
			if innermostFunc(db.m, p, call) != ast.Node(caller) {
				n++
				common = lockset.Set{}
				return true
			}
			if res == nil {
				res = db.analyze(p, caller, entryLocksForMethod(db, p, typeName, caller, depth+1))
			}
			held, ok := res.At(call)
			if !ok {
				held = lockset.Set{}
			}
			// a deferred call runs when the caller returns: what is held then, not where the defer statement stands
			if d, isDefer := db.m.Parent(p, call).(*ast.DeferStmt); isDefer && d.Call == call {
				held = res.HeldByDeferred(d)
			}
			held = normSet(held, rv)
			n++
			if common == nil {
				common = held
			} else {
				nc := lockset.Set{}
				for k := range common {
					if held[k] {
						nc[k] = true
					}
				}
				common = nc
			}
			return true
		})
	}
	if n == 0 || common == nil {
		return lockset.Set{}
	}
	// translate recv.* back to this method's receiver key
	rv := recvObj(info, fd)
	out := lockset.Set{}
	for k := range common {
		if strings.HasPrefix(k, "recv") && rv != nil {
			out[fmt.Sprintf("%s@%d%s", rv.Name(), rv.Pos(), k[len("recv"):])] = true
		}
	}
	return out
}

// fieldAccessesOf collects the accesses to the fields of typeName made through method receivers.
func fieldAccessesOf(db *lockDB, p *packages.Package, typeName string) []fieldAccess {
	info := p.TypesInfo
	var out []fieldAccess
	for _, fd := range methodsOf(p, typeName) {
		if fd.Body == nil {
			continue
		}
		rv := recvObj(info, fd)
		if rv == nil {
			continue
		}
		entry := entryLocksForMethod(db, p, typeName, fd, 0)
		results := map[ast.Node]*lockset.Result{fd: db.analyze(p, fd, entry)}
		writes := map[ast.Node]bool{}
		atomics := map[ast.Node]bool{}
		// classify selector occurrences
		ast.Inspect(fd.Body, func(n ast.Node) bool {
			switch x := n.(type) {
			case *ast.AssignStmt:
				for _, l := range x.Lhs {
					if sel := fieldSelOf(info, l, rv); sel != nil {
						writes[sel] = true
					}
				}
			case *ast.IncDecStmt:
				if sel := fieldSelOf(info, x.X, rv); sel != nil {
					writes[sel] = true
				}
			case *ast.CallExpr:
				callee := model.Callee(info, x)
				if callee != nil && callee.Pkg() != nil && callee.Pkg().Path() == "sync/atomic" {
					for _, a := range x.Args {
						if u, ok := ast.Unparen(a).(*ast.UnaryExpr); ok && u.Op == token.AND {
							if sel := fieldSelOf(info, u.X, rv); sel != nil {
								atomics[sel] = true
							}
						}
					}
				}
			}
			return true
		})
		ast.Inspect(fd.Body, func(n ast.Node) bool {
			sel, ok := n.(*ast.SelectorExpr)
			if !ok {
				return true
			}
			id, ok := ast.Unparen(sel.X).(*ast.Ident)
			if !ok || objOf(info, id) != rv {
				return true
			}
			s, ok := info.Selections[sel]
			if !ok || s.Kind() != types.FieldVal {
				return true
			}
			fv, _ := s.Obj().(*types.Var)
			if fv == nil {
				return true
			}
			fn := innermostFunc(db.m, p, sel)
			res := results[fn]
			if res == nil {
				// a nested literal: what its call site (synchronous higher-order call, lock wrapper, closure calls) holds
				if db.held == nil {
					db.held = newHeldDB(db.m)
				}
				res = db.analyze(p, fn, db.held.entryOf(p, fn))
				results[fn] = res
			}
			held, _ := res.At(sel)
			out = append(out, fieldAccess{Field: fv, Method: fd, Fn: fn, Node: sel, Write: writes[sel], Atomic: atomics[sel], Held: normSet(held, rv)})
			return true
		})
	}
	return out
}

// fieldSelOf returns the selector `recv.f` at the root of an lvalue (recv.f, recv.f[i], recv.f.x).
func fieldSelOf(info *types.Info, e ast.Expr, rv *types.Var) *ast.SelectorExpr {
	for hops := 0; ; {
		switch x := ast.Unparen(e).(type) {
		case *ast.Ident:
			// a local that is another name for a field of the receiver (lock := &s.mu)
			if hops < 4 && info.Defs[x] == nil {
				if a := model.AliasOf(info.Uses[x]); a != nil {
					hops++
					e = a
					continue
				}
			}
			return nil
		case *ast.UnaryExpr:
			if x.Op != token.AND {
				return nil
			}
			e = x.X
		case *ast.SelectorExpr:
			if id, ok := ast.Unparen(x.X).(*ast.Ident); ok && objOf(info, id) == rv {
				if s, ok := info.Selections[x]; ok && s.Kind() == types.FieldVal {
					return x
				}
				return nil
			}
			e = x.X
		case *ast.IndexExpr:
			e = x.X
		case *ast.StarExpr:
			e = x.X
		case *ast.SliceExpr:
			e = x.X
		default:
			return nil
		}
	}
}

// guardedFields checks the Eraser discipline on the fields of a type: every field that is
// written after construction is accessed only atomically, through a sync-safe type, or with
// one common lock held.
func guardedFields(c *check.Ctx, db *lockDB, p *packages.Package, typeName string, armed bool) {
	accs := fieldAccessesOf(db, p, typeName)
	byField := map[string][]fieldAccess{}
	var names []string
	for _, a := range accs {
		if byField[a.Field.Name()] == nil {
			names = append(names, a.Field.Name())
		}
		byField[a.Field.Name()] = append(byField[a.Field.Name()], a)
	}
	sort.Strings(names)
	c.Inc("field_accesses", len(accs))
	for _, name := range names {
		as := byField[name]
		key := fmt.Sprintf("%s.%s.%s", model.ShortPkg(p.PkgPath), typeName, name)
		ft := as[0].Field.Type()
		if isSyncSafeType(ft) {
			// the methods of a concurrency-safe object may be called from anywhere; overwriting the field that holds it
			// (s.observers = sync.Map{} to "clear" it) is a plain write that races with those calls and, for a sync.Map or
			// a mutex, resets the lock word under a goroutine that holds it
			overwritten := false
			for _, a := range as {
				if a.Write && !a.Atomic {
					overwritten = true
				}
			}
			if !overwritten {
				if armed {
					c.OK(key, as[0].Node.Pos(), "field of concurrency-safe type %s", types.TypeString(ft, func(p *types.Package) string { return p.Name() }))
				}
				continue
			}
		}
		written := false
		for _, a := range as {
			if a.Write || a.Atomic {
				written = true
			}
		}
		if !written {
			if armed {
				c.OK(key, as[0].Node.Pos(), "never written after construction (%d reads)", len(as))
			}
			continue
		}
		// common lock over non-atomic accesses
		var common lockset.Set
		var firstBad *fieldAccess
		nonAtomic := 0
		for i := range as {
			a := &as[i]
			if a.Atomic {
				continue
			}
			nonAtomic++
			// a read lock protects a read, never a write
			eff := lockset.Effective(a.Held, a.Write)
			if common == nil {
				common = eff.Clone()
			} else {
				for k := range common {
					if !eff[k] {
						delete(common, k)
					}
				}
			}
			if len(eff) == 0 && firstBad == nil {
				firstBad = a
			}
		}
		switch {
		case nonAtomic == 0:
			if armed {
				c.OK(key, as[0].Node.Pos(), "accessed only through sync/atomic (%d accesses)", len(as))
			}
		case len(common) > 0:
			if armed {
				c.OK(key, as[0].Node.Pos(), "all %d accesses hold %s", nonAtomic, common)
			}
		default:
			bad := firstBad
			if bad == nil {
				bad = &as[0]
			}
			// a guarded access to pair it with
			other := ""
			for i := range as {
				if len(as[i].Held) > 0 {
					other = fmt.Sprintf("; e.g. %s.%s accesses it holding %s at %s", typeName, as[i].Method.Name.Name, as[i].Held, c.Prog.Rel(as[i].Node.Pos()))
					break
				}
			}
			kind := "read"
			if bad.Write {
				kind = "written"
			}
			c.Report(armed, key, bad.Node.Pos(), "field %s is %s in %s.%s without a lock that all other accesses share%s: unsynchronised conflicting accesses are possible",
				name, kind, typeName, bad.Method.Name.Name, other)
		}
	}
}

// ---------------------------------------------------------------------------
// lock sets with inheritance through synchronous callbacks and "requires lock" closures

type heldDB struct {
	db        *lockDB
	m         *model.Model
	entry     map[ast.Node]lockset.Set
	results   map[ast.Node]*lockset.Result
	busy      map[ast.Node]bool
	calls     map[types.Object][]callRef // calls through local variables
	valueUses map[types.Object]int       // uses of a closure variable other than calling it
}

func newHeldDB(m *model.Model) *heldDB {
	h := &heldDB{db: newLockDB(m), m: m, entry: map[ast.Node]lockset.Set{}, results: map[ast.Node]*lockset.Result{}, busy: map[ast.Node]bool{},
		calls: map[types.Object][]callRef{}, valueUses: map[types.Object]int{}}
	for _, p := range m.Pkgs {
		info := p.TypesInfo
		callFun := map[*ast.Ident]bool{}
		for _, f := range p.Syntax {
			ast.Inspect(f, func(n ast.Node) bool {
				if call, ok := n.(*ast.CallExpr); ok {
					if id, ok := ast.Unparen(call.Fun).(*ast.Ident); ok {
						if v, ok := objOf(info, id).(*types.Var); ok {
							h.calls[v] = append(h.calls[v], callRef{p, call})
							callFun[id] = true
						}
					}
				}
				return true
			})
		}
		for id, o := range info.Uses {
			if v, ok := o.(*types.Var); ok && !callFun[id] {
				if _, isSig := v.Type().Underlying().(*types.Signature); isSig {
					h.valueUses[v]++
				}
			}
		}
	}
	return h
}

// syncHigherOrder reports whether call runs its function-literal arguments synchronously on
// the caller's goroutine before returning.
func syncHigherOrder(m *model.Model, info *types.Info, call *ast.CallExpr) bool {
	callee := model.Callee(info, call)
	if callee == nil {
		return false
	}
	switch {
	case model.IsMethod(callee, "sync", "Map", "Range"), model.IsMethod(callee, "sync", "Once", "Do"):
		return true
	case callee.Pkg() != nil && callee.Pkg().Path() == "github.com/samber/lo" && strings.HasPrefix(callee.Name(), "TryCatch"):
		return true
	case callee == m.Obj.RecoverUnhandled:
		return true
	}
	return false
}

func (h *heldDB) entryOf(p *packages.Package, fn ast.Node) lockset.Set {
	if e, ok := h.entry[fn]; ok {
		return e
	}
	if h.busy[fn] {
		return lockset.Set{}
	}
	h.busy[fn] = true
	defer delete(h.busy, fn)
	e := lockset.Set{}
	switch x := fn.(type) {
	case *ast.FuncDecl:
		if x.Recv != nil && len(x.Recv.List) == 1 {
			e = entryLocksForMethod(h.db, p, load.RecvTypeName(x.Recv.List[0].Type), x, 0)
		}
	case *ast.FuncLit:
		par := h.m.Parent(p, x)
		switch pp := par.(type) {
		case *ast.CallExpr:
			// argument of a synchronous higher-order call that is not started with `go`
			if syncHigherOrder(h.m, p.TypesInfo, pp) {
				if _, isGo := h.m.Parent(p, pp).(*ast.GoStmt); !isGo {
					e = h.heldAt(p, pp)
				}
			} else if _, isGo := h.m.Parent(p, pp).(*ast.GoStmt); !isGo {
				// argument of a lock wrapper of the repository (`withLock(func() { ... })`): the literal runs with
				// what the wrapper holds where it calls its parameter, on top of what the call site holds
				if extra, ok := h.wrapperHolds(p, pp, x); ok {
					e = h.heldAt(p, pp).Clone()
					for k := range extra {
						e[k] = true
					}
				}
			}
		case *ast.AssignStmt, *ast.ValueSpec:
			var holder types.Object
			if as, ok := pp.(*ast.AssignStmt); ok {
				for i, r := range as.Rhs {
					if ast.Unparen(r) == ast.Expr(x) && i < len(as.Lhs) {
						if id, ok := as.Lhs[i].(*ast.Ident); ok {
							holder = objOf(p.TypesInfo, id)
						}
					}
				}
			} else if vs, ok := pp.(*ast.ValueSpec); ok {
				for i, r := range vs.Values {
					if ast.Unparen(r) == ast.Expr(x) && i < len(vs.Names) {
						holder = p.TypesInfo.Defs[vs.Names[i]]
					}
				}
			}
			if holder != nil && h.valueUses[holder] == 0 && len(h.calls[holder]) > 0 {
				var common lockset.Set
				for _, cr := range h.calls[holder] {
					held := h.heldAt(cr.pkg, cr.call)
					if common == nil {
						common = held.Clone()
					} else {
						for k := range common {
							if !held[k] {
								delete(common, k)
							}
						}
					}
				}
				if common != nil {
					e = common
				}
			}
		}
	}
	h.entry[fn] = e
	return e
}

func (h *heldDB) resultOf(p *packages.Package, fn ast.Node) *lockset.Result {
	if r := h.results[fn]; r != nil {
		return r
	}
	r := lockset.Analyze(p.TypesInfo, fn, funcBody(fn), h.entryOf(p, fn))
	h.results[fn] = r
	return r
}

// heldAt returns the locks that must be held when n executes (keys are object based).
func (h *heldDB) heldAt(p *packages.Package, n ast.Node) lockset.Set {
	fn := innermostFunc(h.m, p, n)
	if fn == nil {
		return lockset.Set{}
	}
	if fn == n {
		// the function node itself: locks at its creation point are irrelevant
		return lockset.Set{}
	}
	res := h.resultOf(p, fn)
	// a deferred call runs at function exit, not where the defer statement stands
	for cn := n; cn != nil && cn != fn; cn = h.m.Parent(p, cn) {
		if d, ok := h.m.Parent(p, cn).(*ast.DeferStmt); ok && ast.Node(d.Call) == cn {
			return res.HeldByDeferred(d)
		}
	}
	s, ok := res.At(n)
	if !ok {
		return h.entryOf(p, fn).Clone()
	}
	return s
}

// heldNorm is heldAt with receiver-rooted keys normalised to recv.* for the enclosing method.
func (h *heldDB) heldNorm(p *packages.Package, n ast.Node) lockset.Set {
	s := h.heldAt(p, n)
	chain := h.m.EnclosingFuncs(p, n)
	if fd := topDecl(chain); fd != nil {
		return normSet(s, recvObj(p.TypesInfo, fd))
	}
	return s
}

// lockResult analyses one function node with an empty entry set.
func lockResult(p *packages.Package, fn ast.Node) *lockset.Result {
	return lockset.Analyze(p.TypesInfo, fn, funcBody(fn), nil)
}

func lockShort(k string) string { return lockset.Short(k) }

// wrapperHolds: lit is an argument of call, whose callee is a local closure or a function / method of the repository
// that does nothing with the corresponding parameter but call it, synchronously. Returns the locks the callee holds at
// every such call, expressed in the caller's naming.
func (h *heldDB) wrapperHolds(p *packages.Package, call *ast.CallExpr, lit *ast.FuncLit) (lockset.Set, bool) {
	info := p.TypesInfo
	idx := -1
	for i, a := range call.Args {
		if ast.Unparen(a) == ast.Expr(lit) {
			idx = i
		}
	}
	if idx < 0 {
		return nil, false
	}
	// the wrapper: its function node, its package, its parameter list
	var wfn ast.Node
	var wtype *ast.FuncType
	wp := p
	var wrecv *types.Var
	if cl := model.Callee(info, call); cl != nil {
		if d := h.m.Decls[cl]; d != nil && d.Decl != nil && d.Decl.Body != nil {
			wfn, wtype, wp = d.Decl, d.Decl.Type, d.Pkg
			wrecv = recvObj(d.Pkg.TypesInfo, d.Decl)
		}
	} else if id, ok := ast.Unparen(call.Fun).(*ast.Ident); ok {
		if o := objOf(info, id); o != nil {
			defs := h.m.Defs[o]
			if len(defs) == 1 && defs[0].Expr != nil {
				if l, ok := ast.Unparen(defs[0].Expr).(*ast.FuncLit); ok {
					wfn, wtype = l, l.Type
				}
			}
		}
	}
	if wfn == nil || wtype.Params == nil {
		return nil, false
	}
	params := model.FlattenParams(wp.TypesInfo, wtype.Params)
	if idx >= len(params) || params[idx] == nil {
		return nil, false
	}
	param := params[idx]
	if _, isSig := param.Type().Underlying().(*types.Signature); !isSig {
		return nil, false
	}
	// every use of the parameter is a direct, synchronous call in the wrapper's own body
	var common lockset.Set
	ok := true
	calls := 0
	body := funcBody(wfn)
	ast.Inspect(body, func(n ast.Node) bool {
		id, isID := n.(*ast.Ident)
		if !isID || wp.TypesInfo.Uses[id] != types.Object(param) {
			return true
		}
		c2, isCall := h.m.Parent(wp, id).(*ast.CallExpr)
		if !isCall || ast.Unparen(c2.Fun) != ast.Expr(id) || innermostFunc(h.m, wp, c2) != wfn {
			ok = false
			return true
		}
		if _, isGo := h.m.Parent(wp, c2).(*ast.GoStmt); isGo {
			ok = false
			return true
		}
		if _, isDefer := h.m.Parent(wp, c2).(*ast.DeferStmt); isDefer {
			ok = false
			return true
		}
		calls++
		held := h.heldAt(wp, c2)
		if common == nil {
			common = held.Clone()
		} else {
			for k := range common {
				if !held[k] {
					delete(common, k)
				}
			}
		}
		return true
	})
	if !ok || calls == 0 || common == nil {
		return nil, false
	}
	// receiver-rooted keys of a method wrapper are renamed to the receiver the caller calls it on
	out := lockset.Set{}
	var callerRecv *types.Var
	if wrecv != nil {
		if sel, isSel := ast.Unparen(call.Fun).(*ast.SelectorExpr); isSel {
			if id, isID := ast.Unparen(sel.X).(*ast.Ident); isID {
				callerRecv, _ = objOf(info, id).(*types.Var)
			}
		}
	}
	for k := range common {
		nk := normKey(k, wrecv)
		if strings.HasPrefix(nk, "recv") && wrecv != nil {
			if callerRecv == nil {
				continue
			}
			nk = fmt.Sprintf("%s@%d%s", callerRecv.Name(), callerRecv.Pos(), nk[len("recv"):])
		}
		out[nk] = true
	}
	return out, true
}

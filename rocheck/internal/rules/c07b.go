package rules

import (
	"fmt"
	"go/ast"

	"rocheck/internal/check"
	"rocheck/internal/model"
)

// ERROR-BEFORE-RELEASE: the failure is delivered before anything that can panic on the way.
func ruleErrorBeforeRelease() check.Rule {
	return check.Rule{
		Name:        "ERROR-BEFORE-RELEASE",
		NeedControl: true,
		Doc:         "in a callback of an operator that both sends an Error notification to the destination and unsubscribes a subscription (a composite, an upstream), the Error is sent first on every path: Unsubscribe runs the teardowns of the sources it releases and re-raises their panics, so a teardown that panics unwinds the callback before the Error is sent, and the failure of the source reaches only the unhandled-error hook — the subscriber never terminates",
		Run: func(c *check.Ctx) {
			m := c.M
			n := 0
			for _, sc := range m.SCs {
				armed := c.Armed(sc)
				for _, e := range sc.Emits {
					if !e.ToDest || e.Kind != model.EmitError || e.Forwarder || e.Deferred || e.Ctx == nil || e.Ctx.Kind != model.KSrc {
						continue
					}
					fn := innermostFunc(m, e.Pkg, e.Node)
					body := funcBody(fn)
					if body == nil {
						continue
					}
					for _, op := range sc.SubOps {
						if op.Method != "Unsubscribe" || op.Call == nil || op.InDefer || innermostFunc(m, op.Pkg, op.Call) != fn {
							continue
						}
						n++
						key := fmt.Sprintf("%s/error-before-unsubscribe@L%d", e.Key, m.Prog.Fset.Position(op.Call.Pos()).Line-m.Prog.Fset.Position(e.Pos).Line)
						if reachableAfter(body, op.Call, e.Node) {
							c.Report(armed, key, op.Call.Pos(), "Unsubscribe is called before the Error notification at %s is sent: a teardown that panics during this Unsubscribe unwinds the callback and the Error is never delivered", m.Prog.Rel(e.Pos))
						} else if armed {
							c.OK(key, e.Pos, "the Error is sent before the subscription is released")
						}
					}
				}
			}
			c.Inc("error_release_pairs", n)
		},
	}
}

var _ = ast.Inspect

const controlsErrorBeforeRelease = `
func verifControlReleaseBeforeError[T any]() func(Observable[T]) Observable[T] {
	return func(source Observable[T]) Observable[T] {
		return NewUnsafeObservableWithContext(func(subscriberCtx context.Context, destination Observer[T]) Teardown {
			subscriptions := NewSubscription(nil)
			subscriptions.AddUnsubscribable(source.SubscribeWithContext(subscriberCtx, NewObserverWithContext(
				destination.NextWithContext,
				func(ctx context.Context, err error) {
					subscriptions.Unsubscribe()
					destination.ErrorWithContext(ctx, err)
				},
				destination.CompleteWithContext,
			)))
			return subscriptions.Unsubscribe
		})
	}
}
`

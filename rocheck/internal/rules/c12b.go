package rules

import (
	"fmt"
	"go/ast"
	"go/token"
	"go/types"
	"strings"

	"golang.org/x/tools/go/packages"

	"rocheck/internal/check"
	"rocheck/internal/load"
	"rocheck/internal/model"
)

// outsideSubscribeClosure: the call node is not lexically inside any subscribe closure (it runs when the operator
// value is built or applied, not per subscription).
func outsideSubscribeClosure(m *model.Model, p *packages.Package, n ast.Node, scs map[*ast.FuncLit]*model.SC) bool {
	for _, f := range m.EnclosingFuncs(p, n) {
		if l, ok := f.(*ast.FuncLit); ok && scs[l] != nil {
			return false
		}
	}
	return true
}

// STATEFUL-CLOSURE-FACTORY + CAPTURED-CLOCK
func ruleBuildTimeState() check.Rule {
	return check.Rule{
		Name: "BUILD-TIME-STATE",
		Doc:  "two ways of sharing one piece of state between all subscriptions without a visible write to an outer variable: (a) a helper that returns a function literal which mutates a variable of the helper (assignment, ++, element store, or a pointer-receiver method called for its effect on it) is a stateful-closure factory; every call path from an exported function to such a factory goes through a subscribe closure, so that each subscription gets its own closure; (b) a clock or random reading (time.Now, xtime.Now*, rand) whose result is used inside a subscribe closure is taken inside that closure, not when the operator is built or applied",
		Run: func(c *check.Ctx) {
			m := c.M
			scs := scLits(m)
			for _, p := range m.Pkgs {
				armed := c.ArmedPkg(p.PkgPath)
				info := p.TypesInfo
				// (a) factories
				factories := map[*types.Func]string{} // func -> mutated variable
				decls := map[*types.Func]*ast.FuncDecl{}
				for _, f := range p.Syntax {
					for _, d := range f.Decls {
						fd, ok := d.(*ast.FuncDecl)
						if !ok || fd.Body == nil {
							continue
						}
						fo, _ := info.Defs[fd.Name].(*types.Func)
						if fo == nil {
							continue
						}
						decls[fo] = fd
						if isOperatorLike(m, info, fd) {
							continue // operator constructors are handled by STATE-LEVEL
						}
						// returned literals
						ast.Inspect(fd.Body, func(x ast.Node) bool {
							if _, isLit := x.(*ast.FuncLit); isLit {
								return false // the returns of a nested literal are not the helper's (its own returned literals are handled below)
							}
							ret, ok := x.(*ast.ReturnStmt)
							if !ok {
								return true
							}
							for _, r := range ret.Results {
								lit, ok := ast.Unparen(r).(*ast.FuncLit)
								if !ok {
									continue
								}
								// a helper that hands back a subscribe function is not a stateful-closure factory: what the
								// returned function declares is per subscription (the subscribe-closure model covers it)
								if scs[lit] != nil {
									continue
								}
								local := func(e ast.Expr) *types.Var {
									id, _ := rootIdent(e)
									if id == nil {
										return nil
									}
									v, ok := objOf(info, id).(*types.Var)
									if !ok || v.IsField() {
										return nil
									}
									if fd.Body.Pos() <= v.Pos() && v.Pos() <= fd.Body.End() && !(lit.Pos() <= v.Pos() && v.Pos() <= lit.End()) {
										return v
									}
									return nil
								}
								ast.Inspect(lit.Body, func(y ast.Node) bool {
									switch z := y.(type) {
									case *ast.AssignStmt:
										if z.Tok != token.DEFINE {
											for _, l := range z.Lhs {
												if v := local(l); v != nil {
													factories[fo] = v.Name()
												}
											}
										}
									case *ast.IncDecStmt:
										if v := local(z.X); v != nil {
											factories[fo] = v.Name()
										}
									case *ast.ExprStmt:
										if call, ok := z.X.(*ast.CallExpr); ok {
											if sel, ok := ast.Unparen(call.Fun).(*ast.SelectorExpr); ok {
												if v := local(sel.X); v != nil && !isSyncSafeType(v.Type()) {
													if fn, ok := info.Uses[sel.Sel].(*types.Func); ok {
														if sig, ok := fn.Type().(*types.Signature); ok && sig.Recv() != nil {
															if _, isPtr := sig.Recv().Type().(*types.Pointer); isPtr {
																factories[fo] = v.Name()
															}
														}
													}
												}
											}
										}
									}
									return true
								})
							}
							return true
						})
					}
				}
				// call sites: is there a path from an exported function to the factory that avoids every subscribe closure?
				callers := map[*types.Func][]*ast.CallExpr{}
				for _, f := range p.Syntax {
					ast.Inspect(f, func(x ast.Node) bool {
						if call, ok := x.(*ast.CallExpr); ok {
							if cl := model.Callee(info, call); cl != nil && decls[cl] != nil {
								callers[cl] = append(callers[cl], call)
							}
						}
						return true
					})
				}
				var reachedAtBuildTime func(fo *types.Func, seen map[*types.Func]bool) (bool, token.Pos)
				reachedAtBuildTime = func(fo *types.Func, seen map[*types.Func]bool) (bool, token.Pos) {
					if seen[fo] {
						return false, token.NoPos
					}
					seen[fo] = true
					for _, call := range callers[fo] {
						if !outsideSubscribeClosure(m, p, call, scs) {
							continue
						}
						top := topDecl(m.EnclosingFuncs(p, call))
						if top == nil {
							continue
						}
						if top.Name.IsExported() && top.Recv == nil {
							return true, call.Pos()
						}
						if to, _ := info.Defs[top.Name].(*types.Func); to != nil {
							if ok, pos := reachedAtBuildTime(to, seen); ok {
								_ = pos
								return true, call.Pos()
							}
						}
					}
					return false, token.NoPos
				}
				for fo, v := range factories {
					c.Inc("closure_factories", 1)
					key := fmt.Sprintf("%s.%s/stateful-closure-%s", model.ShortPkg(p.PkgPath), fo.Name(), v)
					if ok, pos := reachedAtBuildTime(fo, map[*types.Func]bool{}); ok {
						c.Report(armed, key, pos, "%s returns a closure that mutates its variable %s, and it is called while the operator is built or applied (outside every subscribe closure): all subscriptions of the operator share that closure and its state", fo.Name(), v)
					} else if armed {
						c.OK(key, decls[fo].Pos(), "the stateful closure is created inside subscribe closures only")
					}
				}
				// (b) clock / random readings taken at build time and used per subscription
				for _, fn := range funcNodes(p) {
					body := funcBody(fn)
					if body == nil {
						continue
					}
					if l, ok := fn.(*ast.FuncLit); ok && scs[l] != nil {
						continue
					}
					if !outsideSubscribeClosure(m, p, body, scs) {
						continue
					}
					for _, st := range body.List {
						as, ok := st.(*ast.AssignStmt)
						if !ok || len(as.Rhs) != 1 || len(as.Lhs) != 1 {
							continue
						}
						call, ok := ast.Unparen(as.Rhs[0]).(*ast.CallExpr)
						if !ok {
							continue
						}
						cl := model.Callee(info, call)
						if cl == nil || cl.Pkg() == nil {
							continue
						}
						pp := cl.Pkg().Path()
						impure := (pp == "time" && (cl.Name() == "Now" || cl.Name() == "Since")) || (strings.HasSuffix(pp, "/internal/xtime") && strings.HasPrefix(cl.Name(), "Now")) ||
							pp == "math/rand" || strings.HasSuffix(pp, "/internal/xrand")
						if !impure {
							continue
						}
						id, ok := as.Lhs[0].(*ast.Ident)
						if !ok {
							continue
						}
						v := objOf(info, id)
						// used inside a subscribe closure nested in this function?
						used := false
						ast.Inspect(body, func(x ast.Node) bool {
							if l, ok := x.(*ast.FuncLit); ok && scs[l] != nil {
								ast.Inspect(l.Body, func(y ast.Node) bool {
									if uid, ok := y.(*ast.Ident); ok && objOf(info, uid) == v {
										used = true
									}
									return !used
								})
							}
							return !used
						})
						if !used {
							continue
						}
						c.Inc("build_time_readings", 1)
						chain := m.EnclosingFuncs(p, as)
						c.Report(armed, chainKey(m, p, chain, scs)+"/build-time-"+id.Name, as.Pos(), "%s.%s() is read when the operator is built or applied and the value is used by every subscription: an observable subscribed later, or twice, measures from the wrong instant (or shares one random draw)", pp[strings.LastIndex(pp, "/")+1:], cl.Name())
					}
				}
			}
		},
	}
}

// isOperatorLike: an exported function (operators and constructors: their own state is checked by STATE-LEVEL).
func isOperatorLike(m *model.Model, info *types.Info, fd *ast.FuncDecl) bool {
	return fd.Name.IsExported() && fd.Recv == nil
}

// HEAD-TAIL-DISJOINT: a variadic list split into a head and a tail is split without overlap.
func ruleHeadTailDisjoint() check.Rule {
	return check.Rule{
		Name:        "HEAD-TAIL-DISJOINT",
		NeedControl: true,
		Doc:         "when one call expression hands a slice parameter on both element-wise (`xs[i]`, constant i) and spread (`xs[k:]...`, constant k, 0 when absent) — the curried `OpWith(xs[1:]...)(xs[0])` delegation of the variadic creation operators — the two parts are disjoint (i < k): otherwise the element is handed on twice, i.e. an observable of the list is subscribed twice per subscription of the result (its side effects run twice, a hot first source is raced against itself)",
		Run: func(c *check.Ctx) {
			m := c.M
			n := 0
			for _, p := range m.Pkgs {
				armed := c.ArmedPkg(p.PkgPath)
				info := p.TypesInfo
				for _, f := range p.Syntax {
					for _, d := range f.Decls {
						fd, ok := d.(*ast.FuncDecl)
						if !ok || fd.Body == nil {
							continue
						}
						ast.Inspect(fd.Body, func(x ast.Node) bool {
							outer, ok := x.(*ast.CallExpr)
							if !ok {
								return true
							}
							// only outermost call expressions: a curried call f(a...)(b) is one expression
							if par, ok := m.Parent(p, outer).(*ast.CallExpr); ok && ast.Unparen(par.Fun) == ast.Expr(outer) {
								return true
							}
							type part struct {
								obj types.Object
								k   int64
								pos token.Pos
							}
							var spreads, elems []part
							var collect func(call *ast.CallExpr)
							collect = func(call *ast.CallExpr) {
								if inner, ok := ast.Unparen(call.Fun).(*ast.CallExpr); ok {
									collect(inner)
								}
								for i, a := range call.Args {
									a = ast.Unparen(a)
									if call.Ellipsis != token.NoPos && i == len(call.Args)-1 {
										switch y := a.(type) {
										case *ast.Ident:
											spreads = append(spreads, part{objOf(info, y), 0, y.Pos()})
										case *ast.SliceExpr:
											if id, ok := ast.Unparen(y.X).(*ast.Ident); ok && y.High == nil {
												k := int64(0)
												if y.Low != nil {
													v, isConst := constVal(info, y.Low)
													if !isConst {
														continue
													}
													k = v
												}
												spreads = append(spreads, part{objOf(info, id), k, y.Pos()})
											}
										}
										continue
									}
									if ix, ok := a.(*ast.IndexExpr); ok {
										if id, ok := ast.Unparen(ix.X).(*ast.Ident); ok {
											if v, isConst := constVal(info, ix.Index); isConst {
												if _, isSlice := info.TypeOf(ix.X).Underlying().(*types.Slice); isSlice {
													elems = append(elems, part{objOf(info, id), v, ix.Pos()})
												}
											}
										}
									}
								}
							}
							collect(outer)
							for _, e := range elems {
								for _, s := range spreads {
									if e.obj == nil || e.obj != s.obj {
										continue
									}
									n++
									key := fmt.Sprintf("%s.%s/head-tail-%s", model.ShortPkg(p.PkgPath), model.DeclName(fd), e.obj.Name())
									if e.k < s.k {
										if armed {
											c.OK(key, e.pos, fmt.Sprintf("%s[%d] and %s[%d:]... do not overlap", e.obj.Name(), e.k, e.obj.Name(), s.k))
										}
									} else {
										c.Report(armed, key, e.pos, "%s[%d] is handed on separately and again inside %s[%d:]...: that element is used twice (an observable of the list is subscribed twice per subscription)", e.obj.Name(), e.k, e.obj.Name(), s.k)
									}
								}
							}
							return true
						})
					}
				}
			}
			c.Inc("head_tail_splits", n)
		},
	}
}

const controlsHeadTail = `
func verifControlHeadTail[T any](sources ...Observable[T]) Observable[T] {
	return MergeWith(sources...)(sources[0])
}
`

// NO-HOT-IN-COLD: a cold operator does not build a hot observable when it is built or applied.
func ruleNoHotInCold() check.Rule {
	return check.Rule{
		Name:        "NO-HOT-IN-COLD",
		NeedControl: true,
		Doc:         "outside its subscribe closures, an operator that is not hot by definition (the Share family, the subject and connectable constructors) does not construct a hot observable — no call of Share*, NewConnectableObservable*, New*Subject, directly or through the repository helpers it calls: whatever is built there exists once per operator value, so every subscription of the pipeline joins the one running execution (a ticker started by the first subscriber gives the second its first tick early) instead of getting its own",
		Run: func(c *check.Ctx) {
			m := c.M
			scs := scLits(m)
			n := 0
			for _, p := range m.Pkgs {
				armed := c.ArmedPkg(p.PkgPath)
				info := p.TypesInfo
				for _, f := range p.Syntax {
					fname := c.Prog.Fset.Position(f.Pos()).Filename
					if strings.HasSuffix(fname, "_test.go") {
						continue
					}
					for _, d := range f.Decls {
						fd, ok := d.(*ast.FuncDecl)
						if !ok || fd.Body == nil || fd.Recv != nil {
							continue
						}
						declKey := model.ShortPkg(p.PkgPath) + "." + fd.Name.Name
						if _, hot := hotByDefinition[declKey]; hot || isHotCtorName(fd.Name.Name) {
							continue
						}
						// only functions that build observables / operators
						if !isOperatorLike(m, info, fd) && !check.IsControlName(fd.Name.Name) {
							continue
						}
						n++
						var at token.Pos
						var what string
						ast.Inspect(fd.Body, func(x ast.Node) bool {
							if l, ok := x.(*ast.FuncLit); ok && scs[l] != nil {
								return false // per subscription
							}
							call, ok := x.(*ast.CallExpr)
							if !ok || at != token.NoPos {
								return true
							}
							hotPred := func(q *packages.Package, c2 *ast.CallExpr) bool {
								cl := model.Callee(q.TypesInfo, c2)
								if cl == nil || cl.Pkg() == nil || cl.Pkg().Path() != ro || !isHotCtorName(cl.Name()) {
									return false
								}
								// inside a subscribe closure of the helper it is per subscription again
								for _, fn := range m.EnclosingFuncs(q, c2) {
									if l, ok := fn.(*ast.FuncLit); ok && scs[l] != nil {
										return false
									}
								}
								what = cl.Name()
								return true
							}
							if hotPred(p, call) {
								at = call.Pos()
								return false
							}
							for _, b := range calleeBodies(m, p, call) {
								if findCallTransitive(m, b.Pkg, b.Body, hotPred, 2) != token.NoPos {
									at = call.Pos()
									return false
								}
							}
							return true
						})
						key := declKey + "/no-hot-in-cold"
						if at != token.NoPos {
							c.Report(armed, key, at, "%s builds a hot observable (%s) outside its subscribe closures: it exists once per operator value and every subscription joins the same running execution", fd.Name.Name, what)
						} else if armed {
							c.OK(key, fd.Pos(), "no hot observable is built outside the subscribe closures")
						}
					}
				}
			}
			c.Inc("cold_operator_functions", n)
		},
	}
}

func isHotCtorName(n string) bool {
	return strings.HasPrefix(n, "Share") || strings.HasPrefix(n, "NewConnectableObservable") || strings.HasPrefix(n, "Connectable") || (strings.HasPrefix(n, "New") && strings.HasSuffix(n, "Subject")) || n == "Publish" || n == "Multicast"
}

const controlsNoHotInCold = `
func verifControlHiddenShare[T any](d time.Duration) func(Observable[T]) Observable[[]T] {
	return BufferWhen[T](Pipe1(Interval(d), Share[int64]()))
}
`

// MUTABLE-SEED: a seed handed to an operator when the pipeline is built is not a mutable value its callback mutates.
func ruleMutableSeed() check.Rule {
	return check.Rule{
		Name:        "MUTABLE-SEED",
		NeedControl: true,
		Doc:         "outside the subscribe closures (when the operator is built or applied), no call hands an operator both a freshly created map / slice / pointer value (composite literal, make, new, &T{}) and a callback literal that stores through its parameter of that same type (`acc[k] = v`, `*acc = …`, `acc.f = …`, delete(acc, k)): the value is created once per operator value, every subscription folds into the same one, and the result already delivered to an earlier subscriber is mutated by the next (ToMap rewritten as Reduce(…, map[K]V{}))",
		Run: func(c *check.Ctx) {
			m := c.M
			scs := scLits(m)
			n := 0
			for _, p := range m.Pkgs {
				armed := c.ArmedPkg(p.PkgPath)
				info := p.TypesInfo
				for _, f := range p.Syntax {
					if strings.HasSuffix(c.Prog.Fset.Position(f.Pos()).Filename, "_test.go") {
						continue
					}
					ast.Inspect(f, func(x ast.Node) bool {
						if l, ok := x.(*ast.FuncLit); ok && scs[l] != nil {
							return false // per subscription
						}
						call, ok := x.(*ast.CallExpr)
						if !ok || len(call.Args) < 2 {
							return true
						}
						// fresh mutable arguments
						var seeds []ast.Expr
						for _, a := range call.Args {
							if isFreshMutable(info, a) {
								seeds = append(seeds, a)
							}
						}
						if len(seeds) == 0 {
							return true
						}
						for _, a := range call.Args {
							lit, ok := ast.Unparen(a).(*ast.FuncLit)
							if !ok || lit.Type.Params == nil {
								continue
							}
							for _, prm := range model.FlattenParams(info, lit.Type.Params) {
								if prm == nil {
									continue
								}
								matches := false
								for _, sd := range seeds {
									if t := info.TypeOf(sd); t != nil && types.Identical(t, prm.Type()) {
										matches = true
									}
								}
								if !matches || !storesThrough(info, lit.Body, prm) {
									continue
								}
								n++
								fd := topDecl(m.EnclosingFuncs(p, call))
								key := fmt.Sprintf("%s.%s/mutable-seed-%s", model.ShortPkg(p.PkgPath), model.DeclName(fd), prm.Name())
								c.Report(armed, key, call.Pos(), "the %s created here once, when the operator is built, is handed to a callback that stores through its parameter %s: every subscription folds into the same value, and what an earlier subscriber received is mutated by the next", info.TypeOf(seeds[0]).String(), prm.Name())
							}
						}
						return true
					})
				}
			}
			c.Inc("mutable_seed_sites", n)
		},
	}
}

func isFreshMutable(info *types.Info, e ast.Expr) bool {
	t := info.TypeOf(e)
	if t == nil {
		return false
	}
	switch t.Underlying().(type) {
	case *types.Map, *types.Slice, *types.Pointer:
	default:
		return false
	}
	switch x := ast.Unparen(e).(type) {
	case *ast.CompositeLit:
		return true
	case *ast.UnaryExpr:
		if x.Op == token.AND {
			_, ok := ast.Unparen(x.X).(*ast.CompositeLit)
			return ok
		}
	case *ast.CallExpr:
		if id, ok := ast.Unparen(x.Fun).(*ast.Ident); ok && (id.Name == "make" || id.Name == "new") {
			_, isBuiltin := info.Uses[id].(*types.Builtin)
			return isBuiltin
		}
	}
	return false
}

// storesThrough: body contains a store through parameter v (index, field, dereference) or delete(v, …).
func storesThrough(info *types.Info, body ast.Node, v *types.Var) bool {
	found := false
	ast.Inspect(body, func(x ast.Node) bool {
		switch y := x.(type) {
		case *ast.AssignStmt:
			for _, l := range y.Lhs {
				if _, plain := ast.Unparen(l).(*ast.Ident); plain {
					continue
				}
				if id, _ := rootIdent(l); id != nil && objOf(info, id) == types.Object(v) {
					found = true
				}
			}
		case *ast.IncDecStmt:
			if _, plain := ast.Unparen(y.X).(*ast.Ident); !plain {
				if id, _ := rootIdent(y.X); id != nil && objOf(info, id) == types.Object(v) {
					found = true
				}
			}
		case *ast.CallExpr:
			if id, ok := ast.Unparen(y.Fun).(*ast.Ident); ok && id.Name == "delete" && len(y.Args) > 0 {
				if aid, _ := rootIdent(y.Args[0]); aid != nil && objOf(info, aid) == types.Object(v) {
					found = true
				}
			}
		}
		return !found
	})
	return found
}

const controlsMutableSeed = `
func verifControlSharedSeed[T any, K comparable](key func(T) K) func(Observable[T]) Observable[map[K]T] {
	return Reduce(
		func(acc map[K]T, item T) map[K]T {
			acc[key(item)] = item
			return acc
		},
		map[K]T{},
	)
}
`

// APPLY-AT-BUILD-TIME: operators are applied when the pipeline is built, not when it is subscribed.
func ruleApplyAtBuildTime() check.Rule {
	return check.Rule{
		Name:        "APPLY-AT-BUILD-TIME",
		NeedControl: true,
		Doc:         "inside a subscribe closure no operator value that comes from outside it (a parameter, or a variable assigned from parameters: a func(Observable[A]) Observable[B]) is applied to an observable: the application would be repeated for every subscription, so whatever state the operator keeps per application — the subject and reference count of Share, a connectable — is created per subscriber and nothing is shared: two subscribers of an instrumented pipeline that contains Share subscribe the source twice, which the same pipeline without the instrumentation does not",
		Run: func(c *check.Ctx) {
			m := c.M
			n := 0
			for _, sc := range m.SCs {
				if !c.Armed(sc) && !check.IsControlName(sc.Name) {
					continue
				}
				info := sc.Pkg.TypesInfo
				k := 0
				ast.Inspect(sc.Lit.Body, func(x ast.Node) bool {
					call, ok := x.(*ast.CallExpr)
					if !ok || len(call.Args) != 1 {
						return true
					}
					id, ok := ast.Unparen(call.Fun).(*ast.Ident)
					if !ok {
						return true
					}
					v, ok := objOf(info, id).(*types.Var)
					if !ok {
						return true
					}
					sig, ok := v.Type().Underlying().(*types.Signature)
					if !ok || !isOperatorSig(m, sig) {
						return true
					}
					if an := load.NamedOf(info.TypeOf(call.Args[0])); an == nil || an.Obj().Name() != "Observable" {
						return true // a selector of the error (Catch), not an operator applied to an observable
					}
					// the operator value originates outside the subscribe closure: a parameter of an enclosing function, or a
					// local of the closure every definition of which is such a parameter or a call on such parameters
					outside := isParamVar(m, v) && !(v.Pos() >= sc.Lit.Pos() && v.Pos() < sc.Lit.End())
					if !outside && v.Pos() >= sc.Lit.Pos() && v.Pos() < sc.Lit.End() {
						defs := m.Defs[v]
						outside = len(defs) > 0
						for _, d := range defs {
							if d.Expr == nil {
								outside = false
								continue
							}
							fromParam := false
							ast.Inspect(d.Expr, func(z ast.Node) bool {
								if pid, ok := z.(*ast.Ident); ok {
									if pv, ok := objOf(info, pid).(*types.Var); ok && isParamVar(m, pv) && !(pv.Pos() >= sc.Lit.Pos() && pv.Pos() < sc.Lit.End()) {
										if _, isSig := pv.Type().Underlying().(*types.Signature); isSig {
											fromParam = true
										}
									}
								}
								return !fromParam
							})
							if !fromParam {
								outside = false
							}
						}
					}
					if !outside {
						return true
					}
					n++
					k++
					c.Report(c.Armed(sc), fmt.Sprintf("%s/applies-operator#%d", sc, k), call.Pos(), "the operator %s is applied inside the subscribe function: every subscription builds its own copy of the chain, so an operator that keeps state per application (Share, ShareReplay, a connectable) shares nothing between the subscribers of this observable", id.Name)
					return true
				})
			}
			c.Inc("operator_applications_in_subscribe", n)
		},
	}
}

const controlsApplyAtBuild = `
func verifControlApplyInSubscribe[T any](source Observable[T], op func(Observable[T]) Observable[T]) Observable[T] {
	return NewUnsafeObservableWithContext(func(subscriberCtx context.Context, destination Observer[T]) Teardown {
		sub := op(source).SubscribeWithContext(subscriberCtx, destination)
		return sub.Unsubscribe
	})
}
`

package rules

import (
	"fmt"
	"go/ast"
	"go/token"
	"go/types"
	"strings"

	"golang.org/x/tools/go/packages"

	"rocheck/internal/check"
	"rocheck/internal/load"
	"rocheck/internal/lockset"
	"rocheck/internal/model"
)

// UNSUB-FLIPS-FIRST
func ruleUnsubFlipsFirst() check.Rule {
	return check.Rule{
		Name: "UNSUB-FLIPS-FIRST",
		Doc:  "in subscriberImpl.Unsubscribe the finalizers run only after (and only if) the compare-and-swap moved the status away from open, so a Next that starts after Unsubscribe returned sees a closed subscriber (with GATE of C01)",
		Run: func(c *check.Ctx) {
			m := c.M
			p := m.Obj.Ro
			info := p.TypesInfo
			fd := load.FuncDeclOf(p, "subscriberImpl.Unsubscribe")
			key := "ro.subscriberImpl.Unsubscribe/cas-before-finalizers"
			if fd == nil || fd.Body == nil {
				c.Undecided(key, p.Syntax[0].Pos(), "anchor not found")
				return
			}
			rv := recvObj(info, fd)
			n := 0
			ast.Inspect(fd.Body, func(x ast.Node) bool {
				call, ok := x.(*ast.CallExpr)
				if !ok || !reachesUnsubscribe(m, p, call, rv, 0) {
					return true
				}
				n++
				if guardedBy(fd.Body, call, atomCASWon(info)) {
					c.OK(key, call.Pos(), "finalizers run only on the winning side of CompareAndSwap(&status, 0, k)")
				} else {
					c.Violation(key, call.Pos(), "the finalizers can run before/without the status word being closed: a Next issued after Unsubscribe returned can still be delivered")
				}
				return true
			})
			if n == 0 {
				c.Violation(key, fd.Pos(), "Unsubscribe never runs the subscription's finalizers")
			}
		},
	}
}

// locksTakenBy lists the lock keys (normalised) that a method of typeName may acquire,
// following calls to same-type methods.
func locksTakenBy(m *model.Model, p *packages.Package, typeName string, fd *ast.FuncDecl, seen map[*ast.FuncDecl]bool) lockset.Set {
	out := lockset.Set{}
	if fd == nil || fd.Body == nil || seen[fd] {
		return out
	}
	seen[fd] = true
	info := p.TypesInfo
	rv := recvObj(info, fd)
	ast.Inspect(fd.Body, func(n ast.Node) bool {
		call, ok := n.(*ast.CallExpr)
		if !ok {
			return true
		}
		if key, kind, ok := lockset.LockCall(info, call); ok && (kind == "Lock" || kind == "RLock" || kind == "TryLock") {
			out[normKey(key, rv)] = true
		}
		cl := model.Callee(info, call)
		if cl != nil && model.IsMethod(cl, p.PkgPath, typeName, cl.Name()) {
			if d := m.Decls[cl]; d != nil {
				for k := range locksTakenBy(m, p, typeName, d.Decl, seen) {
					out[k] = true
				}
			}
		}
		return true
	})
	return out
}

// NO-PRODUCER-LOCK-IN-QUERIES
func ruleNoProducerLockInQueries() check.Rule {
	return check.Rule{
		Name: "NO-PRODUCER-LOCK-IN-QUERIES",
		Doc:  "Unsubscribe, IsClosed, HasThrown and IsCompleted of subscriberImpl never acquire the producer lock (directly or through same-type helpers), so they can be called from inside a callback that runs under it",
		Run: func(c *check.Ctx) {
			m := c.M
			p := m.Obj.Ro
			for _, name := range []string{"Unsubscribe", "IsClosed", "HasThrown", "IsCompleted"} {
				fd := load.FuncDeclOf(p, "subscriberImpl."+name)
				key := "ro.subscriberImpl." + name + "/no-producer-lock"
				if fd == nil {
					c.Undecided(key, p.Syntax[0].Pos(), "anchor not found")
					continue
				}
				c.Inc("query_methods", 1)
				taken := locksTakenBy(m, p, "subscriberImpl", fd, map[*ast.FuncDecl]bool{})
				if taken["recv.mu"] {
					c.Violation(key, fd.Pos(), "%s acquires the producer lock s.mu: calling it from inside an observer callback (which runs under that lock) deadlocks", name)
				} else {
					c.OK(key, fd.Pos(), "does not touch the producer lock (locks taken: %s)", taken)
				}
			}
		},
	}
}

// WAIT-SIGNAL
func ruleWaitSignal() check.Rule {
	return check.Rule{
		Name: "WAIT-SIGNAL",
		Doc:  "subscriptionImpl.Wait blocks only on a channel it created with capacity >= 1, whose only send is inside the teardown it registers with Add (run at once when already closed); IsClosed reads done under the mutex",
		Run: func(c *check.Ctx) {
			m := c.M
			p := m.Obj.Ro
			info := p.TypesInfo
			fd := load.FuncDeclOf(p, "subscriptionImpl.Wait")
			key := "ro.subscriptionImpl.Wait"
			if fd == nil || fd.Body == nil {
				c.Undecided(key, p.Syntax[0].Pos(), "anchor not found")
				return
			}
			rv := recvObj(info, fd)
			var ch types.Object
			capOK := false
			ast.Inspect(fd.Body, func(n ast.Node) bool {
				as, ok := n.(*ast.AssignStmt)
				if !ok || len(as.Lhs) != 1 || len(as.Rhs) != 1 {
					return true
				}
				call, ok := ast.Unparen(as.Rhs[0]).(*ast.CallExpr)
				if !ok {
					return true
				}
				if id, ok := ast.Unparen(call.Fun).(*ast.Ident); ok {
					if b, ok := info.Uses[id].(*types.Builtin); ok && b.Name() == "make" {
						if _, isChan := info.TypeOf(call).Underlying().(*types.Chan); isChan {
							if lid, ok := as.Lhs[0].(*ast.Ident); ok {
								ch = objOf(info, lid)
							}
							if len(call.Args) == 2 {
								if v, ok := constVal(info, call.Args[1]); ok && v >= 1 {
									capOK = true
								}
							}
						}
					}
				}
				return true
			})
			if ch == nil {
				c.Violation(key+"/channel", fd.Pos(), "Wait does not create its own signalling channel")
				return
			}
			if capOK {
				c.OK(key+"/capacity", fd.Pos(), "the signalling channel has capacity >= 1: the send inside the finalizer loop cannot block Unsubscribe")
			} else {
				c.Violation(key+"/capacity", fd.Pos(), "the signalling channel is unbuffered: the finalizer that signals Wait blocks Unsubscribe until Wait receives")
			}
			// the receive that blocks comes before any close of the channel (a receive from a closed channel returns at once)
			var recvPos, closePos token.Pos
			ast.Inspect(fd.Body, func(n ast.Node) bool {
				switch x := n.(type) {
				case *ast.FuncLit:
					return false
				case *ast.UnaryExpr:
					if x.Op == token.ARROW {
						if id, _ := rootIdent(x.X); id != nil && objOf(info, id) == ch && recvPos == token.NoPos {
							recvPos = x.Pos()
						}
					}
				case *ast.CallExpr:
					if id, ok := ast.Unparen(x.Fun).(*ast.Ident); ok && id.Name == "close" && len(x.Args) == 1 {
						if rid, _ := rootIdent(x.Args[0]); rid != nil && objOf(info, rid) == ch && closePos == token.NoPos {
							closePos = x.Pos()
						}
					}
				}
				return true
			})
			switch {
			case recvPos == token.NoPos:
				c.Violation(key+"/blocks", fd.Pos(), "Wait never receives from its signalling channel: it returns without waiting")
			case closePos != token.NoPos && closePos < recvPos:
				c.Violation(key+"/blocks", fd.Pos(), "Wait closes its signalling channel before receiving from it: the receive returns at once and Wait does not wait")
			default:
				c.OK(key+"/blocks", fd.Pos(), "Wait blocks on a receive from its signalling channel")
			}
			// sends: all inside a literal passed to recv.Add
			sends, sendsInAdd := 0, 0
			var addCall *ast.CallExpr
			ast.Inspect(fd.Body, func(n ast.Node) bool {
				s, ok := n.(*ast.SendStmt)
				if !ok {
					return true
				}
				if id, _ := rootIdent(s.Chan); id == nil || objOf(info, id) != ch {
					return true
				}
				sends++
				for cn := ast.Node(s); cn != nil && cn != ast.Node(fd); cn = m.Parent(p, cn) {
					if lit, ok := cn.(*ast.FuncLit); ok {
						if call, ok := m.Parent(p, lit).(*ast.CallExpr); ok {
							if cl := model.Callee(info, call); cl != nil && cl.Name() == "Add" {
								if sel, ok := ast.Unparen(call.Fun).(*ast.SelectorExpr); ok {
									if id, _ := rootIdent(sel.X); id != nil && objOf(info, id) == rv {
										sendsInAdd++
										addCall = call
									}
								}
							}
						}
					}
				}
				return true
			})
			if sends == 1 && sendsInAdd == 1 {
				c.OK(key+"/signalled-by-teardown", addCall.Pos(), "the only send on the channel is the teardown registered with s.Add")
			} else {
				c.Violation(key+"/signalled-by-teardown", fd.Pos(), "Wait's channel is signalled %d times, %d of them from a teardown registered on the subscription: Wait can return before the subscription is closed, or never", sends, sendsInAdd)
			}
			// the receive follows the Add
			recvOK := false
			ast.Inspect(fd.Body, func(n ast.Node) bool {
				if u, ok := n.(*ast.UnaryExpr); ok && u.Op == token.ARROW {
					if id, _ := rootIdent(u.X); id != nil && objOf(info, id) == ch && addCall != nil && u.Pos() > addCall.End() && innermostFunc(m, p, u) == ast.Node(fd) {
						recvOK = true
					}
				}
				return true
			})
			if recvOK {
				c.OK(key+"/blocks-on-signal", fd.Pos(), "Wait receives from the channel after registering the teardown")
			} else {
				c.Violation(key+"/blocks-on-signal", fd.Pos(), "Wait does not block on its signalling channel after registering the teardown")
			}
			// IsClosed returns done under the mutex
			if ic := load.FuncDeclOf(p, "subscriptionImpl.IsClosed"); ic != nil && ic.Body != nil {
				rv2 := recvObj(info, ic)
				h := newHeldDB(m)
				ok := false
				ast.Inspect(ic.Body, func(n ast.Node) bool {
					if r, isRet := n.(*ast.ReturnStmt); isRet && len(r.Results) == 1 {
						if s := fieldSelOf(info, r.Results[0], rv2); s != nil && s.Sel.Name == "done" && h.heldNorm(p, r)["recv.mu"] {
							ok = true
						}
					}
					return true
				})
				if ok {
					c.OK("ro.subscriptionImpl.IsClosed", ic.Pos(), "returns the done flag, read under the mutex")
				} else {
					c.Violation("ro.subscriptionImpl.IsClosed", ic.Pos(), "IsClosed does not return the done flag read under the mutex")
				}
			} else {
				c.Undecided("ro.subscriptionImpl.IsClosed", fd.Pos(), "anchor not found")
			}
			// subscriberImpl.IsClosed reads the status word
			if ic := load.FuncDeclOf(p, "subscriberImpl.IsClosed"); ic != nil && ic.Body != nil {
				ok := false
				ast.Inspect(ic.Body, func(n ast.Node) bool {
					if r, isRet := n.(*ast.ReturnStmt); isRet && len(r.Results) == 1 {
						if implies(r.Results[0], false, atomStatusOpen(info)) {
							ok = true
						}
					}
					return true
				})
				if ok {
					c.OK("ro.subscriberImpl.IsClosed", ic.Pos(), "returns status != 0")
				} else {
					c.Violation("ro.subscriberImpl.IsClosed", ic.Pos(), "IsClosed does not report status != 0")
				}
			}
		},
	}
}

// COLLECT-WAITS
func ruleCollectWaits() check.Rule {
	return check.Rule{
		Name: "COLLECT-WAITS",
		Doc:  "CollectWithContext subscribes a collecting observer, waits on that subscription before every return, returns the slice its next slot appends to and the error its error slot stores; Collect delegates to it",
		Run: func(c *check.Ctx) {
			m := c.M
			p := m.Obj.Ro
			info := p.TypesInfo
			fd := load.FuncDeclOf(p, "CollectWithContext")
			key := "ro.CollectWithContext"
			if fd == nil || fd.Body == nil {
				c.Undecided(key, p.Syntax[0].Pos(), "anchor not found")
				return
			}
			var subVar types.Object
			var subCall *ast.CallExpr
			var waitCall *ast.CallExpr
			var appendVar, errVar types.Object
			ast.Inspect(fd.Body, func(n ast.Node) bool {
				switch x := n.(type) {
				case *ast.AssignStmt:
					if len(x.Lhs) == 1 && len(x.Rhs) == 1 {
						if call, ok := ast.Unparen(x.Rhs[0]).(*ast.CallExpr); ok {
							if name, isObs := m.Obj.ObservableMethods[model.Callee(info, call)]; isObs && name == "SubscribeWithContext" {
								if id, ok := x.Lhs[0].(*ast.Ident); ok {
									subVar, subCall = objOf(info, id), call
								}
							}
							// values = append(values, value) inside the next slot
							if id, ok := ast.Unparen(call.Fun).(*ast.Ident); ok {
								if b, ok := info.Uses[id].(*types.Builtin); ok && b.Name() == "append" {
									if lid, ok := x.Lhs[0].(*ast.Ident); ok {
										appendVar = objOf(info, lid)
									}
								}
							}
						}
						// err = thrown
						if lid, ok := x.Lhs[0].(*ast.Ident); ok {
							if v, ok := objOf(info, lid).(*types.Var); ok && isErrorType(v.Type()) {
								if _, isIdent := ast.Unparen(x.Rhs[0]).(*ast.Ident); isIdent && innermostFunc(m, p, x) != ast.Node(fd) {
									errVar = v
								}
							}
						}
					}
				case *ast.CallExpr:
					if name, isSub := m.Obj.SubscriptionMethods[model.Callee(info, x)]; isSub && name == "Wait" {
						if sel, ok := ast.Unparen(x.Fun).(*ast.SelectorExpr); ok {
							if id, _ := rootIdent(sel.X); id != nil && subVar != nil && objOf(info, id) == subVar && innermostFunc(m, p, x) == ast.Node(fd) {
								waitCall = x
							}
						}
					}
				}
				return true
			})
			if subCall == nil {
				c.Violation(key+"/subscribes", fd.Pos(), "CollectWithContext does not subscribe to its argument")
				return
			}
			// every return is after the Wait, Wait is an unconditional top-level statement
			okWait := waitCall != nil
			if okWait {
				top := false
				for _, s := range fd.Body.List {
					if es, ok := s.(*ast.ExprStmt); ok && ast.Unparen(es.X) == ast.Expr(waitCall) {
						top = true
					}
				}
				okWait = top
				ast.Inspect(fd.Body, func(n ast.Node) bool {
					if r, ok := n.(*ast.ReturnStmt); ok && innermostFunc(m, p, r) == ast.Node(fd) && r.Pos() < waitCall.Pos() {
						okWait = false
					}
					return true
				})
			}
			if okWait {
				c.OK(key+"/waits", waitCall.Pos(), "Wait on the collecting subscription precedes every return")
			} else {
				c.Violation(key+"/waits", fd.Pos(), "a return of CollectWithContext is not preceded by Wait on the collecting subscription: values can be missing or the call can return early")
			}
			// returned values
			retOK := false
			ast.Inspect(fd.Body, func(n ast.Node) bool {
				if r, ok := n.(*ast.ReturnStmt); ok && innermostFunc(m, p, r) == ast.Node(fd) && len(r.Results) == 3 {
					id0, _ := ast.Unparen(r.Results[0]).(*ast.Ident)
					id2, _ := ast.Unparen(r.Results[2]).(*ast.Ident)
					if id0 != nil && id2 != nil && appendVar != nil && errVar != nil && objOf(info, id0) == appendVar && objOf(info, id2) == errVar {
						retOK = true
					}
				}
				return true
			})
			if retOK {
				c.OK(key+"/returns-collected", fd.Pos(), "returns the slice appended to in the next slot and the error stored in the error slot")
			} else {
				c.Violation(key+"/returns-collected", fd.Pos(), "the returned values/error are not the ones gathered by the collecting observer")
			}
			// Collect delegates
			if cd := load.FuncDeclOf(p, "Collect"); cd != nil && cd.Body != nil {
				ok := false
				ast.Inspect(cd.Body, func(n ast.Node) bool {
					if call, isCall := n.(*ast.CallExpr); isCall && model.IsPkgFunc(model.Callee(info, call), ro, "CollectWithContext") {
						ok = true
					}
					return true
				})
				if ok {
					c.OK("ro.Collect/delegates", cd.Pos(), "delegates to CollectWithContext")
				} else {
					c.Violation("ro.Collect/delegates", cd.Pos(), "Collect does not delegate to CollectWithContext")
				}
			}
			_ = fmt.Sprint
		},
	}
}

// WAIT-IMPLEMENTORS: every concrete Wait method of package ro is subscriptionImpl.Wait (checked by WAIT-SIGNAL) or
// reaches it on every path.
func ruleWaitImplementors() check.Rule {
	return check.Rule{
		Name:        "WAIT-IMPLEMENTORS",
		NeedControl: true,
		Doc:         "every method named Wait (and IsClosed) declared on a type of package ro that implements Subscription is subscriptionImpl's own, or a wrapper all of whose paths pass through the Wait/IsClosed of the Subscription it embeds or holds: a shortcut that returns on another condition (for instance the subscriber's status word, which flips before the terminal callback runs) lets Wait return before the subscription is closed",
		Run: func(c *check.Ctx) {
			m := c.M
			p := m.Obj.Ro
			info := p.TypesInfo
			n := 0
			for _, f := range p.Syntax {
				for _, d := range f.Decls {
					fd, ok := d.(*ast.FuncDecl)
					if !ok || fd.Recv == nil || fd.Body == nil || fd.Name.Name != "Wait" {
						continue
					}
					tname := load.RecvTypeName(fd.Recv.List[0].Type)
					if tname == "subscriptionImpl" {
						continue
					}
					tn, _ := p.Types.Scope().Lookup(tname).(*types.TypeName)
					if tn == nil {
						continue
					}
					sig, _ := info.Defs[fd.Name].Type().(*types.Signature)
					if sig == nil || sig.Params().Len() != 0 || sig.Results().Len() != 0 {
						continue
					}
					n++
					key := "ro." + tname + ".Wait/delegates"
					// a call of Wait on a Subscription-typed value that every path passes
					var deleg *ast.CallExpr
					ast.Inspect(fd.Body, func(x ast.Node) bool {
						call, ok := x.(*ast.CallExpr)
						if !ok {
							return true
						}
						if sel, ok := ast.Unparen(call.Fun).(*ast.SelectorExpr); ok && sel.Sel.Name == "Wait" {
							if cl := model.Callee(info, call); cl != nil {
								if _, isSub := m.Obj.SubscriptionMethods[cl]; isSub {
									deleg = call
								}
							}
						}
						return true
					})
					switch {
					case deleg == nil:
						c.Violation(key, fd.Pos(), "%s.Wait does not call the Wait of a Subscription: it cannot know when the subscription is closed", tname)
					case !mustPass(fd.Body, deleg):
						c.Violation(key, fd.Pos(), "%s.Wait returns on some path without waiting on its Subscription: Wait can return before the subscription is closed (for instance while the terminal callback is still running)", tname)
					default:
						c.OK(key, fd.Pos(), "every path waits on the underlying Subscription")
					}
				}
			}
			c.Inc("wait_wrappers", n)
		},
	}
}

// CALLBACK-REENTRANCY: a callback may call Unsubscribe; the teardown a subject registers for its subscriber must be
// able to run from inside any notification the subject sends.
func ruleCallbackReentrancy() check.Rule {
	return check.Rule{
		Name: "CALLBACK-REENTRANCY",
		Doc:  "for every subject, the locks taken by the teardown it registers on a subscriber's subscription (observer removal) are not held while it notifies a stored observer outside its Subscribe method, nor at the Add call that registers that teardown (Add runs it at once when the subscription is already closed): Unsubscribe called from inside a callback runs that teardown synchronously and would otherwise dead-lock on the subject's non-reentrant mutex",
		Run: func(c *check.Ctx) {
			m := c.M
			p := m.Obj.Ro
			info := p.TypesInfo
			h := newHeldDB(m)
			for _, tname := range subjectTypes(m) {
				// locks taken by teardown literals registered with Add in the Subscribe methods
				tdLocks := lockset.Set{}
				for _, fd := range methodsOf(p, tname) {
					if fd.Body == nil || !(fd.Name.Name == "Subscribe" || fd.Name.Name == "SubscribeWithContext") {
						continue
					}
					rv := recvObj(info, fd)
					ast.Inspect(fd.Body, func(x ast.Node) bool {
						call, ok := x.(*ast.CallExpr)
						if !ok {
							return true
						}
						sel, ok := ast.Unparen(call.Fun).(*ast.SelectorExpr)
						if !ok || sel.Sel.Name != "Add" || len(call.Args) != 1 {
							return true
						}
						// the teardown: a literal, a named closure or a method value, and the helper methods it calls
						mine := lockset.Set{}
						defer func() {
							// Add runs the teardown at once when the subscription is already closed (a subscriber that
							// unsubscribed during the replay, a closed Subscriber handed in as the destination): the
							// registration itself must not be made under a lock the teardown takes
							if len(mine) == 0 {
								return
							}
							c.Inc("subject_teardown_registrations", 1)
							akey := fmt.Sprintf("ro.%s.%s/add-outside-teardown-lock", tname, fd.Name.Name)
							held := h.heldNorm(p, call)
							for k := range mine {
								if held[k] {
									c.Violation(akey, call.Pos(), "%s registers the subscriber's teardown with Add while holding %s, which that teardown takes: Add runs the teardown immediately when the subscription is already closed (the subscriber unsubscribed during the replay above, or a closed Subscriber was passed as the destination), and the goroutine blocks on the mutex it holds itself — Subscribe never returns and the subject stays locked", fd.Name.Name, k)
									return
								}
							}
							c.OK(akey, call.Pos(), "the teardown is registered outside the locks it takes (%s)", mine)
						}()
						for _, b := range resolveFuncBodies(m, p, call.Args[0]) {
							inspectTransitive(m, b.Pkg, b.Body, 3, func(q *packages.Package, y ast.Node) bool {
								c2, ok := y.(*ast.CallExpr)
								if !ok {
									return true
								}
								s2, ok := ast.Unparen(c2.Fun).(*ast.SelectorExpr)
								if !ok || (s2.Sel.Name != "Lock" && s2.Sel.Name != "RLock") {
									return true
								}
								fs := fieldSelOf(q.TypesInfo, s2.X, rv)
								if fs == nil {
									fs = recvFieldSel(m, q, s2.X)
								}
								if fs != nil {
									tdLocks["recv."+fs.Sel.Name] = true
									mine["recv."+fs.Sel.Name] = true
								}
								return true
							})
						}
						return true
					})
				}
				key := "ro." + tname + "/teardown-lock-free-delivery"
				if len(tdLocks) == 0 {
					c.OK(key, p.Types.Scope().Lookup(tname).Pos(), "the subscriber teardown takes no subject lock (delivery under the mutex cannot dead-lock with it)")
					continue
				}
				bad := false
				for _, fd := range methodsOf(p, tname) {
					if fd.Body == nil || fd.Name.Name == "Subscribe" || fd.Name.Name == "SubscribeWithContext" {
						continue
					}
					rv := recvObj(info, fd)
					ast.Inspect(fd.Body, func(x ast.Node) bool {
						call, ok := x.(*ast.CallExpr)
						if !ok || bad {
							return true
						}
						name, isObs := m.Obj.ObserverMethods[model.Callee(info, call)]
						if !isObs || notifKind(name) < 0 {
							return true
						}
						sel := ast.Unparen(call.Fun).(*ast.SelectorExpr)
						if id, ok := ast.Unparen(sel.X).(*ast.Ident); ok && objOf(info, id) == rv {
							return true
						}
						c.Inc("subject_deliveries_checked", 1)
						held := h.heldNorm(p, call)
						for k := range tdLocks {
							if held[k] {
								bad = true
								c.Violation(key, call.Pos(), "%s notifies an observer while holding %s, which the subscriber's teardown also takes: an observer that unsubscribes from inside this callback (directly or through Take/First downstream) dead-locks", fd.Name.Name, k)
							}
						}
						return true
					})
				}
				if !bad {
					c.OK(key, p.Types.Scope().Lookup(tname).Pos(), "no stored observer is notified while a lock of the subscriber teardown (%s) is held", tdLocks)
				}
			}
			// the same for operators: a teardown literal handed to Add / AddUnsubscribable of a subscription while a lock
			// it takes is held runs at once when that subscription is already closed, on this goroutine
			nAdd := 0
			for _, sc := range m.SCs {
				for _, op := range sc.SubOps {
					if op.Method != "Add" || op.Call == nil || op.Arg == nil || op.Arg.Kind != model.AVFunc || op.Arg.Lit == nil {
						continue
					}
					taken := lockset.Set{}
					for _, lo := range lockResult(op.Pkg, op.Arg.Lit).Ops {
						if lo.Kind == "Lock" || lo.Kind == "RLock" {
							taken[lo.Key] = true
						}
					}
					if len(taken) == 0 {
						continue
					}
					nAdd++
					held := h.heldAt(op.Pkg, op.Call)
					akey := fmt.Sprintf("%s/add#%d-outside-teardown-lock", sc, nAdd)
					clash := ""
					for k := range taken {
						if held[k] {
							clash = k
						}
					}
					if clash != "" {
						c.Report(c.Armed(sc), akey, op.Call.Pos(), "a teardown that takes %s is registered with Add while %s is held: Add runs it immediately when the subscription is already closed, and the goroutine blocks on the lock it holds", lockShort(clash), lockShort(clash))
					} else if c.Armed(sc) {
						c.OK(akey, op.Call.Pos(), "registered outside the locks it takes")
					}
				}
			}
			c.Inc("operator_locking_teardown_registrations", nAdd)
		},
	}
}

// heldThroughInlining returns the locks held at n, with locks named by parameters of the helper declarations on the
// inlining stack renamed to the argument the caller passed (mu *sync.Mutex <- &mu).
func heldThroughInlining(m *model.Model, h *heldDB, p *packages.Package, n ast.Node, stack []*ast.CallExpr) lockset.Set {
	held := h.heldAt(p, n).Clone()
	for i := len(stack) - 1; i >= 0; i-- {
		call := stack[i]
		// the package of the call site: the SC's or an outer helper's; types.Info lookups tolerate both via Callee
		var info *types.Info
		for _, pk := range m.Pkgs {
			if _, ok := pk.TypesInfo.Types[call.Fun]; ok {
				info = pk.TypesInfo
				break
			}
		}
		if info == nil {
			continue
		}
		cl := model.Callee(info, call)
		d := m.Decls[cl]
		// the locks held where the helper or closure is called are held inside it as well
		for _, pk := range m.Pkgs {
			if pk.TypesInfo == info {
				for k := range h.heldAt(pk, call) {
					defer func(k string) { held[k] = true }(k)
				}
			}
		}
		if cl == nil || d == nil {
			continue
		}
		ps := model.FlattenParams(d.Pkg.TypesInfo, d.Decl.Type.Params)
		for j, pv := range ps {
			if pv == nil || j >= len(call.Args) {
				continue
			}
			from := fmt.Sprintf("%s@%d", pv.Name(), pv.Pos())
			to := lockset.KeyOf(info, call.Args[j])
			if to == "" {
				continue
			}
			for k := range held {
				if k == from || strings.HasPrefix(k, from+".") {
					delete(held, k)
					held[to+k[len(from):]] = true
				}
			}
		}
	}
	return held
}

// NO-EMIT-UNDER-TEARDOWN-LOCK: an operator's teardown runs synchronously inside the notification that ends its
// output (terminal) or that makes downstream unsubscribe (Take, First, an observer calling Unsubscribe).
func ruleNoEmitUnderTeardownLock() check.Rule {
	return check.Rule{
		Name:        "NO-EMIT-UNDER-TEARDOWN-LOCK",
		Doc:         "no operator sends a notification to its destination while holding a lock that one of its own teardowns acquires: the destination's subscriber runs the operator's teardown synchronously inside a terminal notification, and inside any notification during which downstream unsubscribes, so the teardown would block for ever on the non-reentrant mutex (Unsubscribe never returns, Wait/Collect hang on a terminated stream)",
		NeedControl: true,
		Run: func(c *check.Ctx) {
			m := c.M
			h := newHeldDB(m)
			for _, sc := range m.SCs {
				armed := c.Armed(sc)
				// locks acquired by teardown functions: returned literals and literals registered with Add
				tdLocks := map[string]token.Pos{}
				addLit := func(p *packages.Package, lit *ast.FuncLit) {
					if lit == nil {
						return
					}
					res := lockResult(p, lit)
					for _, op := range res.Ops {
						if op.Kind == "Lock" || op.Kind == "RLock" {
							tdLocks[op.Key] = op.Node.Pos()
						}
					}
				}
				for _, tr := range sc.Teardowns {
					if tr.Val != nil && tr.Val.Kind == model.AVFunc {
						addLit(tr.Pkg, tr.Val.Lit)
					}
				}
				for _, op := range sc.SubOps {
					if op.Method == "Add" && op.Arg != nil && op.Arg.Kind == model.AVFunc {
						addLit(op.Pkg, op.Arg.Lit)
					}
				}
				if len(tdLocks) == 0 {
					continue
				}
				c.Inc("scs_with_locking_teardown", 1)
				cnt := 0
				// wait-for edges inside the operator: lock M is acquired while L is held (L -> M). A goroutine that
				// holds L may then be parked until whoever holds M lets go; when M is held across a notification, L is
				// blocked for the duration of that notification as well (lock coupling: Delay's timers)
				type edge struct {
					from, to string
					pos      token.Pos
				}
				var edges []edge
				ast.Inspect(sc.Lit, func(x ast.Node) bool {
					lit, ok := x.(*ast.FuncLit)
					if !ok {
						return true
					}
					for _, op := range lockResult(sc.Pkg, lit).Ops {
						if op.Kind != "Lock" && op.Kind != "RLock" {
							continue
						}
						if innermostFunc(m, sc.Pkg, op.Node) != ast.Node(lit) {
							continue // reported with the nested literal
						}
						for l := range h.heldAt(sc.Pkg, op.Node) {
							if l != op.Key {
								edges = append(edges, edge{l, op.Key, op.Node.Pos()})
							}
						}
					}
					return true
				})
				blockedBy := map[string]edge{} // lock -> the edge that makes it wait behind a notification
				emitHeld := map[string]token.Pos{}
				for _, e := range sc.Emits {
					if !e.ToDest || e.Forwarder {
						continue
					}
					for k := range heldThroughInlining(m, h, e.Pkg, e.Node, e.Stack) {
						if _, ok := emitHeld[k]; !ok {
							emitHeld[k] = e.Pos
						}
					}
				}
				for changed := true; changed; {
					changed = false
					for _, ed := range edges {
						_, direct := emitHeld[ed.to]
						_, indirect := blockedBy[ed.to]
						if _, done := blockedBy[ed.from]; !done && (direct || indirect) {
							if _, isDirect := emitHeld[ed.from]; !isDirect {
								blockedBy[ed.from] = ed
								changed = true
							}
						}
					}
				}
				for k, lockPos := range tdLocks {
					ed, ok := blockedBy[k]
					if !ok {
						continue
					}
					cnt++
					key := fmt.Sprintf("%s/teardown-lock-waits-behind-notification#%d", sc, cnt)
					c.Report(armed, key, ed.pos, "%s is acquired here while %s is held, and a notification is sent to the destination under %s (at %s); the operator's teardown (%s) takes %s: when that notification makes downstream unsubscribe (Take, First, a terminal), the teardown runs inside it and waits for %s, whose holder waits for %s, which the notifying goroutine holds — a lock-order inversion, Unsubscribe never returns and Collect hangs", lockShort(ed.to), lockShort(k), lockShort(ed.to), c.Prog.Rel(emitHeld[ed.to]), c.Prog.Rel(lockPos), lockShort(k), lockShort(k), lockShort(ed.to))
				}
				for _, e := range sc.Emits {
					if !e.ToDest || e.Forwarder {
						continue
					}
					held := heldThroughInlining(m, h, e.Pkg, e.Node, e.Stack)
					for k, lockPos := range tdLocks {
						if !held[k] {
							continue
						}
						cnt++
						key := fmt.Sprintf("%s/%s/emit-under-teardown-lock#%d", sc, model.CtxKey(e.Ctx, e.Slot), cnt)
						c.Report(armed, key, e.Pos, "the %s notification is sent to the destination while %s is held, and the operator's teardown (%s) takes the same lock: when this notification ends the output, or downstream unsubscribes inside it, the teardown runs synchronously and dead-locks", []string{"Next", "Error", "Complete"}[e.Kind], lockShort(k), c.Prog.Rel(lockPos))
					}
				}
				// subscribing the destination itself to something delivers to it synchronously (replaying subjects)
				for _, ss := range sc.SubSites {
					if ss.Observer == nil || ss.Observer.Kind != model.AVDest {
						continue
					}
					held := h.heldAt(ss.Pkg, ss.Call)
					for k, lockPos := range tdLocks {
						if !held[k] {
							continue
						}
						cnt++
						key := fmt.Sprintf("%s/subscribe-destination-under-teardown-lock#%d", ss.Key, cnt)
						c.Report(armed, key, ss.Pos, "the destination is subscribed to an observable while %s is held, and the operator's teardown (%s) takes the same lock: a source that notifies synchronously on subscription (a replaying or behaviour subject) runs the destination's callbacks under the lock, and a terminal or an unsubscription inside them dead-locks", lockShort(k), c.Prog.Rel(lockPos))
					}
				}
				if cnt == 0 && armed {
					c.OK(sc.String()+"/emit-under-teardown-lock", sc.Lit.Pos(), "no notification is sent while a lock of the teardown is held (%d teardown lock(s))", len(tdLocks))
				}
			}
		},
	}
}

func C06() *check.Property {
	return &check.Property{
		ID:       "C06",
		Title:    "Unsubscribe cuts delivery; IsClosed, Wait and Collect tell the truth",
		Patterns: CorePatterns,
		Scope:    []string{ro},
		Rules:    []check.Rule{ruleUnsubFlipsFirst(), ruleNoProducerLockInQueries(), ruleSelfUnsubscribe(), ruleWaitSignal(), ruleCollectWaits(), ruleFinalizerDiscipline(), ruleGatesOf(false), ruleWaitImplementors(), ruleCallbackReentrancy(), ruleNoEmitUnderTeardownLock(), ruleSubjectDelivers(), ruleTeardownDoesNotNotify(), ruleInnerTerminalBeforeDestination(), ruleRelockRevalidates(), ruleLoopStopsAfterError(), ruleSequentialInnerGuard()},
		Explanation: "Static ordering / who-may-lock checks over subscriber.go, subscription.go and observable.go. Unsubscribe closes the status word (won compare-and-swap) before running finalizers, so with the Next gate of C01 a notification whose emission starts after Unsubscribe returned " +
			"is refused; the query methods and Unsubscribe never take the producer lock (callable from inside a callback); terminal notifications are delivered before the subscriber closes itself; Wait blocks only on a buffered channel signalled solely by a teardown it registers " +
			"(run at once if already closed), so it returns iff the subscription is or gets closed; Collect waits on the collecting subscription before every return and returns exactly what its observer gathered; Unsubscribe is idempotent (FINALIZER-DISCIPLINE); no other type shortcuts Wait (WAIT-IMPLEMENTORS); no subject notifies an observer while holding a lock its subscriber teardown takes, so Unsubscribe from inside a callback cannot dead-lock (CALLBACK-REENTRANCY).",
		NotDecided:  "the real-time ordering 'began afterwards' itself (follows from the compare-and-swap and the gate; argued, not model-checked); concurrent callers beyond the guarded-by discipline.",
		Assumptions: []string{"sync/atomic, sync.Mutex and channel semantics"},
		Floors:      map[string]int{"query_methods": 4, "gated_calls": 3, "field_accesses": 8, "subject_deliveries_checked": 3, "scs_with_locking_teardown": 8, "teardown_notifications": 1},
		Controls:    map[string]string{"zz_verif_controls_c06.go": roControl(controlsC06 + controlsTeardownNotify + controlsInnerTerminal + controlsRelock + controlsLoopStops), "zz_verif_controls_c05.go": roControl(controlsC05)},
	}
}

const controlsC06 = `
func verifControlEmitUnderLock[T any]() func(Observable[T]) Observable[T] {
	return func(source Observable[T]) Observable[T] {
		return NewObservableWithContext(func(subscriberCtx context.Context, destination Observer[T]) Teardown {
			var mu sync.Mutex
			last := 0
			sub := source.SubscribeWithContext(subscriberCtx, NewObserverWithContext(
				func(ctx context.Context, value T) {
					mu.Lock()
					last++
					destination.NextWithContext(ctx, value)
					mu.Unlock()
				},
				destination.ErrorWithContext, destination.CompleteWithContext))
			return func() {
				sub.Unsubscribe()
				mu.Lock()
				last = 0
				mu.Unlock()
			}
		})
	}
}

type verifControlWaiter struct {
	Subscription
	closed int32
}

func (w *verifControlWaiter) Wait() {
	if atomic.LoadInt32(&w.closed) != 0 {
		return
	}
	w.Subscription.Wait()
}
`

// TEARDOWN-DOES-NOT-NOTIFY: a teardown sends no notification to an observer the operator handed out.
func ruleTeardownDoesNotNotify() check.Rule {
	return check.Rule{
		Name:        "TEARDOWN-DOES-NOT-NOTIFY",
		NeedControl: true,
		Doc:         "no teardown of an operator sends a notification (directly, or in a local closure it calls) to an observer other than the destination — an inner subject the operator handed downstream (a group, a window). The consumer of that inner observable receives its notifications under the non-reentrant mutex of its safe subscriber; when it is that consumer which unsubscribes the outer stream from inside its callback (a downstream Take completing, a hand-written observer), the teardown runs synchronously on the same goroutine and the notification blocks for ever on the mutex held further up the stack: Unsubscribe never returns, Wait and Collect hang",
		Run: func(c *check.Ctx) {
			m := c.M
			n := 0
			for _, sc := range m.SCs {
				if !c.Armed(sc) && !check.IsControlName(sc.Name) {
					continue
				}
				for _, e := range sc.Emits {
					if e.ToDest {
						continue
					}
					inTeardown := false
					for cx := e.Ctx; cx != nil; cx = cx.Parent {
						if cx.Kind == model.KTeardown {
							inTeardown = true
						}
						if cx.Kind == model.KGo || cx.Kind == model.KTimer {
							break // another goroutine: no lock of the caller is held there
						}
					}
					if !inTeardown {
						continue
					}
					n++
					c.Report(c.Armed(sc), e.Key+"/in-teardown", e.Pos, "the teardown sends a %s notification to an observer the operator handed downstream: when the unsubscription comes from inside a callback of that observer's consumer, its subscriber mutex is already held on this goroutine and the teardown dead-locks (Unsubscribe called from inside a callback never returns)", model.SlotNames[e.Kind])
				}
				if c.Armed(sc) {
					c.OK(sc.String()+"/teardown-silent", sc.Lit.Pos(), "checked")
				}
			}
			c.Inc("teardown_notifications", n)
		},
	}
}

// INNER-TERMINAL-BEFORE-DESTINATION: what the teardown sends pre-empts what a callback sends after its own terminal.
func ruleInnerTerminalBeforeDestination() check.Rule {
	return check.Rule{
		Name:        "INNER-TERMINAL-BEFORE-DESTINATION",
		NeedControl: true,
		Doc:         "in an operator whose teardown sends a terminal notification to inner observers it handed downstream (groups), a source callback that sends those observers a terminal of another kind does so before it sends the destination its terminal: the destination's subscriber runs the teardown inside that terminal (once the subscribe function has returned, i.e. for any asynchronous source), the teardown terminates the inner observers first and the callback's notification is dropped — a source error reaches the groups as Complete",
		Run: func(c *check.Ctx) {
			m := c.M
			n := 0
			for _, sc := range m.SCs {
				if !c.Armed(sc) && !check.IsControlName(sc.Name) {
					continue
				}
				// what the teardown sends pre-empts what a callback sends after its own terminal to the destination: the
				// destination's subscriber runs the teardown inside that terminal (once the subscribe function has returned,
				// i.e. for any asynchronous source). An Error sent to the inner observers after destination.Error finds them
				// already completed by the teardown: the failure reaches them as a normal completion
				tdKinds := map[int]bool{}
				for _, e := range sc.Emits {
					if e.ToDest {
						continue
					}
					for cx := e.Ctx; cx != nil; cx = cx.Parent {
						if cx.Kind == model.KTeardown {
							tdKinds[e.Kind] = true
						}
					}
				}
				if len(tdKinds) > 0 {
					for _, e := range sc.Emits {
						if e.ToDest || e.Ctx == nil || e.Ctx.Kind != model.KSrc || e.Kind == model.EmitNext || tdKinds[e.Kind] {
							continue
						}
						for _, d := range sc.Emits {
							if d.ToDest && d.Ctx == e.Ctx && d.Slot == e.Slot && d.Kind != model.EmitNext && d.Pos < e.Pos {
								n++
								c.Report(c.Armed(sc), e.Key+"/after-destination-terminal", e.Pos, "this %s notification to an inner observer is sent after the terminal notification to the destination, which runs the operator's teardown — and the teardown sends the inner observers a different terminal first: with an asynchronous source the inner observers receive that one and this notification is dropped (a source error reaches the groups as Complete)", model.SlotNames[e.Kind])
								break
							}
						}
					}
				}
			}
			_ = m
			c.Inc("inner_terminals_after_destination", n)
		},
	}
}

const controlsInnerTerminal = `
func verifControlInnerAfterDestination[T any]() func(Observable[T]) Observable[Observable[T]] {
	return func(source Observable[T]) Observable[Observable[T]] {
		return NewUnsafeObservableWithContext(func(subscriberCtx context.Context, destination Observer[Observable[T]]) Teardown {
			inner := NewUnicastSubject[T](16)
			destination.NextWithContext(subscriberCtx, inner)
			sub := source.SubscribeWithContext(subscriberCtx, NewObserverWithContext(
				inner.NextWithContext,
				func(ctx context.Context, err error) {
					destination.ErrorWithContext(ctx, err)
					inner.ErrorWithContext(ctx, err)
				},
				destination.CompleteWithContext))
			return func() {
				sub.Unsubscribe()
				inner.CompleteWithContext(subscriberCtx)
			}
		})
	}
}
`

const controlsTeardownNotify = `
func verifControlTeardownNotifies[T any]() func(Observable[T]) Observable[Observable[T]] {
	return func(source Observable[T]) Observable[Observable[T]] {
		return NewUnsafeObservableWithContext(func(subscriberCtx context.Context, destination Observer[Observable[T]]) Teardown {
			inner := NewUnicastSubject[T](16)
			destination.NextWithContext(subscriberCtx, inner)
			sub := source.SubscribeWithContext(subscriberCtx, NewObserverWithContext(
				inner.NextWithContext, destination.ErrorWithContext, destination.CompleteWithContext))
			return func() {
				sub.Unsubscribe()
				inner.CompleteWithContext(subscriberCtx)
			}
		})
	}
}
`

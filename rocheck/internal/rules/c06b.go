package rules

import (
	"fmt"
	"go/ast"
	"go/token"
	"go/types"
	"strings"

	"rocheck/internal/check"
	"rocheck/internal/lockset"
	"rocheck/internal/model"
)

// RELOCK-REVALIDATES: state the teardown invalidates is re-checked after a notification sent with the lock released.
func ruleRelockRevalidates() check.Rule {
	return check.Rule{
		Name:        "RELOCK-REVALIDATES",
		NeedControl: true,
		Doc:         "a callback that releases a lock, sends a notification to an observer and takes the lock again must expect that the notification ran the operator's teardown (downstream unsubscribed inside it: Take, First, an observer calling Unsubscribe). For every local slice / map / pointer variable that a teardown of the same function assigns as a whole (`values = nil`, \"free memory\"), every index expression on it that follows the re-lock is inside a `range` over that very variable or guarded by a condition, evaluated after the re-lock, that mentions it (nil or len test). Otherwise `completed[i]` indexes a nil slice while the lock is held: the panic unwinds past the explicit Unlock, the observer's panic guard re-enters the operator, which locks again — the producer dead-locks",
		Run: func(c *check.Ctx) {
			m := c.M
			n := 0
			for _, p := range m.Pkgs {
				armed := c.ArmedPkg(p.PkgPath)
				info := p.TypesInfo
				for _, outer := range funcNodes(p) {
					obody := funcBody(outer)
					if obody == nil {
						continue
					}
					// teardown literals of this function: func() literals returned or handed to Add, and the variables they assign
					invalidated := map[*types.Var]token.Pos{}
					var tdLits []*ast.FuncLit
					ast.Inspect(obody, func(x ast.Node) bool {
						if l, ok := x.(*ast.FuncLit); ok && ast.Node(l) != outer {
							if innermostFunc(m, p, m.Parent(p, l)) != outer {
								return true
							}
							if l.Type.Params.NumFields() == 0 && (l.Type.Results == nil || l.Type.Results.NumFields() == 0) {
								switch par := m.Parent(p, l).(type) {
								case *ast.ReturnStmt:
									tdLits = append(tdLits, l)
								case *ast.CallExpr:
									if sel, ok := ast.Unparen(par.Fun).(*ast.SelectorExpr); ok && sel.Sel.Name == "Add" {
										tdLits = append(tdLits, l)
									}
								}
							}
						}
						return true
					})
					for _, l := range tdLits {
						for _, w := range writesIn(info, l.Body) {
							if w.How != "assignment" {
								continue
							}
							as, ok := w.Node.(*ast.AssignStmt)
							if !ok {
								continue
							}
							whole := false
							for _, lhs := range as.Lhs {
								if id, ok := ast.Unparen(lhs).(*ast.Ident); ok && objOf(info, id) == types.Object(w.Var) {
									whole = true
								}
							}
							if !whole || w.Var.Pos() < obody.Pos() || w.Var.Pos() > obody.End() {
								continue
							}
							switch w.Var.Type().Underlying().(type) {
							case *types.Slice, *types.Map, *types.Pointer:
								invalidated[w.Var] = as.Pos()
							}
						}
					}
					if len(invalidated) == 0 {
						continue
					}
					// callbacks of the same function with unlock / notify / lock
					ast.Inspect(obody, func(x ast.Node) bool {
						f, ok := x.(*ast.FuncLit)
						if !ok || ast.Node(f) == outer {
							return true
						}
						for _, l := range tdLits {
							if l == f {
								return true
							}
						}
						type ev struct {
							kind string // unlock, notify, lock
							key  string
							pos  token.Pos
						}
						var evs []ev
						ast.Inspect(f.Body, func(y ast.Node) bool {
							if l, ok := y.(*ast.FuncLit); ok && l != f {
								return false
							}
							call, ok := y.(*ast.CallExpr)
							if !ok {
								return true
							}
							if sel, ok := ast.Unparen(call.Fun).(*ast.SelectorExpr); ok && len(call.Args) == 0 {
								switch sel.Sel.Name {
								case "Lock", "Unlock":
									if k := lockset.KeyOf(info, sel.X); k != "" {
										evs = append(evs, ev{strings.ToLower(sel.Sel.Name), k, call.Pos()})
									}
								}
							}
							if name, isObs := m.Obj.ObserverMethods[model.Callee(info, call)]; isObs && notifKind(name) >= 0 {
								evs = append(evs, ev{"notify", "", call.Pos()})
							}
							return true
						})
						// the first re-lock that follows an unlock and a notification
						relock := token.NoPos
						for i, u := range evs {
							if u.kind != "unlock" {
								continue
							}
							for j := i + 1; j < len(evs); j++ {
								if evs[j].kind == "notify" {
									for k := j + 1; k < len(evs); k++ {
										if evs[k].kind == "lock" && evs[k].key == u.key && (relock == token.NoPos || evs[k].pos < relock) {
											relock = evs[k].pos
										}
									}
								}
							}
						}
						if relock == token.NoPos {
							return true
						}
						k := 0
						ast.Inspect(f.Body, func(y ast.Node) bool {
							if l, ok := y.(*ast.FuncLit); ok && l != f {
								return false
							}
							ix, ok := y.(*ast.IndexExpr)
							if !ok || ix.Pos() < relock {
								return true
							}
							id, ok := ast.Unparen(ix.X).(*ast.Ident)
							if !ok {
								return true
							}
							v, ok := objOf(info, id).(*types.Var)
							if !ok {
								return true
							}
							at, inv := invalidated[v]
							if !inv {
								return true
							}
							n++
							k++
							key := fmt.Sprintf("%s/index-%s-after-relock#%d", chainKey(m, p, m.EnclosingFuncs(p, f), scLits(m)), v.Name(), k)
							// inside `for … := range v`
							okGuard := false
							for cn := m.Parent(p, ix); cn != nil && cn != ast.Node(f); cn = m.Parent(p, cn) {
								if rs, ok := cn.(*ast.RangeStmt); ok {
									if rid, ok := ast.Unparen(rs.X).(*ast.Ident); ok && objOf(info, rid) == types.Object(v) {
										okGuard = true
									}
								}
							}
							if !okGuard {
								okGuard = guardedByEdge(f.Body, ix, func(cond ast.Expr, _ bool) bool {
									if cond.Pos() < relock {
										return false
									}
									found := false
									ast.Inspect(cond, func(z ast.Node) bool {
										if cid, ok := z.(*ast.Ident); ok && objOf(info, cid) == types.Object(v) {
											found = true
										}
										return !found
									})
									return found
								})
							}
							if okGuard {
								if armed {
									c.OK(key, ix.Pos(), "re-validated after the lock was taken again")
								}
							} else {
								c.Report(armed, key, ix.Pos(), "%s is indexed after the lock was released for a notification and taken again (%s), but the teardown assigns it as a whole (%s) and may have run inside that notification: nothing re-checks it, so the index panics on the invalidated value while the lock is held and the explicit Unlock is skipped", v.Name(), c.Prog.Rel(relock), c.Prog.Rel(at))
							}
							return true
						})
						return true
					})
				}
			}
			c.Inc("indexes_after_relock", n)
		},
	}
}

const controlsRelock = `
func verifControlRelock(destination Observer[int], sources []int) (func(), Teardown) {
	var mu sync.Mutex
	flags := make([]bool, len(sources))
	cb := func() {
		mu.Lock()
		mu.Unlock()
		destination.Next(1)
		mu.Lock()
		for i := range sources {
			if flags[i] {
				break
			}
		}
		mu.Unlock()
	}
	return cb, func() {
		mu.Lock()
		flags = nil
		mu.Unlock()
	}
}
`

// INNER-TERMINATED: an operator that feeds inner observables terminates them when it terminates.
func ruleInnerTerminated() check.Rule {
	return check.Rule{
		Name:        "INNER-TERMINATED",
		NeedControl: true,
		Doc:         "in an operator that sends values to inner observers it handed downstream (the groups of GroupBy, the windows of WindowWhen), every error or completion callback of a source that sends the destination its terminal notification also sends a terminal notification to the inner observers (directly or through the local closures it calls): otherwise the outer subscriber learns that the stream ended while the consumer of the open window or group never receives a terminal and waits for ever",
		Run: func(c *check.Ctx) {
			n := 0
			for _, sc := range c.M.SCs {
				if !c.Armed(sc) && !check.IsControlName(sc.Name) {
					continue
				}
				feedsInner := false
				for _, e := range sc.Emits {
					if !e.ToDest && e.Kind == model.EmitNext && e.Ctx != nil && e.Ctx.Kind == model.KSrc {
						feedsInner = true
					}
				}
				if !feedsInner || !destinationReceivesObservables(sc) {
					continue
				}
				type slotKey struct {
					ctx  *model.Ctx
					slot int
				}
				destTerm := map[slotKey]*model.EmitSite{}
				innerTerm := map[slotKey]bool{}
				for _, e := range sc.Emits {
					if e.Ctx == nil || e.Ctx.Kind != model.KSrc || e.Kind == model.EmitNext || (e.Slot != model.SlotError && e.Slot != model.SlotComplete) {
						continue
					}
					k := slotKey{e.Ctx, e.Slot}
					if e.ToDest {
						if destTerm[k] == nil {
							destTerm[k] = e
						}
					} else {
						innerTerm[k] = true
					}
				}
				for k, d := range destTerm {
					n++
					key := fmt.Sprintf("%s/%s/inner-terminated", sc, model.CtxKey(k.ctx, k.slot))
					if innerTerm[k] {
						if c.Armed(sc) {
							c.OK(key, d.Pos, "the inner observers receive a terminal notification in this callback as well")
						}
					} else {
						c.Report(c.Armed(sc), key, d.Pos, "this callback ends the output (%s to the destination) but sends no terminal notification to the inner observers the operator feeds: the consumer of the open window / group never learns that the stream ended", model.SlotNames[d.Kind])
					}
				}
			}
			c.Inc("inner_feeding_terminal_slots", n)
		},
	}
}

const controlsInnerTerminated = `
func verifControlInnerNotTerminated[T any]() func(Observable[T]) Observable[Observable[T]] {
	return func(source Observable[T]) Observable[Observable[T]] {
		return NewUnsafeObservableWithContext(func(subscriberCtx context.Context, destination Observer[Observable[T]]) Teardown {
			inner := NewUnicastSubject[T](16)
			destination.NextWithContext(subscriberCtx, inner)
			sub := source.SubscribeWithContext(subscriberCtx, NewObserverWithContext(
				inner.NextWithContext,
				destination.ErrorWithContext,
				func(ctx context.Context) {
					inner.CompleteWithContext(ctx)
					destination.CompleteWithContext(ctx)
				}))
			return sub.Unsubscribe
		})
	}
}
`

// destinationReceivesObservables: the subscribe closure's destination is an Observer[Observable[…]] — the operator hands
// inner observables downstream (GroupBy, WindowWhen), as opposed to one that feeds a subject its destination is
// subscribed to (Share).
func destinationReceivesObservables(sc *model.SC) bool {
	if sc.Dest == nil {
		return false
	}
	n, ok := sc.Dest.Type().(*types.Named)
	if !ok || n.TypeArgs() == nil || n.TypeArgs().Len() != 1 {
		return false
	}
	a, ok := n.TypeArgs().At(0).(*types.Named)
	return ok && a.Obj().Name() == "Observable"
}

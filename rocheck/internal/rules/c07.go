package rules

import (
	"fmt"
	"go/ast"
	"go/token"
	"go/types"
	"strings"

	"golang.org/x/tools/go/packages"

	"rocheck/internal/check"
	"rocheck/internal/load"
	"rocheck/internal/model"
)

func isErrorType(t types.Type) bool {
	n, ok := t.(*types.Named)
	return ok && n.Obj().Pkg() == nil && n.Obj().Name() == "error"
}

// USER-FN-CONTEXT: user-supplied functions run only where a panic becomes an Error
// notification (subscribe function body, next slot) or is collected by the teardown
// machinery; never in error/complete slots, timer callbacks or library goroutines.
func ruleUserFnContext() check.Rule {
	return check.Rule{
		Name:        "USER-FN-CONTEXT",
		Doc:         "every call of a user-supplied function inside a subscribe closure happens in the closure body (recovered by Subscribe into an Error notification), in a next slot (recovered by the observer into its error slot) or in a teardown (collected and re-raised after all teardowns); calls in error/complete slots, timer callbacks or goroutines can only reach the unhandled-error hook (or crash the process) and leave the subscriber without a terminal notification",
		NeedControl: true,
		Run: func(c *check.Ctx) {
			us := newUserSupplied(c.M)
			for _, sc := range c.M.SCs {
				armed := c.Armed(sc)
				for _, u := range sc.UserCalls {
					if !us.supplied(u.Param, 0) {
						if armed {
							c.OK(u.Key, u.Pos, "function parameter %s of an unexported helper only ever receives library literals that call no user code", u.Param.Name())
						}
						continue
					}
					c.Inc("user_calls", 1)
					key := u.Key
					where, bad := "", ""
					switch u.Ctx.Kind {
					case model.KBody:
						where = "subscribe function body"
					case model.KTeardown:
						where = "teardown"
					case model.KSrc:
						where = model.SlotNames[u.Slot] + " slot"
						if u.Slot != model.SlotNext {
							bad = "a panic here is recovered by observerImpl.try" + strings.Title(model.SlotNames[u.Slot]) + " into the unhandled-error hook only: no Error notification reaches the subscriber and the stream never terminates"
						}
					case model.KGo:
						where = "library goroutine"
						if u.Ctx.Recovered && u.Ctx.CatchEmits {
							where = "library goroutine started through lo.TryCatch whose handler sends the panic as an Error notification"
						} else if u.Ctx.Recovered {
							bad = "a panic here is recovered into the unhandled-error hook only: the subscriber never receives a terminal notification"
						} else {
							bad = "a panic here is not recovered at all and kills the process"
						}
					case model.KTimer:
						where = "timer callback"
						bad = "a panic here runs on the timer goroutine, is not recovered and kills the process"
					}
					// a protected parent chain: a user call in a next slot nested in a goroutine is still
					// protected by the observer of that slot
					if bad == "" {
						if armed {
							c.OK(key, u.Pos, "user function %s is called in the %s", u.Param.Name(), where)
						}
						continue
					}
					c.Report(armed, key, u.Pos, "user function %s is called in the %s: %s", u.Param.Name(), where, bad)
				}
			}
			unknownsFailClosed(c)
		},
	}
}

// GO-RECOVER: library goroutines are started through the recover wrapper.
func ruleGoRecover() check.Rule {
	return check.Rule{
		Name:        "GO-RECOVER",
		Doc:         "every go statement of the library either runs under recoverUnhandledError / a deferred recover, or its body (with the local closures it calls) contains no call of a user-supplied function or observable, no terminal notification and no Unsubscribe/Add (they run teardowns, whose panics Unsubscribe re-raises); notifications sent from it are recovered one hop further by the observer",
		NeedControl: true,
		Run: func(c *check.Ctx) {
			m := c.M
			us := newUserSupplied(m)
			covered := map[*ast.GoStmt]bool{}
			for _, sc := range m.SCs {
				armed := c.Armed(sc)
				for i, g := range sc.Gos {
					covered[g.Stmt] = true
					c.Inc("go_statements", 1)
					key := fmt.Sprintf("%s/go#%d", sc, i+1)
					if g.Recovered {
						if armed {
							c.OK(key, g.Pos, "started through recoverUnhandledError / deferred recover")
						}
						continue
					}
					// user calls or user-observable subscriptions directly in the goroutine
					var offender string
					for _, u := range sc.UserCalls {
						if u.Ctx == g.Body && us.supplied(u.Param, 0) {
							offender = "calls user function " + u.Param.Name()
						}
					}
					for _, s := range sc.SubSites {
						if s.Ctx == g.Body {
							offender = "subscribes to an observable (its subscribe function may panic before the observer's protection applies: observableImpl recovers, a custom Observable may not)"
							if s.Source != nil && s.Source.Kind == model.AVParam {
								offender = "subscribes to the user-supplied observable " + s.Source.Param.Name()
							}
							// observableImpl.SubscribeWithContext recovers panics of the subscribe function itself
							offender = ""
						}
					}
					// a terminal notification makes the receiving subscriber run its teardowns, and Unsubscribe / Add on a
					// closed subscription run teardowns directly; Unsubscribe re-raises a teardown's panic into its caller,
					// which here is a goroutine nobody recovers
					if offender == "" {
						for _, e := range sc.Emits {
							if e.Kind != model.EmitNext && inCtx(e.Ctx, g.Body) {
								offender = "sends a " + model.SlotNames[e.Kind] + " notification (the receiving subscriber runs its teardowns inside it and re-raises their panics)"
							}
						}
						for _, op := range sc.SubOps {
							if (op.Method == "Unsubscribe" || op.Method == "Add" || op.Method == "AddUnsubscribable") && inCtx(op.Ctx, g.Body) {
								offender = "calls " + op.Method + " (which runs teardowns and re-raises their panics)"
							}
						}
					}
					if offender == "" {
						if armed {
							c.OK(key, g.Pos, "bare goroutine whose body calls no user-supplied function, sends no terminal notification and runs no teardown (value notifications are recovered by the observers)")
						}
					} else {
						c.Report(armed, key, g.Pos, "goroutine is started without the recover wrapper and %s: a panic kills the process", offender)
					}
				}
			}
			// go statements outside subscribe closures
			for _, p := range m.Pkgs {
				cnt := 0
				for _, f := range p.Syntax {
					ast.Inspect(f, func(n ast.Node) bool {
						g, ok := n.(*ast.GoStmt)
						if !ok || covered[g] {
							return true
						}
						cnt++
						c.Inc("go_statements", 1)
						chain := m.EnclosingFuncs(p, g)
						key := fmt.Sprintf("%s/go#%d", chainKey(m, p, chain, scLits(m)), cnt)
						rec := model.Callee(p.TypesInfo, g.Call) == m.Obj.RecoverUnhandled
						if lit, ok := ast.Unparen(g.Call.Fun).(*ast.FuncLit); ok {
							for _, s := range lit.Body.List {
								if d, ok := s.(*ast.DeferStmt); ok {
									ast.Inspect(d, func(x ast.Node) bool {
										if id, ok := x.(*ast.Ident); ok && id.Name == "recover" {
											rec = true
										}
										return true
									})
								}
							}
						}
						if rec {
							if c.ArmedPkg(p.PkgPath) {
								c.OK(key, g.Pos(), "recovered")
							}
						} else {
							c.Report(c.ArmedPkg(p.PkgPath), key, g.Pos(), "go statement outside a subscribe closure without recover wrapper")
						}
						return true
					})
				}
			}
		},
	}
}

// SUBSCRIBE-RECOVER + OBSERVER-RECOVER: the two recover points of the core.
func ruleCoreRecover() check.Rule {
	return check.Rule{
		Name: "CORE-RECOVER",
		Doc:  "observableImpl.SubscribeWithContext invokes the subscribe function inside a try whose handler emits ErrorWithContext and unsubscribes; observerImpl.tryNext/tryError/tryComplete invoke the user callbacks inside a try whose handler routes the panic to the error callback (next) or to the unhandled-error hook; recoverUnhandledError recovers",
		Run: func(c *check.Ctx) {
			m := c.M
			p := m.Obj.Ro
			info := p.TypesInfo
			isTry := func(call *ast.CallExpr) bool {
				cl := model.Callee(info, call)
				return cl != nil && cl.Pkg() != nil && cl.Pkg().Path() == "github.com/samber/lo" && strings.HasPrefix(cl.Name(), "TryCatch")
			}
			// inTry reports whether node n lies inside the first (try) or second (catch) function literal of a TryCatch call
			position := func(fd *ast.FuncDecl, n ast.Node) (inTry, inCatch bool) {
				ast.Inspect(fd.Body, func(x ast.Node) bool {
					call, ok := x.(*ast.CallExpr)
					if !ok || !isTry(call) {
						return true
					}
					for i, a := range call.Args {
						if a.Pos() <= n.Pos() && n.End() <= a.End() {
							if i == 0 {
								inTry = true
							} else {
								inCatch = true
							}
						}
					}
					return true
				})
				return
			}
			// observableImpl.SubscribeWithContext
			if fd := load.FuncDeclOf(p, "observableImpl.SubscribeWithContext"); fd != nil {
				rv := recvObj(info, fd)
				var subscribeCall *ast.CallExpr
				handlerEmits, handlerUnsubs := false, false
				var emitPos, unsubPos token.Pos
				ast.Inspect(fd.Body, func(n ast.Node) bool {
					call, ok := n.(*ast.CallExpr)
					if !ok {
						return true
					}
					if s := fieldSelOf(info, call.Fun, rv); s != nil && s.Sel.Name == "subscribe" {
						subscribeCall = call
					}
					// the catch handler: the literal itself, and what the helpers it calls do
					if isTry(call) && len(call.Args) >= 2 {
						handler := call.Args[1]
						if pos := findCallTransitive(m, p, handler, func(q *packages.Package, c2 *ast.CallExpr) bool {
							name, ok := m.Obj.ObserverMethods[model.Callee(q.TypesInfo, c2)]
							return ok && strings.HasPrefix(name, "Error")
						}, 3); pos != token.NoPos {
							handlerEmits = true
							emitPos = pos
						}
						if pos := findCallTransitive(m, p, handler, func(q *packages.Package, c2 *ast.CallExpr) bool {
							name, ok := m.Obj.SubscriptionMethods[model.Callee(q.TypesInfo, c2)]
							return ok && name == "Unsubscribe"
						}, 3); pos != token.NoPos {
							handlerUnsubs = true
							unsubPos = pos
						}
					}
					return true
				})
				key := "ro.observableImpl.SubscribeWithContext/recover"
				switch {
				case subscribeCall == nil:
					c.Undecided(key, fd.Pos(), "call of the subscribe field not found")
				default:
					inTry, _ := position(fd, subscribeCall)
					// the registration of the returned teardown (Add runs it at once on a closed subscription) is protected too
					addOutside := token.NoPos
					ast.Inspect(fd.Body, func(n ast.Node) bool {
						call, ok := n.(*ast.CallExpr)
						if !ok {
							return true
						}
						if name, isSub := m.Obj.SubscriptionMethods[model.Callee(info, call)]; isSub && (name == "Add" || name == "AddUnsubscribable") {
							if in, inCatch := position(fd, call); !in && !inCatch {
								addOutside = call.Pos()
							}
						}
						return true
					})
					if inTry && handlerEmits && handlerUnsubs && addOutside != token.NoPos {
						c.Violation(key, addOutside, "the teardown returned by the subscribe function is registered outside the try: on a subscription that has already terminated Add runs the teardown at once, and a panic of that teardown escapes from Subscribe into the caller's goroutine")
					} else if inTry && handlerEmits && handlerUnsubs && unsubPos < emitPos {
						c.Violation(key, subscribeCall.Pos(), "the recover handler unsubscribes before it sends the Error notification: the subscriber is closed by then, so the panic of the subscribe function is silently dropped instead of reaching the observer")
					} else if inTry && handlerEmits && handlerUnsubs {
						c.OK(key, subscribeCall.Pos(), "subscribe function runs inside TryCatch; the handler emits ErrorWithContext and unsubscribes")
					} else {
						c.Violation(key, subscribeCall.Pos(), "the subscribe function is not protected as required (inside try=%v, handler emits Error=%v, handler unsubscribes=%v): a panic escapes into the caller of Subscribe or leaves the subscription open", inTry, handlerEmits, handlerUnsubs)
					}
				}
			} else {
				c.Undecided("ro.observableImpl.SubscribeWithContext/recover", p.Syntax[0].Pos(), "anchor not found")
			}
			// observerImpl.try*
			for _, t := range []struct{ method, field string }{{"tryNext", "onNext"}, {"tryError", "onError"}, {"tryComplete", "onComplete"}} {
				fd := load.FuncDeclOf(p, "observerImpl."+t.method)
				key := "ro.observerImpl." + t.method + "/recover"
				if fd == nil {
					c.Undecided(key, p.Syntax[0].Pos(), "anchor not found")
					continue
				}
				rv := recvObj(info, fd)
				var cb *ast.CallExpr
				routes := false
				ast.Inspect(fd.Body, func(n ast.Node) bool {
					call, ok := n.(*ast.CallExpr)
					if !ok {
						return true
					}
					if s := fieldSelOf(info, call.Fun, rv); s != nil && s.Sel.Name == t.field {
						cb = call
					}
					if isTry(call) && len(call.Args) >= 2 {
						if findCallTransitive(m, p, call.Args[1], func(q *packages.Package, c2 *ast.CallExpr) bool {
							if id, ok := ast.Unparen(c2.Fun).(*ast.Ident); ok && id.Name == "OnUnhandledError" {
								return true
							}
							if sel, ok := ast.Unparen(c2.Fun).(*ast.SelectorExpr); ok && sel.Sel.Name == "tryError" {
								return true
							}
							return false
						}, 3) != token.NoPos {
							routes = true
						}
					}
					return true
				})
				if cb == nil {
					c.Undecided(key, fd.Pos(), "call of the %s callback not found", t.field)
					continue
				}
				inTry, _ := position(fd, cb)
				if inTry && routes {
					c.OK(key, cb.Pos(), "callback runs inside TryCatch; the handler routes the panic to the error callback / unhandled-error hook")
				} else {
					c.Violation(key, cb.Pos(), "the %s callback is not protected (inside try=%v, handler routes panic=%v): a panicking observer callback escapes into the producer's goroutine", t.field, inTry, routes)
				}
			}
			// every call of an observerImpl callback field goes through a try* method
			for _, fd := range methodsOf(p, "observerImpl") {
				if fd.Body == nil || strings.HasPrefix(fd.Name.Name, "try") {
					continue
				}
				rv := recvObj(info, fd)
				ast.Inspect(fd.Body, func(n ast.Node) bool {
					if call, ok := n.(*ast.CallExpr); ok {
						if s := fieldSelOf(info, call.Fun, rv); s != nil && strings.HasPrefix(s.Sel.Name, "on") {
							c.Violation("ro.observerImpl."+fd.Name.Name+"/direct-callback", call.Pos(), "callback %s is invoked directly, outside the recovering try* helpers", s.Sel.Name)
						}
					}
					return true
				})
			}
			// recoverUnhandledError
			if fd := load.FuncDeclOf(p, "recoverUnhandledError"); fd != nil {
				ok := false
				ast.Inspect(fd.Body, func(n ast.Node) bool {
					if call, isCall := n.(*ast.CallExpr); isCall && isTry(call) {
						ok = true
					}
					return true
				})
				if ok {
					c.OK("ro.recoverUnhandledError/recover", fd.Pos(), "runs its callback inside TryCatch")
				} else {
					c.Violation("ro.recoverUnhandledError/recover", fd.Pos(), "recoverUnhandledError does not recover")
				}
			}
		},
	}
}

// ERR-RESULT-USED: an error returned by a callee inside a subscribe closure becomes an Error notification.
func ruleErrResultUsed() check.Rule {
	return check.Rule{
		Name:        "ERR-RESULT-USED",
		Doc:         "for every call inside a subscribe closure (outside teardowns) whose callee returns an error: the error is bound to a variable, tested against nil, and on the non-nil branch the destination receives ErrorWithContext with that error (or a wrapper of it) and the branch does not fall through to a Next",
		NeedControl: true,
		Run: func(c *check.Ctx) {
			m := c.M
			for _, sc := range m.SCs {
				armed := c.Armed(sc)
				info := sc.Pkg.TypesInfo
				seen := map[*ast.CallExpr]bool{}
				n := 0
				// all calls lexically inside the SC literal, outside nested SCs
				ast.Inspect(sc.Lit.Body, func(x ast.Node) bool {
					if l, ok := x.(*ast.FuncLit); ok && l != sc.Lit {
						for _, o := range m.SCs {
							if o.Lit == l {
								return false
							}
						}
					}
					call, ok := x.(*ast.CallExpr)
					if !ok || seen[call] {
						return true
					}
					seen[call] = true
					t := info.TypeOf(call)
					if t == nil {
						return true
					}
					errIdx := -1
					nres := 1
					if tup, ok := t.(*types.Tuple); ok {
						nres = tup.Len()
						for i := 0; i < tup.Len(); i++ {
							if isErrorType(tup.At(i).Type()) {
								errIdx = i
							}
						}
					} else if isErrorType(t) {
						errIdx = 0
					}
					if errIdx < 0 {
						return true
					}
					// skip error values that are not failures of a callee: ctx.Err(), errors.New, fmt.Errorf, newXxxError constructors
					if cl := model.Callee(info, call); cl != nil {
						if cl.Pkg() != nil && (cl.Pkg().Path() == "errors" || cl.Pkg().Path() == "fmt") {
							return true
						}
						if model.IsContext(recvTypeOf(cl)) && cl.Name() == "Err" {
							return true
						}
						if strings.HasPrefix(cl.Name(), "new") && strings.HasSuffix(cl.Name(), "Error") {
							return true
						}
						if nres == 1 && cl.Pkg() != nil && strings.HasPrefix(cl.Pkg().Path(), ro) && cl.Name() == "recoverValueToError" {
							return true
						}
					}
					// in a teardown literal? (cannot emit) -> exempt
					if inTeardownLit(m, sc, call) {
						return true
					}
					// console output (prompt, diagnostics) is not the lifted function
					if sel, ok := ast.Unparen(call.Fun).(*ast.SelectorExpr); ok {
						if inner, ok := ast.Unparen(sel.X).(*ast.SelectorExpr); ok {
							if v, ok := info.Uses[inner.Sel].(*types.Var); ok && v.Pkg() != nil && v.Pkg().Path() == "os" && (v.Name() == "Stdout" || v.Name() == "Stderr") {
								if shortCallee(info, call) != "Write" || v.Name() == "Stderr" || isDiscardedLog(m, sc, call) {
									return true
								}
							}
						}
					}
					n++
					c.Inc("error_returning_calls", 1)
					key := fmt.Sprintf("%s/err-call#%d-%s", sc, n, shortCallee(info, call))
					verdict, msg := errorHandled(m, sc, call, errIdx, nres)
					switch verdict {
					case check.OK:
						if armed {
							c.OK(key, call.Pos(), "%s", msg)
						}
					case check.Undecided:
						if armed {
							c.Undecided(key, call.Pos(), "%s", msg)
						} else {
							c.Info(key, call.Pos(), "(out of armed scope) %s", msg)
						}
					default:
						c.Report(armed, key, call.Pos(), "%s", msg)
					}
					return true
				})
			}
		},
	}
}

func recvTypeOf(fn *types.Func) types.Type {
	sig, _ := fn.Type().(*types.Signature)
	if sig == nil || sig.Recv() == nil {
		return nil
	}
	return sig.Recv().Type()
}

func shortCallee(info *types.Info, call *ast.CallExpr) string {
	switch f := ast.Unparen(call.Fun).(type) {
	case *ast.Ident:
		return f.Name
	case *ast.SelectorExpr:
		return f.Sel.Name
	}
	return "call"
}

func inTeardownLit(m *model.Model, sc *model.SC, n ast.Node) bool {
	for _, tr := range sc.Teardowns {
		if tr.Val != nil && tr.Val.Kind == model.AVFunc && tr.Val.Lit != nil {
			if tr.Val.Lit.Pos() <= n.Pos() && n.End() <= tr.Val.Lit.End() {
				return true
			}
		}
	}
	return false
}

// errorHandled decides how the error result of call is used.
func errorHandled(m *model.Model, sc *model.SC, call *ast.CallExpr, errIdx, nres int) (check.Verdict, string) {
	p := sc.Pkg
	info := p.TypesInfo
	par := m.Parent(p, call)
	var errVar types.Object
	switch x := par.(type) {
	case *ast.AssignStmt:
		if len(x.Rhs) != 1 || len(x.Lhs) != nres {
			return check.Undecided, "error-returning call in an assignment form that is not understood"
		}
		id, ok := x.Lhs[errIdx].(*ast.Ident)
		if !ok {
			return check.Undecided, "error result assigned to a non-identifier"
		}
		if id.Name == "_" {
			return check.Violation, "the error result is discarded (assigned to _): a failure is silently ignored instead of becoming an Error notification"
		}
		errVar = objOf(info, id)
	case *ast.ExprStmt:
		return check.Violation, "the error result of the call is dropped (call used as a statement): a failure is silently ignored instead of becoming an Error notification"
	case *ast.ReturnStmt:
		return check.OK, "error is returned to the caller"
	case *ast.CallExpr:
		// f(g()) spreading results into another call: e.g. destination.ErrorWithContext(ctx, throw())
		if cl := model.Callee(info, x); cl != nil {
			if name, ok := m.Obj.ObserverMethods[cl]; ok && strings.HasPrefix(name, "Error") {
				return check.OK, "error value is emitted as an Error notification"
			}
		}
		return check.Undecided, "error result passed directly to another call"
	case *ast.IfStmt, *ast.BinaryExpr:
		return check.Undecided, "error result used inside a condition"
	default:
		return check.Undecided, fmt.Sprintf("error result used in %T", par)
	}
	if errVar == nil {
		return check.Undecided, "error variable not resolved"
	}
	// find `if errVar != nil { ... }` in the same function after the call
	fn := innermostFunc(m, p, call)
	var verdict check.Verdict = check.Violation
	msg := "the error result is bound to " + errVar.Name() + " but no `if " + errVar.Name() + " != nil` branch emits it as an Error notification"
	ast.Inspect(funcBody(fn), func(n ast.Node) bool {
		if l, ok := n.(*ast.FuncLit); ok && ast.Node(l) != fn {
			return false
		}
		// an if statement, or one case of a tagless switch (its clauses exclude each other like an if / else-if chain)
		type ifLike struct {
			Cond ast.Expr
			Body *ast.BlockStmt
			Else ast.Node
		}
		var ifs *ifLike
		switch y := n.(type) {
		case *ast.IfStmt:
			ifs = &ifLike{y.Cond, y.Body, nil}
			if y.Else != nil {
				ifs.Else = y.Else
			}
		case *ast.CaseClause:
			// switch err { case nil: success…; default / other values: failure }: the `case nil` clause plays the part of
			// `if err == nil`, the remaining clauses that of its else branch
			if sw, ok := m.Parent(p, m.Parent(p, y)).(*ast.SwitchStmt); ok && sw.Tag != nil && len(y.List) == 1 {
				tagID, isTag := ast.Unparen(sw.Tag).(*ast.Ident)
				nilID, isNil := ast.Unparen(y.List[0]).(*ast.Ident)
				if isTag && isNil && objOf(info, tagID) == errVar {
					if _, n := info.Uses[nilID].(*types.Nil); n {
						var rest []ast.Stmt
						for _, cl := range sw.Body.List {
							if cc, ok := cl.(*ast.CaseClause); ok && cc != y {
								rest = append(rest, cc.Body...)
							}
						}
						ifs = &ifLike{&ast.BinaryExpr{X: sw.Tag, OpPos: y.Pos(), Op: token.EQL, Y: y.List[0]}, &ast.BlockStmt{Lbrace: y.Colon, List: y.Body, Rbrace: y.End()}, &ast.BlockStmt{Lbrace: sw.Body.Lbrace, List: rest, Rbrace: sw.Body.Rbrace}}
					}
				}
			}
			if sw, ok := m.Parent(p, m.Parent(p, y)).(*ast.SwitchStmt); ok && sw.Tag == nil && len(y.List) == 1 {
				// the other clauses play the part of the else branch
				var rest []ast.Stmt
				for _, cl := range sw.Body.List {
					if cc, ok := cl.(*ast.CaseClause); ok && cc != y {
						rest = append(rest, cc.Body...)
					}
				}
				ifs = &ifLike{y.List[0], &ast.BlockStmt{Lbrace: y.Colon, List: y.Body, Rbrace: y.End()}, &ast.BlockStmt{Lbrace: sw.Body.Lbrace, List: rest, Rbrace: sw.Body.Rbrace}}
			}
		}
		if ifs == nil || ifs.Cond.Pos() < call.Pos() {
			return true
		}
		be, ok := ast.Unparen(ifs.Cond).(*ast.BinaryExpr)
		if !ok {
			return true
		}
		mentions := func(e ast.Expr) bool {
			id, ok := ast.Unparen(e).(*ast.Ident)
			return ok && objOf(info, id) == errVar
		}
		isNil := func(e ast.Expr) bool {
			id, ok := ast.Unparen(e).(*ast.Ident)
			if !ok {
				return false
			}
			_, n := info.Uses[id].(*types.Nil)
			return n
		}
		var branch ast.Node
		switch {
		case be.Op == token.NEQ && (mentions(be.X) && isNil(be.Y) || mentions(be.Y) && isNil(be.X)):
			branch = ifs.Body
		case be.Op == token.EQL && (mentions(be.X) && isNil(be.Y) || mentions(be.Y) && isNil(be.X)) && ifs.Else != nil:
			branch = ifs.Else
		case be.Op == token.EQL && (mentions(be.X) && isNil(be.Y) || mentions(be.Y) && isNil(be.X)) && ifs.Else == nil:
			// `if err == nil { …; return }` followed by the failure handling: when the success branch cannot fall
			// through, the statements after the if are the failure branch
			last := len(ifs.Body.List) - 1
			if last < 0 {
				return true
			}
			if _, isRet := ifs.Body.List[last].(*ast.ReturnStmt); !isRet {
				return true
			}
			if blk, ok := m.Parent(p, n).(*ast.BlockStmt); ok {
				var rest []ast.Stmt
				after := false
				for _, st := range blk.List {
					if after {
						rest = append(rest, st)
					}
					if ast.Node(st) == n {
						after = true
					}
				}
				if len(rest) == 0 {
					return true
				}
				branch = &ast.BlockStmt{Lbrace: rest[0].Pos(), List: rest, Rbrace: blk.Rbrace}
				ifs.Else = ifs.Body // the failure code cannot be followed by the success code either
			} else {
				return true
			}
		default:
			return true
		}
		// the branch emits Error with errVar (or something containing it) / returns it
		emits, emitsNext := false, false
		returns := false
		var errorPos token.Pos
		ast.Inspect(branch, func(x ast.Node) bool {
			switch y := x.(type) {
			case *ast.CallExpr:
				name := shortCallee(info, y)
				if strings.HasPrefix(name, "Error") && errorPos == token.NoPos {
					errorPos = y.Pos()
				}
				if strings.HasPrefix(name, "Error") {
					for _, a := range y.Args {
						ast.Inspect(a, func(z ast.Node) bool {
							if id, ok := z.(*ast.Ident); ok && objOf(info, id) == errVar {
								emits = true
							}
							return true
						})
					}
				}
				if strings.HasPrefix(name, "Next") && (errorPos != token.NoPos && y.Pos() > errorPos) {
					emitsNext = true // a value after the Error notification
				}
				// the error is handed to a local closure or helper of the repository that sends it as an Error
				// notification (fail(ctx, err), emitCountThenError(ctx, err))
				for ai, a := range y.Args {
					if !mentions(a) {
						continue
					}
					for _, fnode := range calleeFuncNodes(m, p, y) {
						prm := model.FlattenParams(fnode.Pkg.TypesInfo, funcType(fnode.Fn).Params)
						if ai >= len(prm) || prm[ai] == nil {
							continue
						}
						if sendsAsError(m, fnode.Pkg, funcBody(fnode.Fn), prm[ai], 2) {
							emits = true
							if errorPos == token.NoPos {
								errorPos = y.Pos()
							}
						}
					}
				}
			case *ast.ReturnStmt:
				returns = true
				for _, r := range y.Results {
					if mentions(r) {
						emits = true
					}
				}
			}
			return true
		})
		blk, _ := branch.(*ast.BlockStmt)
		endsWithJump := false
		if blk != nil && len(blk.List) > 0 {
			switch blk.List[len(blk.List)-1].(type) {
			case *ast.ReturnStmt, *ast.BranchStmt:
				endsWithJump = true
			}
		}
		switch {
		case emits && !emitsNext && (endsWithJump || returns || ifs.Else != nil):
			verdict, msg = check.OK, "error is tested and emitted as an Error notification on the failure branch, which does not fall through"
		case emits && !emitsNext:
			verdict, msg = check.Violation, "the failure branch emits the error but falls through to the code after it (a value may still be delivered after the Error notification)"
		case emits:
			verdict, msg = check.Violation, "the failure branch also emits a value"
		}
		return true
	})
	return verdict, msg
}

// UNWRAP: error wrappers keep their cause reachable.
func ruleUnwrap() check.Rule {
	return check.Rule{
		Name: "UNWRAP",
		Doc:  "every struct type of the armed packages that implements error and stores an error in a field has an Unwrap() error method that returns that field",
		Run: func(c *check.Ctx) {
			m := c.M
			for _, p := range m.Pkgs {
				if !c.ArmedPkg(p.PkgPath) {
					continue
				}
				scope := p.Types.Scope()
				for _, name := range scope.Names() {
					tn, ok := scope.Lookup(name).(*types.TypeName)
					if !ok {
						continue
					}
					st, ok := tn.Type().Underlying().(*types.Struct)
					if !ok {
						continue
					}
					var errField *types.Var
					for i := 0; i < st.NumFields(); i++ {
						if isErrorType(st.Field(i).Type()) {
							errField = st.Field(i)
						}
					}
					hasError := false
					for _, fd := range methodsOf(p, name) {
						// the method of the error interface: Error() string (a result monad's `Error() error` accessor is not)
						if fd.Name.Name == "Error" && fd.Type.Params.NumFields() == 0 && fd.Type.Results.NumFields() == 1 {
							if b, ok := p.TypesInfo.TypeOf(fd.Type.Results.List[0].Type).Underlying().(*types.Basic); ok && b.Kind() == types.String {
								hasError = true
							}
						}
					}
					if errField == nil || !hasError {
						continue
					}
					c.Inc("error_wrappers", 1)
					key := model.ShortPkg(p.PkgPath) + "." + name + "/Unwrap"
					uw := load.FuncDeclOf(p, name+".Unwrap")
					if uw == nil || uw.Body == nil {
						c.Violation(key, tn.Pos(), "error type %s stores a cause in field %s but has no Unwrap method: errors.Is/As no longer match the original cause", name, errField.Name())
						continue
					}
					rv := recvObj(p.TypesInfo, uw)
					ok2 := false
					ast.Inspect(uw.Body, func(n ast.Node) bool {
						if r, isRet := n.(*ast.ReturnStmt); isRet && len(r.Results) == 1 {
							if s := fieldSelOf(p.TypesInfo, r.Results[0], rv); s != nil && s.Sel.Name == errField.Name() {
								ok2 = true
							}
						}
						return true
					})
					if ok2 {
						c.OK(key, uw.Pos(), "Unwrap returns field %s", errField.Name())
					} else {
						c.Violation(key, uw.Pos(), "Unwrap of %s does not return the stored cause %s", name, errField.Name())
					}
					// the constructors: a function that wraps its error parameter in this type returns, on every path, that
					// wrapper or the parameter itself — not some other error dug out of the chain
					info := p.TypesInfo
					for _, f := range p.Syntax {
						for _, d := range f.Decls {
							fd, ok := d.(*ast.FuncDecl)
							if !ok || fd.Body == nil || fd.Recv != nil {
								continue
							}
							var cause *types.Var
							wraps := func(e ast.Expr) bool {
								e = ast.Unparen(e)
								if u, ok := e.(*ast.UnaryExpr); ok && u.Op == token.AND {
									e = ast.Unparen(u.X)
								}
								cl, ok := e.(*ast.CompositeLit)
								if !ok || load.NamedOf(info.TypeOf(cl)) == nil || load.NamedOf(info.TypeOf(cl)).Obj() != tn {
									return false
								}
								for _, el := range cl.Elts {
									kv, ok := el.(*ast.KeyValueExpr)
									if !ok {
										continue
									}
									if k, ok := kv.Key.(*ast.Ident); ok && k.Name == errField.Name() {
										if id, ok := ast.Unparen(kv.Value).(*ast.Ident); ok {
											if v, ok := objOf(info, id).(*types.Var); ok && isParamVar(m, v) && isErrorType(v.Type()) {
												cause = v
												return true
											}
										}
									}
								}
								return false
							}
							rets := returnsOf(fd.Body)
							isCtor := false
							for _, r := range rets {
								if len(r.Results) == 1 && wraps(r.Results[0]) {
									isCtor = true
								}
							}
							if !isCtor {
								continue
							}
							c.Inc("error_wrapper_constructors", 1)
							ckey := model.ShortPkg(p.PkgPath) + "." + fd.Name.Name + "/keeps-cause"
							bad := token.NoPos
							for _, r := range rets {
								if len(r.Results) != 1 {
									continue
								}
								if wraps(r.Results[0]) {
									continue
								}
								if id, ok := ast.Unparen(r.Results[0]).(*ast.Ident); ok && objOf(info, id) == types.Object(cause) {
									continue
								}
								bad = r.Pos()
							}
							if bad.IsValid() {
								c.Violation(ckey, bad, "%s wraps its error parameter in %s, but this path returns another value (%s): the error that was passed in — and whatever wrapped it — is no longer reachable with errors.Is/As from what the subscriber receives", fd.Name.Name, name, "not the wrapper, not the parameter")
							} else {
								c.OK(ckey, fd.Pos(), "every path returns the wrapper around the parameter, or the parameter")
							}
						}
					}
				}
			}
		},
	}
}

// LOCK-PAIRING: no function leaves a lock held on a normal exit.
func ruleLockPairing() check.Rule {
	return check.Rule{
		Name:        "LOCK-PAIRING",
		Doc:         "in every function of the armed packages each Lock/RLock/successful TryLock is followed by the matching Unlock on every path to a normal exit (or deferred), and no path locks a mutex it may already hold",
		NeedControl: true,
		Run: func(c *check.Ctx) {
			m := c.M
			scs := scLits(m)
			for _, p := range m.Pkgs {
				armed := c.ArmedPkg(p.PkgPath)
				if strings.HasSuffix(p.PkgPath, "/internal/xsync") {
					continue // the lock primitives themselves
				}
				for _, fn := range funcNodes(p) {
					body := funcBody(fn)
					if body == nil {
						continue
					}
					res := lockResult(p, fn)
					if len(res.Ops) == 0 {
						continue
					}
					chain := m.EnclosingFuncs(p, fn)
					key := chainKey(m, p, chain, scs)
					c.Inc("functions_with_locks", 1)
					c.Inc("lock_operations", len(res.Ops))
					bad := false
					for _, ex := range res.Exits {
						if len(ex.Held) > 0 {
							bad = true
							c.Report(armed, key+"/exit", ex.Pos, "a normal exit of this function may leave %s held", ex.Held)
						}
					}
					for _, d := range res.Double {
						bad = true
						c.Report(armed, key+"/double-lock", d.Call.Pos(), "%s may already be held when it is locked here (self-deadlock)", lockShort(d.Key))
					}
					if !bad && armed {
						c.OK(key+"/paired", fn.Pos(), "%d lock operations, every exit (%d) releases what it took", len(res.Ops), len(res.Exits))
					}
				}
			}
			// a local closure that locks a mutex must not be called where that mutex is already held
			h := newHeldDB(m)
			for holder, refs := range h.calls {
				for _, d := range m.Defs[holder] {
					lit, ok := ast.Unparen(d.Expr).(*ast.FuncLit)
					if d.Expr == nil || !ok {
						continue
					}
					for _, cr := range refs {
						acquired := map[string]bool{}
						for _, op := range lockResult(cr.pkg, lit).Ops {
							if (op.Kind == "Lock" || op.Kind == "RLock") && !op.Defer {
								acquired[op.Key] = true
							}
						}
						if len(acquired) == 0 {
							continue
						}
						held := h.heldAt(cr.pkg, cr.call)
						for k := range acquired {
							if held[k] {
								chain := m.EnclosingFuncs(cr.pkg, cr.call)
								key := chainKey(m, cr.pkg, chain, scs) + "/call-" + holder.Name() + "-holding-" + lockShort(k)
								c.Report(c.ArmedPkg(cr.pkg.PkgPath), key, cr.call.Pos(), "%s() locks %s, and it is called here with %s already held: the goroutine dead-locks on its own mutex", holder.Name(), lockShort(k), lockShort(k))
							}
						}
					}
				}
			}
		},
	}
}

const controlsC07 = `
func verifControlUserFnInComplete[T any](onDone func()) func(Observable[T]) Observable[T] {
	return func(source Observable[T]) Observable[T] {
		return NewUnsafeObservableWithContext(func(subscriberCtx context.Context, destination Observer[T]) Teardown {
			sub := source.SubscribeWithContext(subscriberCtx, NewObserverWithContext(
				destination.NextWithContext, destination.ErrorWithContext,
				func(ctx context.Context) { onDone(); destination.CompleteWithContext(ctx) }))
			return sub.Unsubscribe
		})
	}
}

func verifControlGoNoRecover[T any](factory func() T) Observable[T] {
	return NewUnsafeObservableWithContext(func(ctx context.Context, destination Observer[T]) Teardown {
		go func() {
			destination.NextWithContext(ctx, factory())
			destination.CompleteWithContext(ctx)
		}()
		return nil
	})
}

func verifControlErrDropped[T any](project func(T) (T, error)) func(Observable[T]) Observable[T] {
	return func(source Observable[T]) Observable[T] {
		return NewUnsafeObservableWithContext(func(subscriberCtx context.Context, destination Observer[T]) Teardown {
			sub := source.SubscribeWithContext(subscriberCtx, NewObserverWithContext(
				func(ctx context.Context, value T) {
					v, _ := project(value)
					destination.NextWithContext(ctx, v)
				},
				destination.ErrorWithContext, destination.CompleteWithContext))
			return sub.Unsubscribe
		})
	}
}

func verifControlLockLeak(mu *sync.Mutex, cond bool) int {
	mu.Lock()
	if cond {
		return 1
	}
	mu.Unlock()
	return 0
}
`

func C07() *check.Property {
	return &check.Property{
		ID:       "C07",
		Title:    "Errors and panics surface once as an Error notification, never as a crash",
		Patterns: cat(CorePatterns, PluginPkgs, IOPluginPkgs, []string{PromPkg}, RatePkgs),
		Scope:    append([]string{ro}, IOPluginPkgs...),
		Rules:    []check.Rule{ruleInnerTerminalBeforeDestination(), ruleInnerTerminated(), ruleMultiProducerSafe(), ruleSubjectBroadcastLocked(), ruleFlushErrorChecked(), ruleUserFnContext(), ruleGoRecover(), ruleCoreRecover(), ruleErrResultUsed(), ruleUnwrap(), ruleLockPairing(), rulePanicSafeUnlock(), ruleErrorKind(), ruleLockRegion(), ruleNilGuardPolarity(), ruleNilableCallbackGuarded(), ruleSlotGuardAgreement(), ruleAccessGuarded(), ruleNoEmitUnderTeardownLock(), ruleShareReplayConfig(), ruleTerminalReleaseAgreement(), ruleErrorBeforeRelease()},
		Explanation: "Static effect/placement check. User code can run in four kinds of places; the rules prove where each call of a user-supplied function sits (from the model's emission contexts) and that the recover points exist: " +
			"the subscribe function runs inside a try whose handler emits Error and unsubscribes (CORE-RECOVER), observer callbacks run inside the try* helpers, library goroutines go through the recover wrapper or contain no user call (GO-RECOVER), " +
			"user functions are only called in the subscribe body, a next slot or a teardown (USER-FN-CONTEXT), errors returned by callees become Error notifications without falling through (ERR-RESULT-USED), error wrappers unwrap (UNWRAP) and no function leaves a lock held on a normal exit (LOCK-PAIRING).",
		NotDecided:  "panics in custom Observer implementations while subscriberImpl.mu is held (the unlocks are not deferred); exactly-once along a chain (follows from C01); the injected-fault sequences themselves (no execution).",
		Assumptions: []string{"lo.TryCatchWithErrorValue recovers panics of its first argument and passes the value to the second"},
		Floors:      map[string]int{"user_calls": 30, "go_statements": 8, "functions_with_locks": 40, "error_wrappers": 3, "foreign_calls_in_locking_functions": 1, "error_slot_notifications": 80, "delivering_methods": 3, "error_wrapper_constructors": 3},
		Controls:    map[string]string{"zz_verif_controls_c07.go": roControl(controlsC07 + controlsC07b + controlsInnerTerminal + controlsInnerTerminated + controlsFlushError), "zz_verif_controls_c02.go": roControl(controlsC02), "zz_verif_controls_nilguard.go": roControl(controlsNilGuard + controlsNilableCallback), "zz_verif_controls_access.go": roControl(controlsAccessGuard), "zz_verif_controls_termrel.go": roControl(controlsTerminalRelease + controlsErrorBeforeRelease), "zz_verif_controls_c06.go": roControl(controlsC06)},
	}
}

// userSupplied decides whether a function-typed parameter can hold user code: parameters
// of exported functions and methods always can; a parameter of an unexported helper can
// only when some call site passes something other than a library literal free of user calls.
type userSupplied struct {
	m      *model.Model
	params map[*types.Var]paramRef
	calls  map[*types.Func][]callRef
	memo   map[*types.Var]int
}

func newUserSupplied(m *model.Model) *userSupplied {
	us := &userSupplied{m: m, params: map[*types.Var]paramRef{}, calls: map[*types.Func][]callRef{}, memo: map[*types.Var]int{}}
	for _, p := range m.Pkgs {
		info := p.TypesInfo
		for _, fn := range funcNodes(p) {
			for i, v := range model.FlattenParams(info, funcType(fn).Params) {
				if v != nil {
					us.params[v] = paramRef{p, fn, i}
				}
			}
		}
		for _, f := range p.Syntax {
			ast.Inspect(f, func(n ast.Node) bool {
				if call, ok := n.(*ast.CallExpr); ok {
					if callee := model.Callee(info, call); callee != nil {
						us.calls[callee] = append(us.calls[callee], callRef{p, call})
					}
				}
				return true
			})
		}
	}
	return us
}

func (us *userSupplied) supplied(v *types.Var, depth int) bool {
	if r, ok := us.memo[v]; ok {
		return r != 2
	}
	us.memo[v] = 1 // in progress: assume user-supplied
	res := us.compute(v, depth)
	if res {
		us.memo[v] = 1
	} else {
		us.memo[v] = 2
	}
	return res
}

func (us *userSupplied) compute(v *types.Var, depth int) bool {
	pr, ok := us.params[v]
	if !ok || depth > 4 {
		return true
	}
	fd, ok := pr.fn.(*ast.FuncDecl)
	if !ok {
		return true // parameter of a literal (e.g. the application literal's source)
	}
	if fd.Recv != nil || ast.IsExported(fd.Name.Name) || check.IsControlName(fd.Name.Name) {
		return true
	}
	fo, _ := pr.pkg.TypesInfo.Defs[fd.Name].(*types.Func)
	if fo == nil {
		return true
	}
	sites := us.calls[fo]
	if len(sites) == 0 {
		return false // dead helper: no caller can supply anything
	}
	for _, cr := range sites {
		if pr.index >= len(cr.call.Args) {
			return true
		}
		arg := ast.Unparen(cr.call.Args[pr.index])
		switch a := arg.(type) {
		case *ast.FuncLit:
			if us.litCallsUser(cr.pkg, a, depth+1) {
				return true
			}
		case *ast.Ident:
			if _, isNil := cr.pkg.TypesInfo.Uses[a].(*types.Nil); isNil {
				continue
			}
			if pv, ok := objOf(cr.pkg.TypesInfo, a).(*types.Var); ok {
				if _, isParam := us.params[pv]; isParam {
					if us.supplied(pv, depth+1) {
						return true
					}
					continue
				}
				// local variable: every definition must be a clean literal or a call of a library helper
				clean := true
				for _, d := range us.m.Defs[pv] {
					switch e := ast.Unparen(d.Expr).(type) {
					case *ast.FuncLit:
						if us.litCallsUser(cr.pkg, e, depth+1) {
							clean = false
						}
					case *ast.CallExpr:
						if cl := model.Callee(cr.pkg.TypesInfo, e); cl == nil || us.m.Decls[cl] == nil {
							clean = false
						}
					case nil:
						clean = false
					default:
						clean = false
					}
				}
				if !clean {
					return true
				}
				continue
			}
			if fn, ok := objOf(cr.pkg.TypesInfo, a).(*types.Func); ok && us.m.Decls[fn.Origin()] != nil {
				continue // a declared library function
			}
			return true
		case *ast.SelectorExpr:
			// method value / qualified function: library code when it resolves to a declaration we know, or to the standard library
			if fn, ok := cr.pkg.TypesInfo.Uses[a.Sel].(*types.Func); ok {
				if us.m.Decls[fn.Origin()] != nil || (fn.Pkg() != nil && !strings.Contains(fn.Pkg().Path(), ".")) {
					continue
				}
			}
			if s, ok := cr.pkg.TypesInfo.Selections[a]; ok && s.Kind() == types.MethodVal {
				continue
			}
			return true
		default:
			return true
		}
	}
	return false
}

// litCallsUser: the literal calls a user-supplied function parameter of an enclosing function.
func (us *userSupplied) litCallsUser(p *packages.Package, lit *ast.FuncLit, depth int) bool {
	found := false
	ast.Inspect(lit.Body, func(n ast.Node) bool {
		call, ok := n.(*ast.CallExpr)
		if !ok {
			return true
		}
		if id, ok := ast.Unparen(call.Fun).(*ast.Ident); ok {
			if v, ok := objOf(p.TypesInfo, id).(*types.Var); ok {
				if _, isSig := v.Type().Underlying().(*types.Signature); isSig {
					if _, isParam := us.params[v]; isParam {
						// a parameter of the literal itself is not user code of an outer function
						if pr := us.params[v]; pr.fn == ast.Node(lit) {
							return true
						}
						if us.supplied(v, depth+1) {
							found = true
						}
					}
				}
			}
		}
		return true
	})
	return found
}

// isDiscardedLog: the call's results are all assigned to blanks (explicit best-effort output).
func isDiscardedLog(m *model.Model, sc *model.SC, call *ast.CallExpr) bool {
	as, ok := m.Parent(sc.Pkg, call).(*ast.AssignStmt)
	if !ok {
		return false
	}
	for _, l := range as.Lhs {
		if id, ok := l.(*ast.Ident); !ok || id.Name != "_" {
			return false
		}
	}
	return true
}

// PANIC-SAFE-UNLOCK: foreign code is never called with a lock held that only an explicit
// (non-deferred) Unlock would release.
func rulePanicSafeUnlock() check.Rule {
	return check.Rule{
		Name:        "PANIC-SAFE-UNLOCK",
		Doc:         "whenever a function-typed parameter or struct field (a teardown, a callback: code the library does not own) is called while a mutex is held, that mutex is released by a deferred Unlock, so a panic in the callee cannot leave the lock held",
		NeedControl: true,
		Run: func(c *check.Ctx) {
			m := c.M
			scs := scLits(m)
			termSeen := map[string]int{}
			params := map[*types.Var]bool{}
			for _, p := range m.Pkgs {
				for _, fn := range funcNodes(p) {
					for _, v := range model.FlattenParams(p.TypesInfo, funcType(fn).Params) {
						if v != nil {
							params[v] = true
						}
					}
				}
			}
			for _, p := range m.Pkgs {
				if strings.HasSuffix(p.PkgPath, "/internal/xsync") {
					continue
				}
				armed := c.ArmedPkg(p.PkgPath)
				info := p.TypesInfo
				for _, fn := range funcNodes(p) {
					body := funcBody(fn)
					if body == nil {
						continue
					}
					var res = lockResult(p, fn)
					if len(res.Ops) == 0 {
						continue
					}
					n := 0
					ast.Inspect(body, func(x ast.Node) bool {
						if l, ok := x.(*ast.FuncLit); ok && ast.Node(l) != fn {
							return false
						}
						call, ok := x.(*ast.CallExpr)
						if !ok {
							return true
						}
						var fv *types.Var
						switch f := ast.Unparen(call.Fun).(type) {
						case *ast.Ident:
							if v, ok := objOf(info, f).(*types.Var); ok && params[v] {
								fv = v
							}
						case *ast.SelectorExpr:
							if s, ok := info.Selections[f]; ok && s.Kind() == types.FieldVal {
								fv, _ = s.Obj().(*types.Var)
							}
						}
						if fv == nil {
							// a terminal notification runs the teardowns of the subscriber that receives it, and Unsubscribe
							// re-raises their panics: sending one is calling code the library does not own
							what, detail := "", ""
							if name, isObs := m.Obj.ObserverMethods[model.Callee(info, call)]; isObs && notifKind(name) >= 0 {
								// a value notification runs the observer's Next: the library's own observers recover a
								// panicking callback, an Observer implemented by the caller need not
								what = name
							} else if name, isSub := m.Obj.SubscriptionMethods[model.Callee(info, call)]; isSub && name == "Unsubscribe" {
								what = "Unsubscribe" // runs the teardowns and re-raises their panics
							} else if k := subjectHelperKind(m, p, call); k == "broadcast" {
								what = shortCallee(info, call) // notifies the stored observers: values and terminals alike
							} else if len(res.UndeferredAt(call)) > 0 {
								// a local closure or helper of the repository that unsubscribes / sends a terminal (Share's reset)
								for _, b := range calleeBodies(m, p, call) {
									inspectTransitive(m, b.Pkg, b.Body, 2, func(q *packages.Package, y ast.Node) bool {
										if c2, ok := y.(*ast.CallExpr); ok && what == "" {
											if name, isSub := m.Obj.SubscriptionMethods[model.Callee(q.TypesInfo, c2)]; isSub && name == "Unsubscribe" {
												what, detail = shortCallee(info, call), " (which calls Unsubscribe)"
											}
											if name, isObs := m.Obj.ObserverMethods[model.Callee(q.TypesInfo, c2)]; isObs && notifKind(name) > 0 {
												what, detail = shortCallee(info, call), " (which sends "+name+")"
											}
										}
										return what == ""
									})
								}
							}
							if what == "" {
								return true
							}
							held := res.UndeferredAt(call)
							if d, isDefer := m.Parent(p, call).(*ast.DeferStmt); isDefer && d.Call == call {
								held = res.HeldByDeferred(d) // runs at function exit (unicast: `defer tmp.ErrorWithContext(…) // out of lock`)
							}
							if len(held) == 0 {
								return true
							}
							n++
							c.Inc("terminal_notifications_in_locking_functions", 1)
							base := fmt.Sprintf("%s/terminal-under-lock-%s", chainKey(m, p, m.EnclosingFuncs(p, fn), scs), what)
							termSeen[base]++
							key := fmt.Sprintf("%s#%d", base, termSeen[base])
							what += detail
							c.Report(armed, key, call.Pos(), "%s delivers a notification (or runs teardowns) while %s is held and released only by an explicit Unlock: a terminal makes the receiving subscriber run its teardowns, whose panics Unsubscribe re-raises, and a value runs an observer that, when it is the caller's own implementation, nothing recovers; the panic unwinds past the Unlock — the lock stays held, the other observers are never notified and every later call blocks", what, held)
							return true
						}
						if _, isSig := fv.Type().Underlying().(*types.Signature); !isSig {
							return true
						}
						if libraryOwnedParam(m, p, fn, fv) {
							return true
						}
						n++
						c.Inc("foreign_calls_in_locking_functions", 1)
						key := fmt.Sprintf("%s/foreign-call-%s#%d", chainKey(m, p, m.EnclosingFuncs(p, fn), scs), fv.Name(), n)
						held := res.UndeferredAt(call)
						if len(held) == 0 {
							if armed {
								c.OK(key, call.Pos(), "no lock is held without a deferred unlock when %s is called", fv.Name())
							}
						} else {
							c.Report(armed, key, call.Pos(), "%s (code the library does not own) is called while %s is held and released only by an explicit Unlock: a panic in it leaves the lock held and every later caller blocks", fv.Name(), held)
						}
						return true
					})
				}
			}
		},
	}
}

// errorToCompletionByDefinition: operators that close an inner stream normally when the
// source fails, by their documented definition.
var errorToCompletionByDefinition = map[string]string{
	"ro.WindowWhen": "closes the current window before forwarding the error to the outer stream (documented: the window completes when the source terminates)",
}

// ERROR-KIND: an error is not turned into a completion.
func ruleErrorKind() check.Rule {
	return check.Rule{
		Name:        "ERROR-KIND",
		Doc:         "inside the error slot of an upstream observer no observer (the destination, a group, a window, a stored observer) is sent a Complete notification, unless the operator's definition consumes errors (same list as ERR-PROPAGATION): a failure must surface as an Error notification to everyone who can receive it",
		NeedControl: true,
		Run: func(c *check.Ctx) {
			for _, sc := range c.M.SCs {
				armed := c.Armed(sc)
				n := 0
				for _, e := range sc.Emits {
					if e.Ctx.Kind != model.KSrc || e.Slot != model.SlotError {
						continue
					}
					c.Inc("error_slot_notifications", 1)
					if e.Kind != model.EmitComplete {
						continue
					}
					n++
					key := fmt.Sprintf("%s/error-slot-complete#%d", sc, n)
					if why, ok := errorHandledByDefinition[sc.String()]; ok {
						if armed {
							c.OK(key, e.Pos, "by definition: %s", why)
						}
						continue
					}
					if why, ok := errorToCompletionByDefinition[sc.String()]; ok {
						if armed {
							c.OK(key, e.Pos, "by definition: %s", why)
						}
						continue
					}
					c.Report(armed, key, e.Pos, "the error slot sends a Complete notification (to %s): the failure reaches that observer as a normal completion instead of an Error notification", recvName(e))
				}
			}
		},
	}
}

func recvName(e *model.EmitSite) string {
	if e.ToDest {
		return "the destination"
	}
	if e.RecvExpr != nil {
		return types.ExprString(e.RecvExpr)
	}
	return "another observer"
}

const controlsC07b = `
func verifControlLockAroundCallback(mu *sync.Mutex, cb func()) {
	mu.Lock()
	cb()
	mu.Unlock()
}

func verifControlErrorToComplete[T any]() func(Observable[T]) Observable[T] {
	return func(source Observable[T]) Observable[T] {
		return NewUnsafeObservableWithContext(func(subscriberCtx context.Context, destination Observer[T]) Teardown {
			sub := source.SubscribeWithContext(subscriberCtx, NewObserverWithContext(
				destination.NextWithContext,
				func(ctx context.Context, err error) { destination.CompleteWithContext(ctx) },
				destination.CompleteWithContext))
			return sub.Unsubscribe
		})
	}
}

func verifControlTerminalUnderLock[T any](mu *sync.Mutex, o Observer[T]) {
	mu.Lock()
	o.Complete()
	mu.Unlock()
}
`

// libraryOwnedParam: fv is a function-typed parameter of fn, fn is a literal bound to a local closure variable that is
// only ever called, and every call site passes, for that parameter, a function literal that itself calls nothing the
// library does not own (no function-typed variable, parameter or field): a lock wrapper `withLock(func() { x = y })`.
func libraryOwnedParam(m *model.Model, p *packages.Package, fn ast.Node, fv *types.Var) bool {
	lit, ok := fn.(*ast.FuncLit)
	if !ok || lit.Type.Params == nil {
		return false
	}
	info := p.TypesInfo
	idx := -1
	for i, v := range model.FlattenParams(info, lit.Type.Params) {
		if v == fv {
			idx = i
		}
	}
	if idx < 0 {
		return false
	}
	var holder types.Object
	if as, ok := m.Parent(p, lit).(*ast.AssignStmt); ok {
		for i, r := range as.Rhs {
			if ast.Unparen(r) == ast.Expr(lit) && i < len(as.Lhs) {
				if id, ok := as.Lhs[i].(*ast.Ident); ok {
					holder = objOf(info, id)
				}
			}
		}
	}
	if holder == nil {
		return false
	}
	top := topDecl(m.EnclosingFuncs(p, lit))
	if top == nil || top.Body == nil {
		return false
	}
	ok, sites := true, 0
	ast.Inspect(top.Body, func(x ast.Node) bool {
		id, isID := x.(*ast.Ident)
		if !isID || info.Uses[id] != holder {
			return true
		}
		call, isCall := m.Parent(p, id).(*ast.CallExpr)
		if !isCall || ast.Unparen(call.Fun) != ast.Expr(id) || idx >= len(call.Args) {
			ok = false
			return true
		}
		arg, isLit := ast.Unparen(call.Args[idx]).(*ast.FuncLit)
		if !isLit {
			ok = false
			return true
		}
		sites++
		ast.Inspect(arg.Body, func(y ast.Node) bool {
			c2, isCall := y.(*ast.CallExpr)
			if !isCall {
				return true
			}
			if tv, isType := info.Types[c2.Fun]; isType && tv.IsType() {
				return true
			}
			if model.Callee(info, c2) != nil {
				return true
			}
			if fid, isID := ast.Unparen(c2.Fun).(*ast.Ident); isID {
				if _, isBuiltin := info.Uses[fid].(*types.Builtin); isBuiltin {
					return true
				}
			}
			ok = false // a call through a function value
			return true
		})
		return true
	})
	return ok && sites > 0
}

// sendsAsError: body contains a call of an Error* method whose arguments mention v, directly or by handing v on to a
// further helper or closure.
func sendsAsError(m *model.Model, p *packages.Package, body *ast.BlockStmt, v *types.Var, depth int) bool {
	if body == nil {
		return false
	}
	info := p.TypesInfo
	found := false
	ast.Inspect(body, func(x ast.Node) bool {
		call, ok := x.(*ast.CallExpr)
		if !ok || found {
			return !found
		}
		for ai, a := range call.Args {
			uses := false
			ast.Inspect(a, func(z ast.Node) bool {
				if id, ok := z.(*ast.Ident); ok && objOf(info, id) == types.Object(v) {
					uses = true
				}
				return !uses
			})
			if !uses {
				continue
			}
			if strings.HasPrefix(shortCallee(info, call), "Error") {
				found = true
				return false
			}
			if depth > 0 {
				for _, fnode := range calleeFuncNodes(m, p, call) {
					prm := model.FlattenParams(fnode.Pkg.TypesInfo, funcType(fnode.Fn).Params)
					if ai < len(prm) && prm[ai] != nil && sendsAsError(m, fnode.Pkg, funcBody(fnode.Fn), prm[ai], depth-1) {
						found = true
					}
				}
			}
		}
		return !found
	})
	return found
}

// sendsTerminal: the same-type helper called here notifies stored observers with Error or Complete.
func sendsTerminal(m *model.Model, p *packages.Package, call *ast.CallExpr) bool {
	found := false
	for _, b := range calleeBodies(m, p, call) {
		inspectTransitive(m, b.Pkg, b.Body, 2, func(q *packages.Package, n ast.Node) bool {
			if c2, ok := n.(*ast.CallExpr); ok {
				if name, isObs := m.Obj.ObserverMethods[model.Callee(q.TypesInfo, c2)]; isObs && notifKind(name) > 0 {
					found = true
				}
			}
			return !found
		})
	}
	return found
}

// inCtx: c is ctx or a context created (directly) inside it that runs on the same goroutine (a source callback
// subscribed from it, not another goroutine or timer).
func inCtx(c, ctx *model.Ctx) bool {
	for x := c; x != nil; x = x.Parent {
		if x == ctx {
			return true
		}
		if x.Kind == model.KGo || x.Kind == model.KTimer || x.Kind == model.KTeardown {
			return false
		}
		if x.Kind == model.KSrc {
			// callbacks of a source subscribed from the goroutine run on whatever goroutine the source notifies from;
			// only a synchronous source would run them here: not decided, not charged to this goroutine
			return false
		}
	}
	return false
}

package rules

import (
	"fmt"
	"go/ast"
	"go/types"
	"golang.org/x/tools/go/packages"
	"strings"

	"rocheck/internal/check"
	"rocheck/internal/model"
)

// hotByDefinition lists declarations whose application-level state is shared between
// subscribers by the operator's definition (property C12 names Share/ShareReplay,
// subjects and connectable observables as the only hot constructs).
var hotByDefinition = map[string]string{
	"ro.ShareWithConfig": "Share keeps subject, upstream subscription and reference count per application by definition (hot construct)",
}

// StateLevel: no variable declared at an outer level is written at a deeper level that
// runs more often (L0 -> application literal or below; L1 -> subscribe closure or below).
func ruleStateLevel() check.Rule {
	return check.Rule{
		Name:        "STATE-LEVEL",
		Doc:         "a variable declared outside an application literal / subscribe closure is never written inside it (assignment, ++, element/field store, address taken, pointer-receiver method, copy/delete)",
		NeedControl: true,
		Run: func(c *check.Ctx) {
			m := c.M
			scs := scLits(m)
			for _, p := range m.Pkgs {
				info := p.TypesInfo
				for _, fn := range funcNodes(p) {
					lit, ok := fn.(*ast.FuncLit)
					if !ok {
						continue
					}
					chain := m.EnclosingFuncs(p, lit) // outermost .. lit
					// multiplying nodes along the chain
					mult := make([]bool, len(chain))
					any := false
					for i, n := range chain {
						if l, ok := n.(*ast.FuncLit); ok && (scs[l] != nil || m.IsAppLit(info, l)) {
							mult[i] = true
							any = true
						}
					}
					if !any {
						continue
					}
					fd := topDecl(chain)
					declKey := model.ShortPkg(p.PkgPath) + "." + model.DeclName(fd)
					wkey := chainKey(m, p, chain, scs)
					seen := map[string]bool{}
					for _, w := range writesIn(info, lit) {
						// innermost chain node that contains the declaration
						di := -1
						for i := len(chain) - 1; i >= 0; i-- {
							if chain[i].Pos() <= w.Var.Pos() && w.Var.Pos() < chain[i].End() {
								di = i
								break
							}
						}
						if di == len(chain)-1 {
							continue // declared in this function
						}
						crossed := ""
						for i := di + 1; i < len(chain); i++ {
							if mult[i] {
								if scs[chain[i].(*ast.FuncLit)] != nil {
									crossed = "subscribe closure (runs once per subscription)"
								} else {
									crossed = "application literal (runs once per pipeline built)"
								}
								break
							}
						}
						if crossed == "" {
							continue
						}
						where := "package level"
						if di >= 0 {
							where = chainKey(m, p, chain[:di+1], scs)
						}
						key := fmt.Sprintf("%s/var-%s", wkey, w.Var.Name())
						if seen[key] {
							continue
						}
						seen[key] = true
						c.Inc("state_writes_checked", 1)
						if why, hot := hotByDefinition[declKey]; hot {
							// hot per *application*: the exemption covers state declared inside the application literal, not
							// state hoisted above it (shared by every pipeline built from one operator value)
							aboveApp := false
							for i := di + 1; i < len(chain); i++ {
								if l, ok := chain[i].(*ast.FuncLit); ok && scs[l] == nil && m.IsAppLit(info, l) {
									aboveApp = true
								}
							}
							if !aboveApp {
								c.OK(key, w.Node.Pos(), "exempt: %s", why)
								continue
							}
							crossed = "application literal (runs once per pipeline built) of a construct that is hot per application only"
						}
						c.Report(c.ArmedPkg(p.PkgPath), key, w.Node.Pos(),
							"variable %q declared at %s is written (%s) inside a %s: state is shared between subscriptions/applications of one operator value",
							w.Var.Name(), where, w.How, crossed)
					}
					// stateful objects created at an outer level and used inside the closure
					seenObj := map[*types.Var]bool{}
					ast.Inspect(lit.Body, func(n ast.Node) bool {
						if l, ok := n.(*ast.FuncLit); ok && l != lit {
							return false
						}
						id, ok := n.(*ast.Ident)
						if !ok {
							return true
						}
						v, ok := info.Uses[id].(*types.Var)
						if !ok || v.IsField() || seenObj[v] {
							return true
						}
						di := -1
						for i := len(chain) - 1; i >= 0; i-- {
							if chain[i].Pos() <= v.Pos() && v.Pos() < chain[i].End() {
								di = i
								break
							}
						}
						if di < 0 || di == len(chain)-1 {
							return true
						}
						crossed := false
						for i := di + 1; i < len(chain); i++ {
							if mult[i] {
								crossed = true
							}
						}
						if !crossed {
							return true
						}
						what := statefulCreation(m, info, v)
						if what == "" {
							return true
						}
						seenObj[v] = true
						key := fmt.Sprintf("%s/obj-%s", wkey, v.Name())
						c.Inc("state_writes_checked", 1)
						aboveApp := false
						for i := di + 1; i < len(chain); i++ {
							if l, ok := chain[i].(*ast.FuncLit); ok && scs[l] == nil && m.IsAppLit(info, l) {
								aboveApp = true
							}
						}
						if why, hot := hotByDefinition[declKey]; hot && !aboveApp {
							c.OK(key, id.Pos(), "exempt: %s", why)
							return true
						}
						c.Report(c.ArmedPkg(p.PkgPath), key, id.Pos(), "%q holds %s created at %s and is used inside a closure that runs more often: every subscription/application shares that one mutable object", v.Name(), what, chainKey(m, p, chain[:di+1], scs))
						return true
					})
					c.Inc("closures_scanned", 1)
				}
			}
			// per-SC positive obligations: every stateful SC keeps its state inside
			for _, sc := range m.SCs {
				if check.IsControlName(sc.Name) {
					c.OK(sc.String()+"/state-inside", sc.Lit.Pos(), "control")
					continue
				}
				if c.Armed(sc) {
					c.OK(sc.String()+"/state-inside", sc.Lit.Pos(), "all writes performed in the subscribe closure target variables declared inside it (or flagged above)")
				}
			}
		},
	}
}

// LazySource: building a pipeline touches no source.
func ruleLazySource() check.Rule {
	return check.Rule{
		Name:        "LAZY-SOURCE",
		Doc:         "no Subscribe/Connect/Collect call executes at construction (L0) or application (L1) time of an operator",
		NeedControl: true,
		Run: func(c *check.Ctx) {
			m := c.M
			scs := scLits(m)
			for _, p := range m.Pkgs {
				info := p.TypesInfo
				for _, f := range p.Syntax {
					ast.Inspect(f, func(n ast.Node) bool {
						call, ok := n.(*ast.CallExpr)
						if !ok {
							return true
						}
						callee := model.Callee(info, call)
						if callee == nil {
							return true
						}
						what := ""
						if name, ok := m.Obj.ObservableMethods[callee]; ok {
							what = name
						} else if name, ok := m.Obj.ConnectableMethods[callee]; ok {
							what = name
						} else if model.IsPkgFunc(callee, ro, "Collect") || model.IsPkgFunc(callee, ro, "CollectWithContext") {
							what = callee.Name()
						}
						if what == "" {
							return true
						}
						chain := m.EnclosingFuncs(p, call)
						fd := topDecl(chain)
						if fd == nil || fd.Recv != nil {
							return true // methods of observable implementations subscribe by definition
						}
						fobj, _ := info.Defs[fd.Name].(*types.Func)
						if fobj == nil || !isOperatorSig(m, fobj.Type().(*types.Signature)) {
							return true
						}
						c.Inc("subscribe_calls_in_operators", 1)
						inSC := false
						for _, cn := range chain {
							if l, ok := cn.(*ast.FuncLit); ok && scs[l] != nil {
								inSC = true
							}
						}
						key := fmt.Sprintf("%s/%s", chainKey(m, p, chain, scs), what)
						if inSC {
							return true
						}
						// inside a callback literal that is not an SC nor app literal but nested in the
						// operator constructor: still construction/application time unless it is a
						// user-invoked callback; report
						c.Report(c.ArmedPkg(p.PkgPath), key, call.Pos(), "%s is called while the pipeline is being built (outside any subscribe closure): the source is touched at construction/application time", what)
						return true
					})
				}
			}
			for _, sc := range m.SCs {
				if c.Armed(sc) && !check.IsControlName(sc.Name) {
					c.OK(sc.String()+"/lazy", sc.Lit.Pos(), "%d subscribe sites, all inside the subscribe closure", len(sc.SubSites))
				}
			}
		},
	}
}

// SubscribeMultiplicity: a parameter observable is subscribed at most once per
// subscription of the pipeline unless the operator re-subscribes by definition
// (subscribe site in a loop whose subscription is awaited before the next attempt).
func ruleSubscribeMultiplicity() check.Rule {
	return check.Rule{
		Name:        "SUBSCRIBE-MULTIPLICITY",
		Doc:         "each parameter observable has at most one subscribe site per subscribe closure; sites in loops must await the previous subscription (re-subscription by definition)",
		NeedControl: true,
		Run: func(c *check.Ctx) {
			for _, sc := range c.M.SCs {
				byParam := map[*types.Var][]*model.SubSite{}
				seenCall := map[*ast.CallExpr]bool{}
				for _, s := range sc.SubSites {
					if s.Source == nil || s.Source.Kind != model.AVParam || s.Depth > 1 && seenCall[s.Call] {
						continue
					}
					seenCall[s.Call] = true
					byParam[s.Source.Param] = append(byParam[s.Source.Param], s)
				}
				for v, sites := range byParam {
					key := fmt.Sprintf("%s/param-%s", sc, v.Name())
					distinct := map[*ast.CallExpr]*model.SubSite{}
					for _, s := range sites {
						distinct[s.Call] = s
					}
					bad := false
					if len(distinct) > 1 {
						bad = true
						c.Report(c.Armed(sc), key, sites[0].Pos, "parameter observable %q is subscribed at %d different sites in one subscription", v.Name(), len(distinct))
					}
					for _, s := range distinct {
						if s.InLoop && !s.Src.Awaited {
							bad = true
							c.Report(c.Armed(sc), key+"/loop", s.Pos, "parameter observable %q is subscribed inside a loop without awaiting the previous subscription", v.Name())
						}
					}
					if !bad && c.Armed(sc) {
						c.OK(key, sites[0].Pos, "one subscribe site (in loop=%v, awaited=%v)", sites[0].InLoop, sites[0].Src.Awaited)
					}
					c.Inc("param_observables_subscribed", 1)
				}
			}
		},
	}
}

// PARAM-USED: an operator that takes an observable does something with it.
func ruleObservableParamUsed() check.Rule {
	return check.Rule{
		Name: "PARAM-USED",
		Doc:  "every parameter of observable type (Observable[T], a slice or variadic of them) or of function type (user callbacks) of an exported function, and of the application function it returns, is referenced in the body (subscribed, passed on, ranged over): an operator that never touches one of its inputs - for instance after the statement that subscribed the notifier was dropped - cannot implement its definition",
		Run: func(c *check.Ctx) {
			m := c.M
			isObs := func(t types.Type) bool {
				for i := 0; i < 3; i++ {
					if model.IsNamed(t, m.Obj.Observable) || model.IsNamed(t, m.Obj.Connectable) || model.IsNamed(t, m.Obj.Subject) {
						return true
					}
					switch u := t.Underlying().(type) {
					case *types.Slice:
						t = u.Elem()
					case *types.Array:
						t = u.Elem()
					default:
						return false
					}
				}
				return false
			}
			for _, p := range m.Pkgs {
				if !c.ArmedPkg(p.PkgPath) {
					continue
				}
				info := p.TypesInfo
				for _, f := range p.Syntax {
					for _, d := range f.Decls {
						fd, ok := d.(*ast.FuncDecl)
						if !ok || fd.Body == nil || fd.Recv != nil || !fd.Name.IsExported() || check.IsControlName(fd.Name.Name) {
							continue
						}
						// the constructor's own parameters and those of function literals it returns
						type fnp struct {
							ft   *ast.FuncType
							body *ast.BlockStmt
						}
						fns := []fnp{{fd.Type, fd.Body}}
						ast.Inspect(fd.Body, func(x ast.Node) bool {
							if l, ok := x.(*ast.FuncLit); ok && m.IsAppLit(info, l) {
								fns = append(fns, fnp{l.Type, l.Body})
							}
							return true
						})
						for _, fn := range fns {
							for _, pv := range model.FlattenParams(info, fn.ft.Params) {
								if pv == nil || pv.Name() == "_" || pv.Name() == "" {
									continue
								}
								_, isFn := pv.Type().Underlying().(*types.Signature)
								if !isObs(pv.Type()) && !isFn {
									continue
								}
								what := "observable"
								if isFn {
									what = "callback"
									c.Inc("callback_params", 1)
								} else {
									c.Inc("observable_params", 1)
								}
								used := false
								ast.Inspect(fn.body, func(x ast.Node) bool {
									if id, ok := x.(*ast.Ident); ok && info.Uses[id] == types.Object(pv) {
										used = true
									}
									return !used
								})
								key := fmt.Sprintf("%s.%s/param-%s-used", model.ShortPkg(p.PkgPath), fd.Name.Name, pv.Name())
								if used {
									c.OK(key, pv.Pos(), "the %s parameter is used", what)
								} else {
									c.Violation(key, pv.Pos(), "%s parameter %q of %s is never used: the operator ignores one of its inputs (a user callback that is never called, an observable that is never subscribed)", what, pv.Name(), fd.Name.Name)
								}
							}
						}
					}
				}
			}
		},
	}
}

// FreshPerApplication: slices built at application time from operator arguments are fresh.
func ruleFreshPerApplication() check.Rule {
	return check.Rule{
		Name:        "FRESH-PER-APPLICATION",
		Doc:         "append() executed at application time never appends onto a slice captured from the operator constructor (aliasing across applications)",
		NeedControl: true,
		Run: func(c *check.Ctx) {
			m := c.M
			scs := scLits(m)
			for _, p := range m.Pkgs {
				info := p.TypesInfo
				for _, fn := range funcNodes(p) {
					app, ok := fn.(*ast.FuncLit)
					if !ok || !m.IsAppLit(info, app) {
						continue
					}
					chain := m.EnclosingFuncs(p, app)
					n := 0
					ast.Inspect(app.Body, func(x ast.Node) bool {
						if l, ok := x.(*ast.FuncLit); ok && scs[l] != nil {
							return false
						}
						call, ok := x.(*ast.CallExpr)
						if !ok {
							return true
						}
						id, ok := ast.Unparen(call.Fun).(*ast.Ident)
						if !ok {
							return true
						}
						if b, ok := info.Uses[id].(*types.Builtin); !ok || b.Name() != "append" || len(call.Args) == 0 {
							return true
						}
						n++
						root, _ := rootIdent(call.Args[0])
						v, _ := objOf(info, root).(*types.Var)
						key := fmt.Sprintf("%s/append#%d", chainKey(m, p, chain, scs), n)
						if v != nil && !(app.Pos() <= v.Pos() && v.Pos() < app.End()) {
							c.Report(c.ArmedPkg(p.PkgPath), key, call.Pos(), "append onto %q, which is captured from the operator constructor: applications of one operator value may share the backing array", v.Name())
						} else if c.ArmedPkg(p.PkgPath) {
							c.OK(key, call.Pos(), "appends onto a fresh or application-local slice")
						}
						return true
					})
					c.Inc("application_literals", 1)
				}
			}
		},
	}
}

const controlsC12 = `
func verifControlStateLevel[T any]() func(Observable[T]) Observable[T] {
	return func(source Observable[T]) Observable[T] {
		i := int64(0)
		return NewUnsafeObservableWithContext(func(subscriberCtx context.Context, destination Observer[T]) Teardown {
			sub := source.SubscribeWithContext(subscriberCtx, NewObserverWithContext(
				func(ctx context.Context, value T) { i++; destination.NextWithContext(ctx, value) },
				destination.ErrorWithContext, destination.CompleteWithContext))
			return sub.Unsubscribe
		})
	}
}

func verifControlLazySource[T any](source Observable[T]) Observable[T] {
	values, _ := Collect(source)
	return Of(values...)
}

func verifControlMultiplicity[T any]() func(Observable[T]) Observable[T] {
	return func(source Observable[T]) Observable[T] {
		return NewObservableWithContext(func(subscriberCtx context.Context, destination Observer[T]) Teardown {
			subscriptions := NewSubscription(nil)
			subscriptions.AddUnsubscribable(source.SubscribeWithContext(subscriberCtx, destination))
			subscriptions.AddUnsubscribable(source.SubscribeWithContext(subscriberCtx, NoopObserver[T]()))
			return subscriptions.Unsubscribe
		})
	}
}

func verifControlFresh[T any](others ...Observable[T]) func(Observable[T]) Observable[T] {
	return func(source Observable[T]) Observable[T] {
		all := append(others, source)
		return Merge(all...)
	}
}
`

func C12() *check.Property {
	return &check.Property{
		ID:       "C12",
		Title:    "Pipelines are reusable recipes: subscriptions and operator values independent",
		Patterns: cat(CorePatterns, PluginPkgs, IOPluginPkgs, []string{PromPkg}, RatePkgs),
		Scope:    append([]string{ro}, IOPluginPkgs...),
		Rules:    []check.Rule{ruleStateLevel(), ruleLazySource(), ruleSubscribeMultiplicity(), ruleFreshPerApplication(), ruleObservableParamUsed(), ruleBuildTimeState(), ruleHeadTailDisjoint(), ruleNoHotInCold(), ruleMutableSeed(), ruleNoGlobalState(), ruleApplyAtBuildTime()},
		Explanation: "Static discipline check (AST + types). Operators are closures at three levels: constructor (once per operator value), application literal func(source) (once per pipeline) " +
			"and subscribe closure (once per subscription). STATE-LEVEL proves that no write inside a deeper level targets a variable declared at an outer level, so every subscription starts from fresh state and " +
			"applications do not influence each other; LAZY-SOURCE proves no Subscribe/Connect/Collect runs outside a subscribe closure; SUBSCRIBE-MULTIPLICITY and FRESH-PER-APPLICATION cover at-most-once subscription of " +
			"each parameter source and aliasing of slices built at application time.",
		NotDecided:  "state hidden behind pointers/maps inside user-supplied arguments; equality of the notifications of two subscriptions (follows from fresh state for deterministic sources, not checked).",
		Assumptions: []string{"go/types resolves every identifier (load is fail-closed)", "hot constructs are exactly those the property lists (Share/ShareReplay via ShareWithConfig, subjects, connectables)"},
		Floors:      map[string]int{"closures_scanned": 300, "application_literals": 100, "param_observables_subscribed": 90},
		Controls:    map[string]string{"zz_verif_controls_c12.go": roControl(controlsC12 + controlsHeadTail + controlsNoHotInCold + controlsMutableSeed + controlsGlobal + controlsApplyAtBuild)},
	}
}

// statefulCreation reports what mutable library object v was created as (a subscription, a
// subject, a subscriber, a channel, a mutex/once/map of package sync or xsync), or "".
func statefulCreation(m *model.Model, info *types.Info, v *types.Var) string {
	// parameters hold objects supplied by the caller (a channel to read, a limiter, a writer):
	// sharing them is the caller's choice
	if isParamVar(m, v) {
		return ""
	}
	if isSyncSafeType(v.Type()) {
		if _, isChan := v.Type().Underlying().(*types.Chan); isChan {
			return "a channel"
		}
		return "a synchronisation object (" + v.Type().String() + ")"
	}
	for _, d := range m.Defs[v] {
		call, ok := ast.Unparen(d.Expr).(*ast.CallExpr)
		if !ok {
			continue
		}
		cl := model.Callee(info, call)
		if cl == nil {
			continue
		}
		switch {
		case cl.Pkg() != nil && cl.Pkg().Path() == "time" && (cl.Name() == "NewTimer" || cl.Name() == "NewTicker" || cl.Name() == "AfterFunc" || cl.Name() == "After" || cl.Name() == "Tick"):
			return "a running timer (time." + cl.Name() + ")"
		case cl == m.Obj.NewSubscription:
			return "a Subscription"
		case m.Obj.SubscriberCtors[cl] != model.ModeUnknown || cl.Name() == "NewSubscriberWithConcurrencyMode":
			return "a Subscriber"
		case cl.Pkg() != nil && cl.Pkg().Path() == ro && len(cl.Name()) > 7 && cl.Name()[:3] == "New" && cl.Name()[len(cl.Name())-7:] == "Subject":
			return "a Subject"
		}
		// a hot observable: the value is built (here or in the repository helpers the expression calls) with a sharing
		// operator, a connectable or a subject — one running execution joined by every subscription that uses it
		var pkgOf *packages.Package
		for _, p := range m.Pkgs {
			if p.TypesInfo == info {
				pkgOf = p
			}
		}
		if pkgOf != nil && model.IsNamed(v.Type(), m.Obj.Observable) {
			hot := ""
			findCallTransitive(m, pkgOf, d.Expr, func(q *packages.Package, c2 *ast.CallExpr) bool {
				c2l := model.Callee(q.TypesInfo, c2)
				if c2l == nil || c2l.Pkg() == nil || c2l.Pkg().Path() != ro {
					return false
				}
				n := c2l.Name()
				if strings.HasPrefix(n, "Share") || strings.HasPrefix(n, "NewConnectableObservable") || (strings.HasPrefix(n, "New") && strings.HasSuffix(n, "Subject")) {
					hot = n
					return true
				}
				return false
			}, 3)
			if hot != "" {
				return "a hot observable (built with " + hot + ")"
			}
		}
	}
	return ""
}

var paramCache map[*types.Var]bool

func isParamVar(m *model.Model, v *types.Var) bool {
	if paramCache == nil {
		paramCache = map[*types.Var]bool{}
		for _, p := range m.Pkgs {
			for _, fn := range funcNodes(p) {
				for _, prm := range model.FlattenParams(p.TypesInfo, funcType(fn).Params) {
					if prm != nil {
						paramCache[prm] = true
					}
				}
			}
		}
	}
	return paramCache[v]
}

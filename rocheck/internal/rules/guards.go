package rules

import (
	"go/ast"
	"go/constant"
	"go/token"
	"go/types"

	"golang.org/x/tools/go/cfg"

	"rocheck/internal/model"
)

// A guardAtom classifies an atomic boolean expression with respect to a guard G:
// +1 when the expression being true implies G, -1 when it being false implies G, 0 otherwise.
type guardAtom func(e ast.Expr) int

// implies reports whether (e == polarity) implies the guard.
func implies(e ast.Expr, polarity bool, atom guardAtom) bool {
	e = ast.Unparen(e)
	// a local that is nothing but another name (resetOnError := config.ResetOnError) is read as what it names
	for hops := 0; hops < 4; hops++ {
		id, ok := e.(*ast.Ident)
		if !ok {
			break
		}
		a := model.AliasOfIdent(id)
		if a == nil {
			a = model.OutcomeOfIdent(id)
		}
		if a == nil {
			break
		}
		e = ast.Unparen(a)
	}
	switch x := e.(type) {
	case *ast.UnaryExpr:
		if x.Op == token.NOT {
			return implies(x.X, !polarity, atom)
		}
	case *ast.BinaryExpr:
		switch x.Op {
		case token.LOR:
			if !polarity { // both disjuncts are false
				return implies(x.X, false, atom) || implies(x.Y, false, atom)
			}
			return implies(x.X, true, atom) && implies(x.Y, true, atom)
		case token.LAND:
			if polarity { // both conjuncts are true
				return implies(x.X, true, atom) || implies(x.Y, true, atom)
			}
			return implies(x.X, false, atom) && implies(x.Y, false, atom)
		}
	}
	switch atom(e) {
	case +1:
		return polarity
	case -1:
		return !polarity
	}
	return false
}

// guardedBy reports whether every path from the entry of body to target passes an edge on
// which the guard is known to hold (the true/false edge of an if/for condition that implies
// it). Nested function literals are opaque: a target inside a literal is located by the
// statement that contains the literal.
func guardedBy(body *ast.BlockStmt, target ast.Node, atom guardAtom) bool {
	return guardedByEdge(body, target, func(cond ast.Expr, polarity bool) bool { return implies(cond, polarity, atom) })
}

// guardedByEdge is guardedBy with an arbitrary predicate on (condition, outcome) edges.
func guardedByEdge(body *ast.BlockStmt, target ast.Node, pass func(cond ast.Expr, polarity bool) bool) bool {
	if body == nil {
		return false
	}
	g := cfg.New(body, func(*ast.CallExpr) bool { return true })
	if len(g.Blocks) == 0 {
		return false
	}
	tagged := taggedCaseConds(body)
	// block containing the target (innermost node span)
	var tb *cfg.Block
	best := token.Pos(-1)
	for _, b := range g.Blocks {
		for _, n := range b.Nodes {
			if n.Pos() <= target.Pos() && target.End() <= n.End() {
				span := n.End() - n.Pos()
				if best < 0 || span < best {
					best, tb = span, b
				}
			}
		}
	}
	if tb == nil {
		return false
	}
	reach := map[int32]bool{}
	var dfs func(b *cfg.Block)
	dfs = func(b *cfg.Block) {
		if reach[b.Index] {
			return
		}
		reach[b.Index] = true
		for i, s := range b.Succs {
			if len(b.Succs) == 2 && len(b.Nodes) > 0 {
				if cond, ok := b.Nodes[len(b.Nodes)-1].(ast.Expr); ok {
					if eq, isCase := tagged[cond]; isCase {
						cond = eq
					}
					if pass(cond, i == 0) {
						continue // pass edge: the guard holds beyond it
					}
				}
			}
			dfs(s)
		}
	}
	dfs(g.Blocks[0])
	if !reach[tb.Index] {
		return true
	}
	// reachable without passing a guard edge; but if the target block *is* only entered through
	// pass edges plus itself containing the condition, it is unguarded
	return false
}

// statusField returns true when e is <x>.status (a field named status).
func isStatusSel(info *types.Info, e ast.Expr) bool {
	sel, ok := ast.Unparen(e).(*ast.SelectorExpr)
	if !ok || sel.Sel.Name != "status" {
		return false
	}
	s, ok := info.Selections[sel]
	return ok && s.Kind() == types.FieldVal
}

func constIs(info *types.Info, e ast.Expr, v int64) bool {
	tv, ok := info.Types[e]
	if !ok || tv.Value == nil {
		return false
	}
	i, ok := constant.Int64Val(constant.ToInt(tv.Value))
	return ok && i == v
}

func constVal(info *types.Info, e ast.Expr) (int64, bool) {
	tv, ok := info.Types[e]
	if !ok || tv.Value == nil {
		return 0, false
	}
	return constant.Int64Val(constant.ToInt(tv.Value))
}

// atomStatusOpen: atomic.LoadInt32(&x.status) == 0  (+1) / != 0 (-1); x.status == KindNext (+1) / != KindNext (-1).
func atomStatusOpen(info *types.Info) guardAtom {
	return func(e ast.Expr) int {
		be, ok := ast.Unparen(e).(*ast.BinaryExpr)
		if !ok || (be.Op != token.EQL && be.Op != token.NEQ) {
			return 0
		}
		isStatusRead := func(x ast.Expr) bool {
			x = ast.Unparen(x)
			if isStatusSel(info, x) {
				return true
			}
			if call, ok := x.(*ast.CallExpr); ok && len(call.Args) == 1 {
				if cl := model.Callee(info, call); cl != nil && cl.Pkg() != nil && cl.Pkg().Path() == "sync/atomic" && (cl.Name() == "LoadInt32" || cl.Name() == "LoadUint32") {
					if u, ok := ast.Unparen(call.Args[0]).(*ast.UnaryExpr); ok && u.Op == token.AND && isStatusSel(info, u.X) {
						return true
					}
				}
			}
			return false
		}
		var other ast.Expr
		switch {
		case isStatusRead(be.X):
			other = be.Y
		case isStatusRead(be.Y):
			other = be.X
		default:
			return 0
		}
		if !constIs(info, other, 0) { // KindNext == 0 and the open status word == 0
			return 0
		}
		if be.Op == token.EQL {
			return +1
		}
		return -1
	}
}

// atomCASWon: atomic.CompareAndSwapInt32(&x.status, 0, k) with k != 0 (+1).
func atomCASWon(info *types.Info) guardAtom {
	return func(e ast.Expr) int {
		call, ok := ast.Unparen(e).(*ast.CallExpr)
		if !ok || len(call.Args) != 3 {
			return 0
		}
		cl := model.Callee(info, call)
		if cl == nil || cl.Pkg() == nil || cl.Pkg().Path() != "sync/atomic" || cl.Name() != "CompareAndSwapInt32" {
			return 0
		}
		u, ok := ast.Unparen(call.Args[0]).(*ast.UnaryExpr)
		if !ok || u.Op != token.AND || !isStatusSel(info, u.X) {
			return 0
		}
		if !constIs(info, call.Args[1], 0) {
			return 0
		}
		if k, ok := constVal(info, call.Args[2]); !ok || k == 0 {
			return 0
		}
		return +1
	}
}

// afterTerminatingSwitch: target lies after a `switch <x>.status` statement (in an enclosing
// block) whose every clause for a non-open kind ends by returning, and which has such clauses
// for all closed kinds; then reaching target implies the status is open.
func afterTerminatingSwitch(m *model.Model, pkgInfo *types.Info, body *ast.BlockStmt, target ast.Node, closedKinds int) bool {
	found := false
	ast.Inspect(body, func(n ast.Node) bool {
		blk, ok := n.(*ast.BlockStmt)
		if !ok {
			return true
		}
		// the same as a chain of ifs: if status == KindError { …; return } else if status == KindComplete { …; return }
		if blk.Pos() <= target.Pos() && target.End() <= blk.End() {
			closed := map[int64]bool{}
			for _, s := range blk.List {
				if s.End() > target.Pos() {
					break
				}
				for is, _ := s.(*ast.IfStmt); is != nil; {
					if be, ok := ast.Unparen(is.Cond).(*ast.BinaryExpr); ok && be.Op == token.EQL && is.Init == nil {
						var k ast.Expr
						switch {
						case isStatusSel(pkgInfo, be.X):
							k = be.Y
						case isStatusSel(pkgInfo, be.Y):
							k = be.X
						}
						if k != nil && len(is.Body.List) > 0 {
							if v, isConst := constVal(pkgInfo, k); isConst && v != 0 {
								if _, ends := is.Body.List[len(is.Body.List)-1].(*ast.ReturnStmt); ends {
									closed[v] = true
								}
							}
						}
					}
					next, _ := is.Else.(*ast.IfStmt)
					is = next
				}
			}
			if len(closed) >= closedKinds {
				found = true
			}
		}
		for _, s := range blk.List {
			sw, ok := s.(*ast.SwitchStmt)
			if !ok || sw.Tag == nil || !isStatusSel(pkgInfo, sw.Tag) {
				continue
			}
			if !(sw.End() <= target.Pos() && blk.Pos() <= target.Pos() && target.End() <= blk.End()) {
				continue
			}
			closedReturning := 0
			okAll := true
			for _, cl := range sw.Body.List {
				cc := cl.(*ast.CaseClause)
				if cc.List == nil {
					continue
				}
				for _, e := range cc.List {
					v, isConst := constVal(pkgInfo, e)
					if !isConst {
						okAll = false
						continue
					}
					if v == 0 {
						continue // the open kind falls through to the code after the switch
					}
					ends := len(cc.Body) > 0
					if ends {
						_, ends = cc.Body[len(cc.Body)-1].(*ast.ReturnStmt)
					}
					if ends {
						closedReturning++
					} else {
						okAll = false
					}
				}
			}
			if okAll && closedReturning >= closedKinds {
				found = true
			}
		}
		return true
	})
	return found
}

// mustPass reports whether every path from the entry of body to a normal exit passes through
// the CFG node that contains target (exits through panic are ignored).
func mustPass(body *ast.BlockStmt, target ast.Node) bool {
	if body == nil {
		return false
	}
	g := cfg.New(body, func(*ast.CallExpr) bool { return true })
	if len(g.Blocks) == 0 {
		return false
	}
	var tb *cfg.Block
	best := token.Pos(-1)
	for _, b := range g.Blocks {
		for _, n := range b.Nodes {
			if n.Pos() <= target.Pos() && target.End() <= n.End() {
				span := n.End() - n.Pos()
				if best < 0 || span < best {
					best, tb = span, b
				}
			}
		}
	}
	if tb == nil {
		return false
	}
	if tb == g.Blocks[0] {
		return true
	}
	seen := map[int32]bool{}
	escaped := false
	var dfs func(b *cfg.Block)
	dfs = func(b *cfg.Block) {
		if seen[b.Index] || b == tb || escaped {
			return
		}
		seen[b.Index] = true
		if len(b.Succs) == 0 {
			// a normal exit reached without passing the target
			if len(b.Nodes) > 0 {
				if es, ok := b.Nodes[len(b.Nodes)-1].(*ast.ExprStmt); ok {
					if call, ok := es.X.(*ast.CallExpr); ok {
						if id, ok := call.Fun.(*ast.Ident); ok && id.Name == "panic" {
							return
						}
					}
				}
			}
			escaped = true
			return
		}
		for _, s := range b.Succs {
			dfs(s)
		}
	}
	dfs(g.Blocks[0])
	return !escaped
}

// taggedCaseConds: go/cfg shows a case expression of a tagged switch as the condition node of its branch ("one half of
// the tag == expr condition"). This maps each such case expression to the synthesized equality, so that edge predicates
// written for `if tag == expr` also recognise `switch tag { case expr: }`.
func taggedCaseConds(body ast.Node) map[ast.Expr]ast.Expr {
	out := map[ast.Expr]ast.Expr{}
	ast.Inspect(body, func(n ast.Node) bool {
		sw, ok := n.(*ast.SwitchStmt)
		if !ok || sw.Tag == nil {
			return true
		}
		for _, cl := range sw.Body.List {
			if cc, ok := cl.(*ast.CaseClause); ok {
				for _, e := range cc.List {
					out[e] = &ast.BinaryExpr{X: sw.Tag, OpPos: e.Pos(), Op: token.EQL, Y: e}
				}
			}
		}
		return true
	})
	return out
}

// inOpenClause: target sits in the clause of a `switch <status>` that is entered only when the status is open: the
// `case KindNext:` clause, or the `default:` clause of a switch whose other clauses list every closed kind (closedKinds
// distinct non-zero constants).
func inOpenClause(pkgInfo *types.Info, body *ast.BlockStmt, target ast.Node, closedKinds int) bool {
	found := false
	ast.Inspect(body, func(n ast.Node) bool {
		sw, ok := n.(*ast.SwitchStmt)
		if !ok || sw.Tag == nil || !isStatusSel(pkgInfo, sw.Tag) {
			return true
		}
		closed := map[int64]bool{}
		var holder *ast.CaseClause
		for _, cl := range sw.Body.List {
			cc := cl.(*ast.CaseClause)
			if cc.Pos() <= target.Pos() && target.End() <= cc.End() {
				holder = cc
			}
			for _, e := range cc.List {
				if v, isConst := constVal(pkgInfo, e); isConst && v != 0 {
					closed[v] = true
				}
			}
		}
		if holder == nil {
			return true
		}
		if holder.List == nil {
			if len(closed) >= closedKinds {
				found = true
			}
			return true
		}
		onlyOpen := true
		for _, e := range holder.List {
			if v, isConst := constVal(pkgInfo, e); !isConst || v != 0 {
				onlyOpen = false
			}
		}
		if onlyOpen {
			found = true
		}
		return true
	})
	return found
}

// statusKindTest: cond is `<x>.status == K` (either order) for a constant K; returns K.
func statusKindTest(info *types.Info, cond ast.Expr) ast.Expr {
	be, ok := ast.Unparen(cond).(*ast.BinaryExpr)
	if !ok || be.Op != token.EQL {
		return nil
	}
	var k ast.Expr
	switch {
	case isStatusSel(info, be.X):
		k = be.Y
	case isStatusSel(info, be.Y):
		k = be.X
	}
	if k == nil {
		return nil
	}
	if _, isConst := constVal(info, k); !isConst {
		return nil
	}
	return k
}

// statusSwitchOf returns the first `switch <x>.status { … }` of body, or — when the same decision is written as a chain
// `if x.status == K1 { … } else if x.status == K2 { … } else { … }` — a switch statement synthesized from the chain
// (clauses keep the positions of the branches they stand for), or nil.
func statusSwitchOf(info *types.Info, body *ast.BlockStmt) *ast.SwitchStmt {
	var sw *ast.SwitchStmt
	ast.Inspect(body, func(n ast.Node) bool {
		if sw != nil {
			return false
		}
		switch s := n.(type) {
		case *ast.SwitchStmt:
			if s.Tag != nil && isStatusSel(info, s.Tag) {
				sw = s
			}
		case *ast.IfStmt:
			if s.Init != nil || statusKindTest(info, s.Cond) == nil {
				return true
			}
			var tag ast.Expr
			be := ast.Unparen(s.Cond).(*ast.BinaryExpr)
			if isStatusSel(info, be.X) {
				tag = be.X
			} else {
				tag = be.Y
			}
			syn := &ast.SwitchStmt{Switch: s.Pos(), Tag: tag, Body: &ast.BlockStmt{Lbrace: s.Body.Lbrace, Rbrace: s.End()}}
			for is := s; is != nil; {
				k := statusKindTest(info, is.Cond)
				if k == nil || is.Init != nil {
					return true // a mixed chain: not a decision on the status alone
				}
				syn.Body.List = append(syn.Body.List, &ast.CaseClause{Case: is.Pos(), List: []ast.Expr{k}, Colon: is.Body.Lbrace, Body: is.Body.List})
				switch e := is.Else.(type) {
				case *ast.IfStmt:
					is = e
				case *ast.BlockStmt:
					syn.Body.List = append(syn.Body.List, &ast.CaseClause{Case: e.Pos(), Colon: e.Lbrace, Body: e.List})
					is = nil
				default:
					is = nil
				}
			}
			sw = syn
		}
		return sw == nil
	})
	return sw
}
